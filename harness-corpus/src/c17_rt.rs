//! fixed runtime of the compiled #[instrument] corpus (C17): an effect log shared by both twins, argument values that count
//! their clones and drops, a recording collector, and a poll driver for async twins
use std::cell::RefCell;
use std::fmt;
use std::future::Future;
use std::pin::Pin;
use std::task::{Context, Poll, RawWaker, RawWakerVTable, Waker};
use tracing_core::{collect::Interest, field::{Field, Visit}, span, Collect, Event, Metadata};

thread_local! {
    pub static FX: RefCell<Vec<String>> = const { RefCell::new(Vec::new()) };     // the function's own side effects
    pub static LOG: RefCell<Vec<String>> = const { RefCell::new(Vec::new()) };    // what the collector saw
    static STACK: RefCell<Vec<u64>> = const { RefCell::new(Vec::new()) };
    static NEXT: RefCell<u64> = const { RefCell::new(1) };
}

pub fn fx(s: impl Into<String>) { FX.with(|f| f.borrow_mut().push(s.into())); }
pub fn hex(b: &[u8]) -> String { b.iter().map(|x| format!("{:02x}", x)).collect() }

/// an argument that reports when it is dropped
pub struct Droppy(pub u32);
impl Drop for Droppy { fn drop(&mut self) { fx(format!("drop{}", self.0)); } }
impl fmt::Debug for Droppy { fn fmt(&self, f: &mut fmt::Formatter<'_>) -> fmt::Result { write!(f, "Droppy({})", self.0) } }

#[derive(Debug)]
pub struct MyErr(pub u32);
impl fmt::Display for MyErr { fn fmt(&self, f: &mut fmt::Formatter<'_>) -> fmt::Result { write!(f, "my error {}", self.0) } }
impl std::error::Error for MyErr {}

struct V(Vec<String>);
impl Visit for V {
    fn record_u64(&mut self, f: &Field, v: u64) { self.0.push(format!("{}=u64:{}", hex(f.name().as_bytes()), v)) }
    fn record_i64(&mut self, f: &Field, v: i64) { self.0.push(format!("{}=i64:{}", hex(f.name().as_bytes()), v)) }
    fn record_bool(&mut self, f: &Field, v: bool) { self.0.push(format!("{}=bool:{}", hex(f.name().as_bytes()), v as u8)) }
    fn record_str(&mut self, f: &Field, v: &str) { self.0.push(format!("{}=str:{}", hex(f.name().as_bytes()), hex(v.as_bytes()))) }
    fn record_debug(&mut self, f: &Field, v: &dyn fmt::Debug) { self.0.push(format!("{}=debug:{}", hex(f.name().as_bytes()), hex(format!("{:?}", v).as_bytes()))) }
}

fn lvl(m: &Metadata<'_>) -> u8 {
    let l = *m.level();
    if l == tracing_core::Level::ERROR { 1 } else if l == tracing_core::Level::WARN { 2 } else if l == tracing_core::Level::INFO { 3 } else if l == tracing_core::Level::DEBUG { 4 } else { 5 }
}

/// `Rec(true)` is a second collector writing the same log, which reports as its current span the most recently created
/// span id (collectors number their spans independently: the numbers of two collectors may coincide)
pub struct Rec(pub bool);
thread_local! {
    static LASTMETA: RefCell<Option<&'static Metadata<'static>>> = RefCell::new(None);
    static UNDER_REC: RefCell<bool> = RefCell::new(false);
}
impl Collect for Rec {
    fn register_callsite(&self, _: &'static Metadata<'static>) -> Interest { Interest::always() }
    fn enabled(&self, _: &Metadata<'_>) -> bool { true }
    fn new_span(&self, a: &span::Attributes<'_>) -> span::Id {
        let id = NEXT.with(|n| { let mut n = n.borrow_mut(); *n += 1; *n });
        LASTMETA.with(|m| *m.borrow_mut() = Some(a.metadata()));
        let mut v = V(Vec::new());
        a.record(&mut v);
        let parent = if a.is_root() { "root".to_string() } else if a.is_contextual() { format!("ctx{}", STACK.with(|s| s.borrow().last().map(|_| 1).unwrap_or(0))) } else { "explicit".into() };
        LOG.with(|l| l.borrow_mut().push(format!("new:{}:{}:{}:{}:[{}]", hex(a.metadata().name().as_bytes()), lvl(a.metadata()), hex(a.metadata().target().as_bytes()), parent, v.0.join(","))));
        span::Id::from_u64(id)
    }
    fn record(&self, _: &span::Id, _: &span::Record<'_>) {}
    fn record_follows_from(&self, _: &span::Id, _: &span::Id) { LOG.with(|l| l.borrow_mut().push("follows".into())); }
    fn event(&self, e: &Event<'_>) {
        let mut v = V(Vec::new());
        e.record(&mut v);
        let inside = STACK.with(|s| s.borrow().len());
        LOG.with(|l| l.borrow_mut().push(format!("ev:{}:{}:in{}:[{}]", lvl(e.metadata()), hex(e.metadata().target().as_bytes()), inside, v.0.join(","))));
    }
    fn enter(&self, id: &span::Id) { STACK.with(|s| s.borrow_mut().push(id.into_u64())); LOG.with(|l| l.borrow_mut().push("enter".into())); }
    fn exit(&self, _: &span::Id) { STACK.with(|s| { s.borrow_mut().pop(); }); LOG.with(|l| l.borrow_mut().push("exit".into())); }
    fn try_close(&self, _: span::Id) -> bool { LOG.with(|l| l.borrow_mut().push("close".into())); true }
    fn current_span(&self) -> span::Current {
        match (self.0, LASTMETA.with(|m| *m.borrow())) {
            (true, Some(m)) => span::Current::new(span::Id::from_u64(NEXT.with(|n| *n.borrow())), m),
            _ => span::Current::unknown(),
        }
    }
}

/// a future that is pending `n` times
pub struct Yield(pub u32);
impl Future for Yield {
    type Output = ();
    fn poll(mut self: Pin<&mut Self>, _: &mut Context<'_>) -> Poll<()> {
        if self.0 == 0 { Poll::Ready(()) } else { self.0 -= 1; fx("pending"); Poll::Pending }
    }
}

fn noop_waker() -> Waker {
    fn clone(_: *const ()) -> RawWaker { RawWaker::new(std::ptr::null(), &VT) }
    fn noop(_: *const ()) {}
    static VT: RawWakerVTable = RawWakerVTable::new(clone, noop, noop, noop);
    unsafe { Waker::from_raw(RawWaker::new(std::ptr::null(), &VT)) }
}

/// polls to completion, logging each poll into the effect log and (as a marker) into the collector log
pub fn drive<T>(fut: impl Future<Output = T>) -> T {
    let w = noop_waker();
    let mut cx = Context::from_waker(&w);
    let mut fut = Box::pin(fut);
    // every poll after the first runs while ANOTHER collector is the thread's default (the span belongs to the collector the
    // future was created under, and each poll must still run inside it)
    let foreign = tracing_core::Dispatch::new(Rec(true));
    let mut first = true;
    loop {
        LOG.with(|l| l.borrow_mut().push("poll".into()));
        let r = if first || !UNDER_REC.with(|u| *u.borrow()) { fut.as_mut().poll(&mut cx) } else { tracing_core::dispatch::with_default(&foreign, || fut.as_mut().poll(&mut cx)) };
        first = false;
        if let Poll::Ready(v) = r { return v; }
    }
}

/// drives a future the instrumented function RETURNED (not part of the call: its polls are not logged)
pub fn drive_returned<T>(fut: impl Future<Output = T>) -> T {
    let w = noop_waker();
    let mut cx = Context::from_waker(&w);
    let mut fut = Box::pin(fut);
    loop {
        if let Poll::Ready(v) = fut.as_mut().poll(&mut cx) { return v; }
    }
}

pub fn take(which: &'static std::thread::LocalKey<RefCell<Vec<String>>>) -> String {
    which.with(|f| { let v: Vec<String> = f.borrow_mut().drain(..).collect(); if v.is_empty() { "-".into() } else { v.join(",") } })
}

/// runs one twin; the outcome is rendered (value / panic payload) together with its effect log
pub fn outcome<T: fmt::Debug>(f: impl FnOnce() -> T) -> String {
    let r = std::panic::catch_unwind(std::panic::AssertUnwindSafe(f));
    let o = match r {
        Ok(v) => format!("ret:{}", hex(format!("{:?}", v).as_bytes())),
        Err(p) => format!("panic:{}", hex(p.downcast_ref::<&str>().map(|s| s.to_string()).or_else(|| p.downcast_ref::<String>().cloned()).unwrap_or_default().as_bytes())),
    };
    format!("{}|fx={}", o, take(&FX))
}

/// case i: (instrumented under the recording collector, instrumented with no collector, plain)
pub fn run(cases: &[(fn() -> String, fn() -> String)]) {
    use std::io::BufRead;
    std::panic::set_hook(Box::new(|_| {}));
    let n = std::io::stdin().lock().lines().count();
    for (inst, plain) in cases.iter().take(n) {
        let d = tracing_core::Dispatch::new(Rec(false));
        LOG.with(|l| l.borrow_mut().clear());
        FX.with(|l| l.borrow_mut().clear());
        UNDER_REC.with(|u| *u.borrow_mut() = true);
        let a = tracing_core::dispatch::with_default(&d, || inst());
        UNDER_REC.with(|u| *u.borrow_mut() = false);
        let log = take(&LOG);
        drop(d);
        let b = inst();
        let _ = take(&LOG);
        let c = plain();
        println!("{} ;; {} ;; {} ;; {}", a, b, c, log);
    }
}
