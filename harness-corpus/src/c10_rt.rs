//! fixed runtime of the compiled macro corpus (C10): evaluation counters, a typed recording visitor and four collector regimes
use std::cell::RefCell;
use std::fmt;
use tracing_core::{collect::Interest, field::{Field, Visit}, span, Collect, Event, LevelFilter, Metadata};

thread_local! {
    pub static TICKS: RefCell<Vec<u32>> = const { RefCell::new(Vec::new()) };
    pub static SEEN: RefCell<Vec<String>> = const { RefCell::new(Vec::new()) };
}

/// locals for dotted shorthand fields (`?conn.port`, `%conn.peer.id`)
pub struct Peer { pub id: u8 }
pub struct Conn { pub port: u8, pub peer: Peer }

/// what an `enabled!` invocation evaluated to
pub fn answer(b: bool) { SEEN.with(|s| s.borrow_mut().push(format!("71:enabled:{}", if b { 1 } else { 0 }))); }

pub fn tick<T>(j: usize, v: T) -> T {
    TICKS.with(|t| { let mut t = t.borrow_mut(); if t.len() <= j { t.resize(j + 1, 0); } t[j] += 1; });
    v
}

pub fn hex(b: &[u8]) -> String { b.iter().map(|x| format!("{:02x}", x)).collect() }

struct V;
impl V { fn push(&self, f: &Field, m: &str, v: String) { SEEN.with(|s| s.borrow_mut().push(format!("{}:{}:{}", hex(f.name().as_bytes()), m, v))); } }
impl Visit for V {
    fn record_u64(&mut self, f: &Field, v: u64) { self.push(f, "u64", v.to_string()) }
    fn record_i64(&mut self, f: &Field, v: i64) { self.push(f, "i64", v.to_string()) }
    fn record_u128(&mut self, f: &Field, v: u128) { self.push(f, "u128", v.to_string()) }
    fn record_i128(&mut self, f: &Field, v: i128) { self.push(f, "i128", v.to_string()) }
    fn record_f64(&mut self, f: &Field, v: f64) { self.push(f, "f64", format!("{:016x}", v.to_bits())) }
    fn record_bool(&mut self, f: &Field, v: bool) { self.push(f, "bool", if v { "1".into() } else { "0".into() }) }
    fn record_str(&mut self, f: &Field, v: &str) { self.push(f, "str", hex(v.as_bytes())) }
    fn record_bytes(&mut self, f: &Field, v: &[u8]) { self.push(f, "bytes", hex(v)) }
    fn record_error(&mut self, f: &Field, v: &(dyn std::error::Error + 'static)) { self.push(f, "error", hex(v.to_string().as_bytes())) }
    fn record_debug(&mut self, f: &Field, v: &dyn fmt::Debug) { self.push(f, "debug", hex(format!("{:?}", v).as_bytes())) }
}

/// the level of the span / event the collector is handed (1 = ERROR … 5 = TRACE)
fn note_level(m: &Metadata<'_>) {
    let l = *m.level();
    let r = if l == tracing_core::Level::ERROR { 1 } else if l == tracing_core::Level::WARN { 2 } else if l == tracing_core::Level::INFO { 3 } else if l == tracing_core::Level::DEBUG { 4 } else { 5 };
    SEEN.with(|s| s.borrow_mut().push(format!("6c766c:level:{}", r)));
}

#[derive(Clone, Copy)]
pub enum Regime { Enable, StaticNever, DynamicFalse, Cap }

pub struct Rec(pub Regime);
impl Collect for Rec {
    fn register_callsite(&self, _: &'static Metadata<'static>) -> Interest {
        match self.0 { Regime::StaticNever => Interest::never(), Regime::DynamicFalse => Interest::sometimes(), _ => Interest::always() }
    }
    fn enabled(&self, _: &Metadata<'_>) -> bool { !matches!(self.0, Regime::DynamicFalse | Regime::StaticNever) }
    fn max_level_hint(&self) -> Option<LevelFilter> { if let Regime::Cap = self.0 { Some(LevelFilter::WARN) } else { None } }
    fn new_span(&self, a: &span::Attributes<'_>) -> span::Id { note_level(a.metadata()); a.record(&mut V); span::Id::from_u64(1) }
    fn record(&self, _: &span::Id, r: &span::Record<'_>) { r.record(&mut V); }
    fn record_follows_from(&self, _: &span::Id, _: &span::Id) {}
    fn event(&self, e: &Event<'_>) { note_level(e.metadata()); e.record(&mut V); }
    fn enter(&self, _: &span::Id) {}
    fn exit(&self, _: &span::Id) {}
    fn current_span(&self) -> span::Current { span::Current::unknown() }
}

pub fn run(invs: &[(fn(), usize)]) {
    use std::io::BufRead;
    let n = std::io::stdin().lock().lines().count();
    let mut out: Vec<Vec<String>> = vec![Vec::new(); invs.len()];
    for regime in [Regime::Enable, Regime::StaticNever, Regime::DynamicFalse, Regime::Cap] {
        let d = tracing_core::Dispatch::new(Rec(regime));
        tracing_core::dispatch::with_default(&d, || {
            for (i, (f, nticks)) in invs.iter().enumerate() {
                TICKS.with(|t| { let mut t = t.borrow_mut(); t.clear(); t.resize(*nticks, 0); });
                SEEN.with(|s| s.borrow_mut().clear());
                f();
                let seen = SEEN.with(|s| s.borrow().join(";"));
                let ticks = TICKS.with(|t| t.borrow().iter().map(|x| x.to_string()).collect::<Vec<_>>().join(","));
                out[i].push(format!("v={}|e={}", if seen.is_empty() { "-".into() } else { seen }, if ticks.is_empty() { "-".into() } else { ticks }));
            }
        });
        drop(d);
    }
    for o in out.iter().take(n) { println!("{}", o.join(" / ")); }
}
