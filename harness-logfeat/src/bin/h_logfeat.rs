//! C18 executor (tracing built WITH the `log` feature): events and span lifecycle steps written through the real macros, a
//! recording `log::Log`, and collector installations.  One history per process (EXISTS and the logger are process-global).
//!   op ; op ; …     ops: ev <lvl> <a> <hex b> <n> | sp <lvl> <k> | sd | dg | sg
use std::sync::Mutex;
use tracing::Level;

static RECS: Mutex<Vec<String>> = Mutex::new(Vec::new());
fn hex(b: &[u8]) -> String { b.iter().map(|x| format!("{:02x}", x)).collect() }
fn unhex(s: &str) -> String { String::from_utf8((0..s.len() / 2).map(|i| u8::from_str_radix(&s[2 * i..2 * i + 2], 16).unwrap()).collect()).unwrap() }

struct L;
impl log::Log for L {
    fn enabled(&self, _: &log::Metadata<'_>) -> bool { true }
    fn log(&self, r: &log::Record<'_>) {
        let lvl = match r.level() { log::Level::Error => 1, log::Level::Warn => 2, log::Level::Info => 3, log::Level::Debug => 4, log::Level::Trace => 5 };
        RECS.lock().unwrap().push(format!("{}:{}:{}", lvl, hex(r.target().as_bytes()), hex(format!("{}", r.args()).as_bytes())));
    }
    fn flush(&self) {}
}
static LOGGER: L = L;

struct Quiet;
impl tracing_core::Collect for Quiet {
    fn enabled(&self, _: &tracing_core::Metadata<'_>) -> bool { true }
    fn new_span(&self, _: &tracing_core::span::Attributes<'_>) -> tracing_core::span::Id { tracing_core::span::Id::from_u64(1) }
    fn record(&self, _: &tracing_core::span::Id, _: &tracing_core::span::Record<'_>) {}
    fn record_follows_from(&self, _: &tracing_core::span::Id, _: &tracing_core::span::Id) {}
    fn event(&self, _: &tracing_core::Event<'_>) {}
    fn enter(&self, _: &tracing_core::span::Id) {}
    fn exit(&self, _: &tracing_core::span::Id) {}
    fn current_span(&self) -> tracing_core::span::Current { tracing_core::span::Current::unknown() }
}

fn take() -> String { let mut r = RECS.lock().unwrap(); let v: Vec<String> = r.drain(..).collect(); if v.is_empty() { "-".into() } else { v.join(",") } }

// every way of writing the same event / span (the macro arms differ; what is logged must not): the form is a function of the
// first field's value (in every second form the second field has a dotted name that starts with `log.`: a user's field like any other)
macro_rules! ev { ($l:expr, $m:ident, $a:expr, $b:expr, $n:expr) => { match $a % 6 {
    0 => tracing::event!(target: "tgt_ev", $l, a = $a, b = %$b, "msg {}", $n),
    1 => tracing::event!(target: "tgt_ev", parent: None, $l, a = $a, log.b = %$b, "msg {}", $n),
    2 => tracing::event!(name: "ev_name", target: "tgt_ev", $l, a = $a, b = %$b, "msg {}", $n),
    3 => tracing::event!(name: "ev_name", target: "tgt_ev", parent: None, $l, a = $a, log.b = %$b, "msg {}", $n),
    4 => tracing::$m!(target: "tgt_ev", a = $a, b = %$b, "msg {}", $n),
    _ => tracing::$m!(target: "tgt_ev", parent: None, a = $a, log.b = %$b, "msg {}", $n),
} }; }
macro_rules! sp { ($l:expr, $m:ident, $k:expr) => {{
    let mut outs = Vec::new();
    let s = match $k % 4 {
        0 => tracing::span!(target: "tgt_sp", $l, "my_span", k = $k),
        1 => tracing::span!(target: "tgt_sp", parent: None, $l, "my_span", k = $k),
        2 => tracing::$m!(target: "tgt_sp", "my_span", k = $k),
        _ => tracing::$m!(target: "tgt_sp", parent: None, "my_span", k = $k),
    };
    outs.push(take());
    if ($k / 4) % 2 == 0 {
        let g = s.enter(); outs.push(take());
        drop(g); outs.push(take());
        drop(s); outs.push(take());
    } else {
        // the owned guard: `entered()` consumes the handle, `exit()` gives it back
        let g = s.entered(); outs.push(take());
        let s = g.exit(); outs.push(take());
        drop(s); outs.push(take());
    }
    outs.join("+")
}}; }

fn main() {
    log::set_logger(&LOGGER).unwrap();
    log::set_max_level(log::LevelFilter::Trace);
    let mut line = String::new();
    std::io::stdin().read_line(&mut line).unwrap();
    let toks: Vec<&str> = line.split_whitespace().collect();
    let mut guards: Vec<tracing::dispatch::DefaultGuard> = Vec::new();
    let mut outs = Vec::new();
    for op in toks.split(|t| *t == ";") {
        if op.is_empty() { continue; }
        let o = match op[0] {
            "ev" => {
                let a: u64 = op[2].parse().unwrap(); let b = unhex(op[3]); let n: i64 = op[4].parse().unwrap();
                match op[1] { "1" => ev!(Level::ERROR, error, a, b, n), "2" => ev!(Level::WARN, warn, a, b, n), "3" => ev!(Level::INFO, info, a, b, n), "4" => ev!(Level::DEBUG, debug, a, b, n), _ => ev!(Level::TRACE, trace, a, b, n) }
                take()
            }
            "sp" => {
                let k: u64 = op[2].parse().unwrap();
                match op[1] { "1" => sp!(Level::ERROR, error_span, k), "2" => sp!(Level::WARN, warn_span, k), "3" => sp!(Level::INFO, info_span, k), "4" => sp!(Level::DEBUG, debug_span, k), _ => sp!(Level::TRACE, trace_span, k) }
            }
            "sd" => { guards.push(tracing::dispatch::set_default(&tracing::Dispatch::new(Quiet))); take() }
            "dg" => { guards.pop(); take() }
            "sg" => { let _ = tracing::dispatch::set_global_default(tracing::Dispatch::new(Quiet)); take() }
            _ => "bad-op".into(),
        };
        outs.push(o);
    }
    println!("{}", outs.join(" "));
}
