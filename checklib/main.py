import os, sys, json, time, subprocess, fcntl, random, shutil, re, importlib, hashlib, traceback

VERIF = os.path.dirname(os.path.dirname(os.path.abspath(__file__)))
REPO = os.environ.get('VERIF_REPO', '/repo')
LEAN = os.path.join(VERIF, 'lean')
HARNESS = os.path.join(VERIF, 'harness')
BUILD = os.path.join(VERIF, '.build')
TARGET = os.path.join(BUILD, 'harness-target')
DRIVER = os.path.join(LEAN, '.lake', 'build', 'bin', 'tmdriver')
ALLOWED_AXIOMS = {'propext', 'Classical.choice', 'Quot.sound'}
ALL_IDS = ['C%02d' % i for i in range(1, 21)]

def env_offline():
    e = dict(os.environ)
    e['CARGO_NET_OFFLINE'] = 'true'
    e['RUSTFLAGS'] = '--cfg tokio_rs_tracing_verif'
    e.pop('CARGO_TARGET_DIR', None)
    e.pop('RUSTC_WRAPPER', None)
    return e

class Lock:
    def __enter__(self):
        os.makedirs(BUILD, exist_ok=True)
        self.f = open(os.path.join(BUILD, 'lock'), 'w')
        fcntl.flock(self.f, fcntl.LOCK_EX)
        return self
    def __exit__(self, *a):
        fcntl.flock(self.f, fcntl.LOCK_UN)
        self.f.close()

def run(cmd, cwd=None, env=None, input=None, timeout=None):
    p = subprocess.run(cmd, cwd=cwd, env=env, input=input, stdout=subprocess.PIPE, stderr=subprocess.STDOUT,
                       text=True, timeout=timeout)
    return p.returncode, p.stdout

# ----------------------------------------------------------------------------- build steps

def translate(units):
    """returns (ok, statuses)"""
    # every unit is regenerated on every run (Gen/ always reflects /repo's working tree); only the
    # statuses of the units this property depends on are reported as its translator tie
    rc, out = run([sys.executable, os.path.join(VERIF, 'translator', 'extract.py'), '--repo', REPO])
    st = []
    for line in out.splitlines():
        try:
            st.append(json.loads(line))
        except Exception:
            st.append({'unit': '?', 'ok': False, 'reason': line})
    if units is not None and units != []:
        st = [x for x in st if x.get('unit') in units or x.get('unit') == '?']
    elif units == []:
        st = []
    ok = all(s.get('ok') for s in st)
    return ok, st

def lake_build(targets):
    rc, out = run(['lake', 'build'] + list(targets), cwd=LEAN)
    return rc == 0, out

def lean_errors(out):
    errs = []
    for l in out.splitlines():
        if l.startswith('error:') or re.match(r'^error: .*\.lean:\d+', l):
            errs.append(l)
    return errs

def audit(ns, module):
    """returns list of (theorem, [axioms]) or None on failure"""
    os.makedirs(BUILD, exist_ok=True)
    p = os.path.join(BUILD, 'audit_%s.lean' % ns)
    open(p, 'w').write('import %s\nimport TracingModel.AuditLib\n#audit_ns %s\n' % (module, ns))
    rc, out = run(['lake', 'env', 'lean', p], cwd=LEAN)
    if rc != 0:
        return None, out
    res = []
    for l in out.splitlines():
        m = re.search(r'AUDIT (\S+)\s*(.*)$', l)
        if m:
            name = m.group(1)
            last = name.split('.')[-1]
            if re.fullmatch(r'eq_\d+|eq_def|congr_simp|sizeOf_spec|injEq|inj|noConfusion.*|match_\d+.*|proof_\d+|induct.*|fun_cases.*', last):
                continue
            res.append((name, m.group(2).split()))
    return res, out

FORBIDDEN = re.compile(r'\b(sorry|admit|native_decide|bv_decide|implemented_by|unsafe|maxHeartbeats\s+0)\b|^\s*axiom\s', re.M)

def strip_lean_comments(src):
    # remove /- ... -/ (nested) and -- ... comments
    out = []
    i = 0; depth = 0; n = len(src)
    while i < n:
        if src.startswith('/-', i):
            depth += 1; i += 2
        elif depth and src.startswith('-/', i):
            depth -= 1; i += 2
        elif depth:
            i += 1
        elif src.startswith('--', i):
            j = src.find('\n', i)
            i = n if j < 0 else j
        else:
            out.append(src[i]); i += 1
    return ''.join(out)

def grep_forbidden():
    hits = []
    for root, _, files in os.walk(os.path.join(LEAN, 'TracingModel')):
        for fn in files:
            if fn.endswith('.lean') and fn != 'AuditLib.lean':
                p = os.path.join(root, fn)
                body = strip_lean_comments(open(p).read())
                body = re.sub(r'"(?:\\.|[^"\\])*"', '""', body)
                for m in FORBIDDEN.finditer(body):
                    hits.append('%s: %s' % (os.path.relpath(p, LEAN), m.group(0).strip()))
    return hits

def cargo_build(bins, crate=HARNESS):
    args = ['cargo', 'build', '--offline', '--quiet']
    for b in bins:
        args += ['--bin', b]
    rc, out = run(args, cwd=crate, env=env_offline())
    return rc == 0, out

def bin_path(name):
    return os.path.join(TARGET, 'debug', name)

# ----------------------------------------------------------------------------- running

def run_lines(cmd, lines, timeout=900, env=None, cwd=None):
    """feed lines, get one output line per input line; big inputs are split over processes
    (executors and driver modes are stateless across lines)"""
    if len(lines) > 100000:
        from concurrent.futures import ThreadPoolExecutor
        k = 12
        step = (len(lines) + k - 1) // k
        chunks = [lines[i:i + step] for i in range(0, len(lines), step)]
        with ThreadPoolExecutor(max_workers=k) as ex:
            rs = list(ex.map(lambda ch: run_lines1(cmd, ch, timeout, env, cwd), chunks))
        outs = []
        for o, e in rs:
            if e:
                return o, e
            outs += o
        return outs, None
    return run_lines1(cmd, lines, timeout, env, cwd)

def run_lines1(cmd, lines, timeout=900, env=None, cwd=None):
    inp = ''.join(l + '\n' for l in lines)
    try:
        p = subprocess.run(cmd, input=inp, stdout=subprocess.PIPE, stderr=subprocess.PIPE, text=True,
                           timeout=timeout, env=env, cwd=cwd)
    except subprocess.TimeoutExpired:
        return None, 'timeout'
    outs = p.stdout.split('\n')
    if outs and outs[-1] == '':
        outs.pop()
    if p.returncode != 0 or len(outs) != len(lines):
        return outs, 'exit=%s, %d lines for %d cases; stderr: %s' % (p.returncode, len(outs), len(lines), p.stderr[-2000:])
    return outs, None

def run_per_process(cmd, lines, timeout=60, jobs=16, env=None, marks=None):
    """one fresh process per case line (process-global state); `marks`: (substring of stderr, token appended to the output)"""
    from concurrent.futures import ThreadPoolExecutor
    def one(l):
        try:
            p = subprocess.run(cmd, input=l + '\n', stdout=subprocess.PIPE, stderr=subprocess.PIPE, text=True,
                               timeout=timeout, env=env)
        except subprocess.TimeoutExpired:
            return 'TIMEOUT'
        o = p.stdout.strip('\n')
        if p.returncode != 0:
            return 'CRASH exit=%s %s | %s' % (p.returncode, o.replace('\n', ' / '), p.stderr.strip()[-300:].replace('\n', ' / '))
        for sub, tok in (marks or []):
            if sub in p.stderr: o += ' ' + tok
        return o
    with ThreadPoolExecutor(max_workers=jobs) as ex:
        return list(ex.map(one, lines)), None

def driver(prop, mode, lines):
    return run_lines([DRIVER, prop, mode], lines)

# ----------------------------------------------------------------------------- findings

def load_known_findings(pid):
    """lines: `finding property=Cxx id=Fk witness=<path> <prose>` / `fixed: property=Cxx <commit> <prose>`"""
    p = os.path.join(VERIF, 'known-findings.txt')
    res = []
    if not os.path.exists(p):
        return res
    for l in open(p):
        l = l.strip()
        if not l or l.startswith('#'):
            continue
        if l.startswith('finding '):
            kv = dict(m.groups() for m in re.finditer(r'(\w+)=(\S+)', l))
            if kv.get('property') == pid:
                kv['text'] = l
                res.append(kv)
    return res

# ----------------------------------------------------------------------------- the generic check

class Stream:
    """One correspondence stream: cases -> real code (executor) and -> Lean model (driver mode)."""
    def __init__(self, name, bin, mode='model', gen=None, per_process=False, nontrivial=None,
                 canon=None, spec_mode=None, judge=None, corpus=None, crate=None, describe='', bulk=False):
        self.name = name; self.bin = bin; self.mode = mode; self.gen = gen
        self.per_process = per_process; self.nontrivial = nontrivial or (lambda c, o: True)
        self.canon = canon or (lambda s: s); self.spec_mode = spec_mode; self.corpus = corpus
        self.crate = crate; self.describe = describe; self.bulk = bulk; self.judge = judge

class Result:
    def __init__(self):
        self.evaluations = 0
        self.nontrivial = set()
        self.samples = []
        self.disagreements = []   # (stream, case, impl, model)
        self.spec_failures = []   # (stream, case, impl, spec)
        self.known = {}           # finding id -> count
        self.hist = {}
        self.errors = []
        self.leanchecker = []

def write_replay(pid, seed, kind, lines):
    os.makedirs(os.path.join(VERIF, 'replays'), exist_ok=True)
    p = os.path.join(VERIF, 'replays', '%s-%s-%s.replay' % (pid, kind, seed))
    open(p, 'w').write('\n'.join(lines) + '\n')
    return p

def corpus_cases(pid, stream):
    d = os.path.join(VERIF, 'corpus', pid)
    out = []
    if os.path.isdir(d):
        for fn in sorted(os.listdir(d)):
            if fn.endswith('.' + stream + '.case'):
                for l in open(os.path.join(d, fn)):
                    l = l.strip()
                    if l and not l.startswith('#'):
                        out.append(l)
    return out

def exec_stream(pid, st, cases):
    cmd = [bin_path(st.bin)]
    env = None
    if getattr(st, 'env', None):
        env = dict(os.environ); env.update(st.env)
    if st.per_process:
        impl, err = run_per_process(cmd, cases, env=env, marks=getattr(st, 'stderr_marks', None))
    else:
        impl, err = run_lines(cmd, cases, env=env)
    return impl, err

def main(argv):
    if argv and argv[0] == '--setup':
        return setup()
    if not argv:
        print(__doc__); return 2
    pid = argv[0]
    tier = os.environ.get('VERIF_TIER', 'quick')
    seed = int(os.environ.get('VERIF_SEED', '0') or 0)
    replay = None
    i = 1
    while i < len(argv):
        if argv[i] == '--tier': tier = argv[i+1]; i += 2
        elif argv[i] == '--seed': seed = int(argv[i+1]); i += 2
        elif argv[i] == '--replay': replay = argv[i+1]; i += 2
        else: print('unknown argument', argv[i]); return 2
    if tier not in ('quick', 'thorough'):
        tier = 'quick'
    mod = importlib.import_module('checks.' + pid)
    return run_check(pid, mod, tier, seed, replay)

def setup():
    t0 = time.time()
    with Lock():
        ok, st = translate(None)
        print('translator:', 'ok' if ok else st)
        ok2, out = lake_build(['TracingModel', 'tmdriver', 'TracingModel.AuditLib'])
        print('lake build:', 'ok' if ok2 else out[-3000:])
        ok3, out = cargo_build([])
        print('cargo build:', 'ok' if ok3 else out[-3000:])
        for extra in extra_crates():
            ok4, out = cargo_build([], crate=extra)
            print('cargo build %s:' % extra, 'ok' if ok4 else out[-3000:])
            ok3 = ok3 and ok4
    print('setup %.0fs' % (time.time() - t0))
    return 0 if (ok and ok2 and ok3) else 1

def extra_crates():
    res = []
    for d in ('harness-logfeat', 'harness-static'):
        p = os.path.join(VERIF, d)
        if os.path.isdir(p):
            res.append(p)
    return res

def run_check(pid, mod, tier, seed, replay):
    t0 = time.time()
    P = mod.PROPERTY     # dict: lean_module, namespace, units, streams, assumptions, rule, ...
    rng = random.Random((seed << 8) ^ int(hashlib.sha256(pid.encode()).hexdigest()[:8], 16))
    broken = []          # reasons the proof/translator tie is broken
    res = Result()
    thms = []
    # ---- build phase (serialised)
    with Lock():
        tr_ok, tr_status = translate(P.get('units', []))
        if not tr_ok:
            for s in tr_status:
                if not s.get('ok'):
                    broken.append('translator unit %s: %s' % (s.get('unit'), s.get('reason')))
        lk_ok, lk_out = lake_build([P['lean_module'], 'tmdriver', 'TracingModel.AuditLib'])
        if not lk_ok:
            errs = lean_errors(lk_out)
            broken.append('lake build %s failed: %s' % (P['lean_module'], ' | '.join(errs[:6]) or lk_out[-1500:]))
        if lk_ok:
            thms, aout = audit(P['namespace'], P['lean_module'])
            if thms is None:
                broken.append('axiom audit failed: ' + aout[-800:]); thms = []
            if tier == 'thorough':
                # independent re-check of the compiled theorem module (and the model/lemma modules it is built on)
                mods = [P['lean_module']] + list(P.get('leanchecker_modules', []))
                for m in mods:
                    rc, out = run(['lake', 'env', 'leanchecker', m], cwd=LEAN)
                    res.leanchecker.append({'module': m, 'ok': rc == 0})
                    if rc != 0:
                        broken.append('leanchecker rejects %s: %s' % (m, out[-600:]))
        cb_ok, cb_out = True, ''
        if hasattr(mod, 'prebuild'):
            # generated sources (compiled corpora) are written before anything is compiled
            try:
                mod.prebuild('thorough' if broken else tier, seed, random.Random(seed))
            except Exception as e:
                cb_ok = False; cb_out += '\nprebuild: ' + traceback.format_exc()
        bins = sorted(set([s.bin for s in P['streams'] if not s.crate] + list(P.get('extra_bins', []))))
        if bins:
            ok_b, out_b = cargo_build(bins)
            if not ok_b: cb_ok = False; cb_out += out_b
        for crate in sorted(set(s.crate for s in P['streams'] if s.crate)):
            ok_c, out_c = cargo_build(sorted(set(s.bin for s in P['streams'] if s.crate == crate)), crate=os.path.join(VERIF, crate))
            if not ok_c:
                cb_ok = False; cb_out += out_c
    bad_ax = [(n, [a for a in axs if a not in ALLOWED_AXIOMS]) for (n, axs) in thms]
    bad_ax = [(n, a) for (n, a) in bad_ax if a]
    for n, a in bad_ax:
        broken.append('theorem %s depends on disallowed axioms %s' % (n, a))
    forb = grep_forbidden()
    for h in forb:
        broken.append('forbidden construct in Lean sources: ' + h)
    required = P.get('required_theorems', [])
    have = set(n for n, _ in thms)
    for r in required:
        if lk_ok and r not in have:
            broken.append('required theorem %s is missing from %s' % (r, P['lean_module']))
    if not cb_ok:
        # the harness does not compile against the working tree: nothing can be run.
        print(cb_out[-3000:])
        path = write_replay(pid, seed, 'harness-build', ['harness does not build against /repo working tree', cb_out[-3000:]])
        finish(pid, tier, seed, t0, P, thms, res, broken + ['harness build failed'], [], 1)
        print('VIOLATION property=%s replay=%s no-failing-input-found' % (pid, path))
        return 1
    # ---- run phase
    FAST = bool(os.environ.get('VERIF_FAST'))      # (tools/cross_matrix.sh: verdict only — no deep search, no shrinking)
    thorough_search = bool(broken) and not FAST
    streams = P['streams']
    known = load_known_findings(pid)
    known_printed = []
    for st in streams:
        cases = []
        if replay:
            for l in open(replay):
                l = l.rstrip('\n')
                if l.startswith('case ' + st.name + ' '):
                    cases.append(l[len('case ' + st.name + ' '):])
        else:
            cases += corpus_cases(pid, st.name)
            if st.gen:
                budget_tier = 'thorough' if (tier == 'thorough' or thorough_search) else 'quick'
                cases += list(st.gen(rng, budget_tier))
        if not cases:
            continue
        impl, err = exec_stream(pid, st, cases)
        if err:
            res.errors.append('%s: executor: %s' % (st.name, err))
            # the executor died on some case of the batch (a panic that escapes, an abort): find it — one process per case over
            # the first few hundred cases — so that the violation comes with the input that kills the real code
            if not st.per_process:
                env = None
                if getattr(st, 'env', None):
                    env = dict(os.environ); env.update(st.env)
                probe = cases[:400]
                outs, _ = run_per_process([bin_path(st.bin)], probe, timeout=60, env=env)
                for c, o in zip(probe, outs or []):
                    if o.startswith('CRASH') or o == 'TIMEOUT':
                        res.spec_failures.append((st.name, c, o[:600], 'the executor (real code) dies on this case: ' + o[:200]))
                        break
            continue
        # (an executor-level operation may stand for several operations of the model: `model_case` rewrites the case for the drivers)
        mcases = [st.model_case(c) for c in cases] if getattr(st, 'model_case', None) else cases
        model, err = driver(pid, st.mode, mcases)
        if err:
            res.errors.append('%s: driver: %s' % (st.name, err))
            continue
        spec = None
        if st.spec_mode:
            spec, err = driver(pid, st.spec_mode, mcases)
            if err:
                res.errors.append('%s: driver(%s): %s' % (st.name, st.spec_mode, err)); continue
        verdicts = None
        if getattr(st, 'py_judge', None):
            verdicts = [st.py_judge(c, o) for c, o in zip(cases, impl)]
        elif st.judge:
            verdicts, err = driver(pid, st.judge, [c + ' => ' + o for c, o in zip(mcases, impl)])
            if err:
                res.errors.append('%s: driver(%s): %s' % (st.name, st.judge, err)); continue
        if st.bulk and impl == model and (spec is None or (spec == impl and not getattr(st, 'spec_match', None) and not getattr(st, 'spec_match3', None))) and (verdicts is None or all(v == 'ok' for v in verdicts)):
            res.evaluations += len(cases)
            nt = set(c for c, a in zip(cases, impl) if st.nontrivial(c, a))
            res.nontrivial.update(st.name + ' ' + c for c in nt)
            for idx in list(range(0, len(cases), max(1, len(cases) // 3)))[:3]:
                res.samples.append({'stream': st.name, 'case': cases[idx][:400], 'impl': impl[idx][:400], 'model': model[idx][:400]})
            res.hist[st.name] = res.hist.get(st.name, 0) + len(cases)
            continue
        for idx, (c, a, m) in enumerate(zip(cases, impl, model)):
            res.evaluations += 1
            a2 = st.canon(a); m2 = st.canon(m)
            if st.nontrivial(c, a2):
                res.nontrivial.add(st.name + ' ' + c if len(c) < 200 else hashlib.sha1((st.name + c).encode()).hexdigest())
            if len(res.samples) < 8 and (idx % max(1, len(cases) // 3) == 0):
                res.samples.append({'stream': st.name, 'case': c[:400], 'impl': a2[:400], 'model': m2[:400]})
            if hasattr(mod, 'classify'):
                k = mod.classify(st.name, c, a2)
                res.hist[k] = res.hist.get(k, 0) + 1
            else:
                res.hist[st.name] = res.hist.get(st.name, 0) + 1
            why = None
            if spec is not None and not (st.spec_match3(c, st.canon(spec[idx]), a2) if getattr(st, 'spec_match3', None) else st.spec_match(st.canon(spec[idx]), a2) if getattr(st, 'spec_match', None) else st.canon(spec[idx]) == a2):
                why = 'spec ' + st.canon(spec[idx])
            if verdicts is not None and verdicts[idx] != 'ok':
                why = 'judge ' + verdicts[idx]
            if why:
                # a known finding?  the implementation behaves exactly as the model (which reproduces the
                # defect) and the property module attributes the case to a listed finding's region
                fid = mod.attribute(st.name, c, a2, m2, why) if hasattr(mod, 'attribute') else None
                if fid and a2 == m2 and any(k.get('id') == fid for k in known):
                    res.known[fid] = res.known.get(fid, 0) + 1
                    continue
                res.spec_failures.append((st.name, c, a2, why))
            if not (st.model_match(c, m2, a2) if getattr(st, 'model_match', None) else a2 == m2):
                res.disagreements.append((st.name, c, a2, m2))
    # ---- property-specific extra phase (e.g. compiled corpora)
    if hasattr(mod, 'extra'):
        try:
            mod.extra(tier, seed, rng, res, broken)
        except Exception:
            res.errors.append('extra phase: ' + traceback.format_exc()[-1500:])
    # ---- known findings: witness replays
    for k in known:
        if k.get('id') in res.known or k.get('always'):
            pass
    for k in known:
        n = res.known.get(k['id'], 0)
        if n > 0:
            print('KNOWN-FINDING: property=%s %s (%d case(s) this run)' % (pid, k['text'].split(' ', 3)[-1] if False else describe_finding(k), n))
            known_printed.append(k['id'])
    # ---- verdict
    rc = 0
    vio_lines = []
    if res.spec_failures:
        st, c, a, s = min(res.spec_failures, key=lambda d: len(d[1]))
        stream = [x for x in P['streams'] if x.name == st]
        if stream and ' ; ' in c and getattr(stream[0], 'py_judge', None) and s.startswith('judge '):
            try:
                c, a, s2 = shrink_history(pid, stream[0], c, against='judge')
                s = 'judge ' + s2
            except Exception:
                pass
        elif stream and ' ; ' in c and stream[0].spec_mode and s.startswith('spec '):
            try:
                c, a, s2 = shrink_history(pid, stream[0], c, against='spec')
                s = 'spec ' + s2
            except Exception:
                pass
        path = write_replay(pid, seed, 'spec', ['# implementation output violates the specification',
                                                 'case %s %s' % (st, c), 'impl %s' % a, 'spec %s' % s])
        vio_lines.append('VIOLATION property=%s replay=%s' % (pid, path)); rc = 1
    elif res.disagreements:
        st, c, a, m = shrink_first(pid, mod, P, res.disagreements)
        path = write_replay(pid, seed, 'corr', ['# implementation and proved model disagree on this case',
                                                 '# (the theorems of %s show the model output is what the property demands)' % P['lean_module'],
                                                 'case %s %s' % (st, c), 'impl %s' % a, 'model %s' % m])
        vio_lines.append('VIOLATION property=%s replay=%s' % (pid, path)); rc = 1
    elif res.errors:
        path = write_replay(pid, seed, 'error', ['# a correspondence stream could not be run'] + res.errors)
        vio_lines.append('VIOLATION property=%s replay=%s no-failing-input-found' % (pid, path)); rc = 1
    elif broken:
        path = write_replay(pid, seed, 'proof', ['# proof obligations / translator tie no longer check; correspondence search found no failing input',
                                                  ] + ['broken: ' + b for b in broken])
        vio_lines.append('VIOLATION property=%s replay=%s no-failing-input-found' % (pid, path)); rc = 1
    finish(pid, tier, seed, t0, P, thms, res, broken, known_printed, len(vio_lines))
    for l in vio_lines:
        print(l)
    if rc == 0:
        print('%s ok: %d theorems, %d cases (%d distinct non-trivial), %.1fs' % (pid, len(thms), res.evaluations, len(res.nontrivial), time.time() - t0))
    else:
        for b in broken[:10]:
            print('  broken:', b)
        for e in res.errors[:5]:
            print('  error:', e[:500])
    return rc

def describe_finding(k):
    t = k['text']
    # prose = everything after the last key=value token
    parts = t.split(' ')
    prose = [p for p in parts[1:] if '=' not in p or not re.match(r'^\w+=\S+$', p)]
    return '%s %s' % (k.get('id', '?'), ' '.join(prose))

def shrink_first(pid, mod, P, disagreements):
    st, c, a, m = min(disagreements, key=lambda d: len(d[1]))
    stream = [x for x in P['streams'] if x.name == st]
    if stream and ' ; ' in c:
        try:
            c2, a2, m2 = shrink_history(pid, stream[0], c, against='model')
            return st, c2, a2, m2
        except Exception:
            pass
    return st, c, a, m

def _fails(pid, stream, case, against):
    impl, err = exec_stream(pid, stream, [case])
    if err or not impl:
        return None
    a = stream.canon(impl[0])
    try:
        if getattr(stream, 'valid_case', None) and not stream.valid_case(case):
            return None          # shrinking must not leave the space of valid programs
    except Exception:
        return None
    if 'PANIC' in a or a.startswith('CRASH') or a == 'TIMEOUT':
        return None          # shrinking must not leave the space of valid programs
    if against == 'judge':
        v = stream.py_judge(case, impl[0])        # the judge sees the raw output, as in the main phase
        return None if v == 'ok' else (impl[0], v)
    mode = stream.mode if against == 'model' else stream.spec_mode
    if mode is None:
        return None
    ref, err = driver(pid, mode, [stream.model_case(case) if getattr(stream, 'model_case', None) else case])
    if err:
        return None
    r = stream.canon(ref[0])
    if r in ('bad-op', 'bad-case'):
        return None
    if against == 'model' and getattr(stream, 'model_match', None):
        ok = stream.model_match(case, r, a)
    else:
        ok = (stream.spec_match(r, a) if (against == 'spec' and getattr(stream, 'spec_match', None)) else r == a)
    return None if ok else (a, r)

def shrink_history(pid, stream, case, against='model', budget=150):
    """delta debugging on the op list (ops separated by ' ; '); keeps the first token if it is a header"""
    if os.environ.get('VERIF_FAST'): raise RuntimeError('no shrinking in fast mode')
    parts = case.split(' ; ')
    head = []
    if parts and '=' in parts[0] and ' ' not in parts[0]:
        head = [parts[0]]; parts = parts[1:]
    best = _fails(pid, stream, case, against)
    if best is None:
        raise RuntimeError('failure did not reproduce on re-run')
    n = 2
    while len(parts) >= 2 and budget > 0:
        chunk = max(1, len(parts) // n)
        removed = False
        i = 0
        while i < len(parts) and budget > 0:
            keep = getattr(stream, 'shrink_keep', None)
            cand = parts[:i] + [o for o in parts[i:i + chunk] if keep and keep(o)] + parts[i + chunk:]
            if len(cand) == len(parts):
                i += chunk; continue
            budget -= 1
            r = _fails(pid, stream, ' ; '.join(head + cand), against) if cand else None
            if r is not None:
                parts = cand; best = r; removed = True
            else:
                i += chunk
        if not removed:
            if chunk == 1:
                break
            n = min(len(parts), n * 2)
    return ' ; '.join(head + parts), best[0], best[1]

def finish(pid, tier, seed, t0, P, thms, res, broken, known_printed, nvio):
    os.makedirs(os.path.join(VERIF, 'evidence'), exist_ok=True)
    axioms = sorted(set(a for _, axs in thms for a in axs))
    discharged = sum(1 for n, axs in thms if all(a in ALLOWED_AXIOMS for a in axs)) if not any(b.startswith('lake build') for b in broken) else 0
    ev = {
        'property_id': pid, 'tier': tier, 'seed': seed, 'level': 'proof',
        'coverage': {
            'obligations': max(len(thms), len(P.get('required_theorems', [])), 1),
            'discharged': discharged,
            'checker_cmd': 'cd /verif/lean && lake build %s && lake env lean /verif/.build/audit_%s.lean  (axiom audit; leanchecker in thorough tier)' % (P['lean_module'], P['namespace']),
            'trusted_base': ['Lean 4.33 kernel', 'axioms used: ' + (', '.join(axioms) or 'none')] + P.get('trusted_base', []),
            'theorems': [n for n, _ in thms],
            'leanchecker': res.leanchecker,
            'evaluations': res.evaluations,
            'distinct_nontrivial': len(res.nontrivial),
            'rule': P.get('rule', ''),
            'samples': res.samples if res.samples else [{'note': 'no correspondence cases run'}],
            'traces_validated_against_impl': res.evaluations,
            'histogram': res.hist,
            'known_findings_reproduced': known_printed,
            'broken_obligations': broken,
            'stream_errors': res.errors,
            'disagreements': len(res.disagreements),
            'spec_failures': len(res.spec_failures),
        },
        'assumptions': P.get('assumptions', []),
        'wall_s': round(time.time() - t0, 2),
        'violations': nvio,
    }
    json.dump(ev, open(os.path.join(VERIF, 'evidence', pid + '.json'), 'w'), indent=1)
