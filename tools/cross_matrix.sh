#!/bin/bash
# cross_matrix.sh: apply every seeded change in turn and run ALL 20 quick checks; which checks alarm on which change
OUT=/verif/.build/cross_matrix.txt; : > $OUT
cd /verif
for d in seeded seeded2; do for id in $(ls $d); do
  P=/verif/$d/$id/patch.diff; [ -f $P ] || continue
  git -C /repo diff --quiet || { echo "/repo dirty" >> $OUT; exit 2; }
  git -C /repo apply $P || { echo "$d/$id NOAPPLY" >> $OUT; continue; }
  row="$d/$id:"
  for c in $(seq -w 1 20); do
    if VERIF_FAST=1 ./check C$c --tier quick 2>&1 | grep -q "^VIOLATION"; then row="$row C$c"; fi
  done
  echo "$row" >> $OUT
  git -C /repo checkout -- .
done; done
echo done >> $OUT
