#!/bin/bash
# confirm_seed.sh <ID> <worktree> "<demo cmd>" "<pkg list for existing tests>"
# Confirms in the scratch worktree: (1) existing tests of the affected crates pass with the patch,
# (2) the demo fails with the patch, (3) the demo passes without it.  Writes seeded/<ID>/confirm.log
ID=$1; WT=$2; DEMO=$3; PKGS=$4
OUT=/verif/seeded/$ID; mkdir -p $OUT
cp $WT/OUT/patch.diff $OUT/patch.diff
for f in $WT/OUT/*; do case "$f" in *.log|*target*) ;; *) cp -r "$f" $OUT/ 2>/dev/null;; esac; done
cd $WT
export CARGO_TARGET_DIR=$WT/target CARGO_NET_OFFLINE=true
LOG=$OUT/confirm.log; : > $LOG
git checkout -q -- . ; git apply $OUT/patch.diff || { echo "patch does not apply" >> $LOG; exit 1; }
echo "== existing tests WITH patch: $PKGS" >> $LOG
for p in $PKGS; do
  cargo test --offline -p $p --lib --tests 2>&1 | grep -E "^test result|FAILED|failed|panicked" | sort | uniq -c | head -40 >> $LOG
done
echo "== demo WITH patch (expected: fail)" >> $LOG
bash -c "$DEMO" >> $OUT/demo_with.txt 2>&1; echo "exit=$?" >> $LOG
git apply -R $OUT/patch.diff
echo "== demo WITHOUT patch (expected: pass)" >> $LOG
bash -c "$DEMO" >> $OUT/demo_without.txt 2>&1; echo "exit=$?" >> $LOG
tail -5 $OUT/demo_with.txt >> $LOG; tail -3 $OUT/demo_without.txt >> $LOG
echo done >> $LOG
