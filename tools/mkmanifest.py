#!/usr/bin/env python3
"""Regenerates /verif/MANIFEST.json from checks/Cxx.py (PROPERTY['manifest']) — run after adding a check."""
import json, os, sys, importlib, subprocess
V = os.path.dirname(os.path.dirname(os.path.abspath(__file__)))
sys.path.insert(0, V)
props = [json.loads(l) for l in open(os.path.join(V, 'properties.jsonl'))]
checks = []; na = []
PENDING = {}
pend_file = os.path.join(V, 'tools', 'not_applicable.json')
if os.path.exists(pend_file):
    PENDING = json.load(open(pend_file))
for p in props:
    pid = p['id']
    path = os.path.join(V, 'checks', pid + '.py')
    if os.path.exists(path):
        mod = importlib.import_module('checks.' + pid)
        m = mod.PROPERTY['manifest']
        checks.append({
            'property_id': pid,
            'quick_cmd': './check %s --tier quick' % pid,
            'thorough_cmd': './check %s --tier thorough' % pid,
            'evidence_file': '/verif/evidence/%s.json' % pid,
            'replay_cmd_template': './check %s --replay {path}' % pid,
            'engine': 'lean4-proof+correspondence',
            'level_claimed': {'category': 'proof', 'text': m['text'], 'design_ref': 'DESIGN.md section 5, ' + pid},
            'level_note': m['note'],
            'technique': m['technique'],
        })
    else:
        na.append({'property_id': pid, 'reason': PENDING.get(pid, 'check not built yet (work in progress; planned as a Lean proof, see DESIGN.md section 5)')})
hooks = subprocess.run(['git', '-C', '/repo', 'log', '--format=%H %s'], capture_output=True, text=True).stdout.splitlines()
hook_commits = [l.split()[0] for l in hooks if ' verif hook' in l]
man = {
    'version': 1,
    'setup_cmd': './check --setup',
    'hooks': {
        'guard': 'tokio_rs_tracing_verif',
        'enable': "RUSTFLAGS='--cfg tokio_rs_tracing_verif' (set by ./check for the harness build only; /verif/harness/.cargo/config.toml)",
        'baseline_off_cmd': 'cd /repo && cargo test --workspace --no-fail-fast --offline',
        'source_commits': hook_commits,
        'add_only': True,
    },
    'engines': [
        {'name': 'lean4-proof+correspondence', 'path': '/verif/lean',
         'serves_properties': [c['property_id'] for c in checks],
         'kind_free_text': 'Lean 4 models + theorems (lake project TracingModel), translator /verif/translator (Gen/*.lean regenerated from /repo on every run), Rust executors /verif/harness (path deps on /repo) compared with the compiled model driver tmdriver, orchestrated by /verif/check'},
    ],
    'checks': checks,
    'not_applicable': na,
    'notes': 'see DESIGN.md; known findings in known-findings.txt',
}
json.dump(man, open(os.path.join(V, 'MANIFEST.json'), 'w'), indent=1)
print('checks:', [c['property_id'] for c in checks])
