#!/bin/bash
# confirm_all.sh: every seeded change of every round against its property's check (verdict only); prints the ones NOT caught
cd /verif
git -C /repo diff --quiet || { echo "/repo has local changes"; exit 2; }
for d in seeded seeded2 seeded3 seeded4 seeded5 seeded6 seeded7 seeded8 seeded9; do for i in $(seq -w 1 20); do
  p=$d/C$i/patch.diff; [ -f $p ] || continue
  git -C /repo apply $(readlink -f $p) || { echo "$d/C$i: patch does not apply"; continue; }
  out=$(VERIF_FAST=1 timeout 1500 ./check C$i --tier quick 2>&1); 
  echo "$out" | grep -q "^VIOLATION" || echo "$d/C$i: NOT CAUGHT: $(echo "$out" | tail -1 | cut -c1-150)"
  git -C /repo checkout -- .
done; done; echo "confirm done"
