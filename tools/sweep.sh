#!/bin/bash
# sweep.sh [tier] seed...: every check on the unchanged tree with each seed; prints whatever is not ok
TIER=${1:-quick}; shift
cd /verif
git -C /repo diff --quiet || { echo "/repo has local changes"; exit 2; }
for s in "$@"; do for i in $(seq -w 1 20); do
  out=$(VERIF_SEED=$s ./check C$i --tier $TIER 2>&1); rc=$?
  if [ $rc -ne 0 ] || echo "$out" | grep -q "^VIOLATION"; then echo "seed=$s C$i rc=$rc: $(echo "$out" | grep -v '^KNOWN' | tail -2)"; fi
done; done; echo "sweep done"
