#!/usr/bin/env python3
"""Regenerates section 12.2 of DESIGN.md (per property: module, units, streams, required theorems — from checks/Cxx.py —
plus the hand-written 'relative to section 5' notes in tools/narrowings.json)."""
import sys, json, importlib, os
sys.path.insert(0, '/verif')
nar = json.load(open('/verif/tools/narrowings.json'))
out = ["### 12.2 Per property\n"]
for i in range(1, 21):
    pid = 'C%02d' % i
    m = importlib.import_module('checks.' + pid)
    P = m.PROPERTY
    seeds = []
    for d in ('seeded', 'seeded2'):
        p = '/verif/%s/%s/meta.json' % (d, pid)
        if os.path.exists(p):
            seeds.append('`%s/%s`: %s' % (d, pid, json.load(open(p))['summary'].split('. ')[0][:300].replace('\n', ' ') + '.'))
    out.append("**%s** — module `%s`; translator units %s; streams %s%s.\n" % (
        pid, P['lean_module'], P.get('units') or 'none', [s.name for s in P['streams']], ' + an `extra` phase' if hasattr(m, 'extra') else ''))
    out.append("Required theorems: %s.\n" % ', '.join('`%s`' % t for t in P['required_theorems']))
    out.append("Relative to section 5: %s\n" % nar[pid])
    out.append("Seeded changes, both caught by `./check %s` (12.3, 12.5): %s\n" % (pid, ' '.join(seeds)))
s = open('/verif/DESIGN.md').read()
a = s.index("### 12.2 Per property"); b = s.index("### 12.3 Seeded changes")
open('/verif/DESIGN.md', 'w').write(s[:a] + '\n'.join(out) + '\n' + s[b:])
