#!/bin/bash
# try_seed.sh <patch.diff> <ID> [tier]: apply a seeded change to /repo, run the property's check, undo the change
P=$(readlink -f $1); ID=$2; TIER=${3:-quick}
cd /repo && git diff --quiet || { echo "/repo has local changes"; exit 2; }
git -C /repo apply $P || { echo "patch does not apply"; exit 2; }
cd /verif && ./check $ID --tier $TIER 2>&1 | tail -4
git -C /repo checkout -- .
