// GENERATED (see git history) — the callsite pool shared by the core executors: index i = (level_idx*3 + target)*2 + kind
// level rank = i / 6 + 1; kind 0 = event, 1 = span.  Every callsite is a real macro callsite behind a function and
// carries a field named cs<i> by which recording collectors identify it.  The macro FORM varies with the index so that
// every arm of event!/span! that contains its own copy of the filtering guard is represented in the pool.
use tracing::Level;

pub const NCS: usize = 30;
const NOPARENT: Option<tracing::span::Id> = None;

/// index of the pool callsite a metadata belongs to (it has a field named cs<i>)
pub fn cs_index(meta: &tracing::Metadata<'_>) -> usize {
    meta.fields()
        .iter()
        .find_map(|f| f.name().strip_prefix("cs").and_then(|d| d.parse().ok()))
        .expect("pool callsite field cs<i>")
}

/// hits callsite `i` once (a span is created and dropped at once)
pub fn hit(i: usize) {
    match i {
        0 => { tracing::event!(name: "n0", target: "t0", parent: NOPARENT, Level::ERROR, cs0 = true); }
        1 => { let _s = tracing::span!(target: "t0", parent: NOPARENT, Level::ERROR, "s1", cs1 = true); }
        2 => { tracing::event!(name: "n2", target: "t1", Level::ERROR, cs2 = true); }
        3 => { let _s = tracing::span!(target: "t1", Level::ERROR, "s3", cs3 = true); }
        4 => { tracing::event!(target: "t2", parent: NOPARENT, Level::ERROR, cs4 = true); }
        5 => { let _s = tracing::span!(parent: NOPARENT, Level::ERROR, "s5", cs5 = true); }
        6 => { tracing::event!(name: "n6", parent: NOPARENT, Level::WARN, cs6 = true); }
        7 => { let _s = tracing::span!(Level::WARN, "s7", cs7 = true); }
        8 => { tracing::event!(name: "n8", Level::WARN, cs8 = true); }
        9 => { let _s = tracing::warn_span!(target: "t1", "s9", cs9 = true); }
        10 => { tracing::event!(target: "t2", Level::WARN, cs10 = true); }
        11 => { let _s = tracing::warn_span!(parent: NOPARENT, "s11", cs11 = true); }
        12 => { tracing::info!(target: "t0", cs12 = true, "msg"); }
        13 => { let _s = tracing::info_span!("s13", cs13 = true); }
        14 => { tracing::event!(name: "n14", target: "t1", parent: NOPARENT, Level::INFO, cs14 = true); }
        15 => { let _s = tracing::span!(target: "t1", parent: NOPARENT, Level::INFO, "s15", cs15 = true); }
        16 => { tracing::event!(name: "n16", target: "t2", Level::INFO, cs16 = true); }
        17 => { let _s = tracing::span!(target: "t2", Level::INFO, "s17", cs17 = true); }
        18 => { tracing::event!(target: "t0", parent: NOPARENT, Level::DEBUG, cs18 = true); }
        19 => { let _s = tracing::span!(parent: NOPARENT, Level::DEBUG, "s19", cs19 = true); }
        20 => { tracing::event!(name: "n20", parent: NOPARENT, Level::DEBUG, cs20 = true); }
        21 => { let _s = tracing::span!(Level::DEBUG, "s21", cs21 = true); }
        22 => { tracing::event!(name: "n22", Level::DEBUG, cs22 = true); }
        23 => { let _s = tracing::debug_span!(target: "t2", "s23", cs23 = true); }
        24 => { tracing::event!(target: "t0", Level::TRACE, cs24 = true); }
        25 => { let _s = tracing::trace_span!(parent: NOPARENT, "s25", cs25 = true); }
        26 => { tracing::trace!(target: "t1", cs26 = true, "msg"); }
        27 => { let _s = tracing::trace_span!("s27", cs27 = true); }
        28 => { tracing::event!(name: "n28", target: "t2", parent: NOPARENT, Level::TRACE, cs28 = true); }
        29 => { let _s = tracing::span!(target: "t2", parent: NOPARENT, Level::TRACE, "s29", cs29 = true); }
        _ => panic!("no such callsite"),
    }
}
