//! Shared helpers for the executors: line protocol, hex strings.
use std::io::{self, BufRead, Write};

/// Runs `f` on every non-empty stdin line and prints its result line.
pub fn serve(mut f: impl FnMut(&[&str]) -> String) {
    let stdin = io::stdin();
    let stdout = io::stdout();
    let mut out = io::BufWriter::new(stdout.lock());
    for line in stdin.lock().lines() {
        let line = line.expect("stdin");
        let toks: Vec<&str> = line.split_ascii_whitespace().collect();
        if toks.is_empty() {
            continue;
        }
        let r = f(&toks);
        writeln!(out, "{}", r).unwrap();
    }
    out.flush().unwrap();
}

pub fn hex(bytes: &[u8]) -> String {
    if bytes.is_empty() {
        return "-".to_string();
    }
    let mut s = String::with_capacity(bytes.len() * 2);
    for b in bytes {
        s.push_str(&format!("{:02x}", b));
    }
    s
}

pub fn unhex(s: &str) -> Vec<u8> {
    if s == "-" {
        return Vec::new();
    }
    let b = s.as_bytes();
    assert!(b.len() % 2 == 0, "odd hex");
    (0..b.len() / 2)
        .map(|i| u8::from_str_radix(&s[2 * i..2 * i + 2], 16).expect("hex"))
        .collect()
}

pub fn unhex_str(s: &str) -> String {
    String::from_utf8(unhex(s)).expect("utf8")
}

pub mod pool;
