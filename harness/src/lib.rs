//! Shared helpers for the executors: line protocol, hex strings.
use std::io::{self, BufRead, Write};

/// Runs `f` on every non-empty stdin line and prints its result line.
pub fn serve(mut f: impl FnMut(&[&str]) -> String) {
    let stdin = io::stdin();
    let stdout = io::stdout();
    let mut out = io::BufWriter::new(stdout.lock());
    for line in stdin.lock().lines() {
        let line = line.expect("stdin");
        let toks: Vec<&str> = line.split_ascii_whitespace().collect();
        if toks.is_empty() {
            continue;
        }
        let r = f(&toks);
        writeln!(out, "{}", r).unwrap();
    }
    out.flush().unwrap();
}

pub fn hex(bytes: &[u8]) -> String {
    if bytes.is_empty() {
        return "-".to_string();
    }
    let mut s = String::with_capacity(bytes.len() * 2);
    for b in bytes {
        s.push_str(&format!("{:02x}", b));
    }
    s
}

pub fn unhex(s: &str) -> Vec<u8> {
    if s == "-" {
        return Vec::new();
    }
    let b = s.as_bytes();
    assert!(b.len() % 2 == 0, "odd hex");
    (0..b.len() / 2)
        .map(|i| u8::from_str_radix(&s[2 * i..2 * i + 2], 16).expect("hex"))
        .collect()
}

pub fn unhex_str(s: &str) -> String {
    String::from_utf8(unhex(s)).expect("utf8")
}

pub mod pool;

pub mod synth {
    //! Synthetic (leaked, 'static) metadata so that filters and collectors can be queried for any
    //! point of a metadata universe through the `Dispatch` / `Filter` APIs, without macros.
    use std::sync::OnceLock;
    use tracing_core::{callsite::Callsite, collect::Interest, field::FieldSet, metadata::Kind, Level, Metadata};

    pub struct SynthCallsite {
        meta: OnceLock<&'static Metadata<'static>>,
    }
    impl Callsite for SynthCallsite {
        fn set_interest(&self, _: Interest) {}
        fn metadata(&self) -> &Metadata<'_> {
            self.meta.get().expect("synthetic metadata")
        }
    }

    pub fn level_of_rank(r: usize) -> Level {
        match r { 1 => Level::ERROR, 2 => Level::WARN, 3 => Level::INFO, 4 => Level::DEBUG, _ => Level::TRACE }
    }

    pub fn mk_meta(name: &str, target: &str, rank: usize, is_event: bool, fields: &[String]) -> &'static Metadata<'static> {
        let cs: &'static SynthCallsite = Box::leak(Box::new(SynthCallsite { meta: OnceLock::new() }));
        let names: Vec<&'static str> = fields.iter().map(|f| &*Box::leak(f.clone().into_boxed_str())).collect();
        let names: &'static [&'static str] = Box::leak(names.into_boxed_slice());
        let fs = FieldSet::new(names, tracing_core::callsite::Identifier(cs));
        let name: &'static str = Box::leak(name.to_string().into_boxed_str());
        let target: &'static str = Box::leak(target.to_string().into_boxed_str());
        let meta: &'static Metadata<'static> = Box::leak(Box::new(Metadata::new(
            name, target, level_of_rank(rank), None, None, None, fs,
            if is_event { Kind::EVENT } else { Kind::SPAN },
        )));
        let _ = cs.meta.set(meta);
        meta
    }
}

pub mod fexpr {
    //! Filter expressions in prefix notation, built with the real `FilterExt` combinators:
    //! L<l> | T<hex> | E<hex> | F<pred><k>h<hint|-> | D<k>h<hint|->c<-|g> | N | S e | & e e | "|" e e | ! e | R e | B e
    use std::cell::Cell;
    use tracing_core::{collect::Interest, LevelFilter, Metadata};
    use tracing_subscriber::filter::{dynamic_filter_fn, filter_fn, EnvFilter, FilterExt, Targets};
    use tracing_subscriber::subscribe::Filter;
    use tracing_subscriber::Registry;

    thread_local! { pub static FLAG: Cell<bool> = const { Cell::new(false) }; }

    pub type BoxF = Box<dyn Filter<Registry> + Send + Sync>;
    pub type BoxS = Box<dyn tracing_subscriber::Subscribe<Registry> + Send + Sync>;

    pub fn lf(r: usize) -> LevelFilter {
        match r { 0 => LevelFilter::OFF, 1 => LevelFilter::ERROR, 2 => LevelFilter::WARN, 3 => LevelFilter::INFO, 4 => LevelFilter::DEBUG, _ => LevelFilter::TRACE }
    }

    pub fn rank_of(m: &Metadata<'_>) -> usize {
        let l = *m.level();
        if l == tracing_core::Level::ERROR { 1 } else if l == tracing_core::Level::WARN { 2 } else if l == tracing_core::Level::INFO { 3 } else if l == tracing_core::Level::DEBUG { 4 } else { 5 }
    }

    fn pred(pred: u8, k: usize, m: &Metadata<'_>) -> bool {
        match pred {
            0 => rank_of(m) <= k,
            1 => m.target().contains("db") && rank_of(m) <= k,
            _ => m.is_span() && rank_of(m) <= k,
        }
    }

    pub fn build(toks: &[&str], pos: &mut usize) -> BoxF {
        let t = toks[*pos];
        *pos += 1;
        let b = t.as_bytes();
        match b[0] {
            b'L' => Box::new(lf(t[1..].parse().unwrap())),
            b'T' => Box::new(crate::unhex_str(&t[1..]).parse::<Targets>().expect("targets")),
            b'E' => Box::new(EnvFilter::builder().parse(crate::unhex_str(&t[1..])).expect("env")),
            b'F' => {
                let p = b[1] - b'0';
                let k: usize = (b[2] - b'0') as usize;
                let hint = &t[4..];
                let f = filter_fn(move |m| pred(p, k, m));
                if hint == "-" { Box::new(f) } else { Box::new(f.with_max_level_hint(lf(hint.parse().unwrap()))) }
            }
            b'D' => {
                let k: usize = (b[1] - b'0') as usize;
                let rest = &t[3..];
                let (hint, cs) = rest.split_once('c').unwrap();
                let f = dynamic_filter_fn(move |m: &Metadata<'_>, _cx: &tracing_subscriber::subscribe::Context<'_, Registry>| FLAG.with(|f| f.get()) && rank_of(m) <= k);
                match (hint, cs) {
                    ("-", "-") => Box::new(f),
                    (h, "-") => Box::new(f.with_max_level_hint(lf(h.parse().unwrap()))),
                    ("-", _) => Box::new(f.with_callsite_filter(move |m: &'static Metadata<'static>| if rank_of(m) <= k { Interest::sometimes() } else { Interest::never() })),
                    (h, _) => Box::new(f.with_max_level_hint(lf(h.parse().unwrap())).with_callsite_filter(move |m: &'static Metadata<'static>| if rank_of(m) <= k { Interest::sometimes() } else { Interest::never() })),
                }
            }
            b'N' => Box::new(None::<BoxF>),
            b'S' => Box::new(Some(build(toks, pos))),
            b'&' => { let a = build(toks, pos); let c = build(toks, pos); Box::new(a.and(c)) }
            b'|' => { let a = build(toks, pos); let c = build(toks, pos); Box::new(a.or(c)) }
            b'!' => Box::new(build(toks, pos).not()),
            b'R' => { let (f, _h) = tracing_subscriber::reload::Subscriber::new(build(toks, pos)); Box::new(f) }
            b'B' => Box::new(build(toks, pos)),
            _ => panic!("bad expr token {}", t),
        }
    }

    /// a LEAF expression used as a global filter LAYER (these types implement `Subscribe` too)
    pub fn build_global(t: &str) -> BoxS {
        let b = t.as_bytes();
        match b[0] {
            // an absent layer (`Option::None`): no opinion on anything
            b'N' => Box::new(None::<BoxS>),
            b'L' => Box::new(lf(t[1..].parse().unwrap())),
            b'T' => Box::new(crate::unhex_str(&t[1..]).parse::<Targets>().expect("targets")),
            b'E' => Box::new(EnvFilter::builder().parse(crate::unhex_str(&t[1..])).expect("env")),
            b'F' => {
                let p = b[1] - b'0';
                let k: usize = (b[2] - b'0') as usize;
                let hint = &t[4..];
                let f = filter_fn(move |m| pred(p, k, m));
                if hint == "-" { Box::new(f) } else { Box::new(f.with_max_level_hint(lf(hint.parse().unwrap()))) }
            }
            b'D' => {
                let k: usize = (b[1] - b'0') as usize;
                let rest = &t[3..];
                let (hint, _cs) = rest.split_once('c').unwrap();
                let f = dynamic_filter_fn(move |m: &Metadata<'_>, _cx: &tracing_subscriber::subscribe::Context<'_, Registry>| FLAG.with(|f| f.get()) && rank_of(m) <= k);
                if hint == "-" { Box::new(f) } else { Box::new(f.with_max_level_hint(lf(hint.parse().unwrap()))) }
            }
            b'K' => {
                // a gate: dynamic (and `sometimes`) for one target, `always` for everything else
                let ti: usize = (b[1] - b'0') as usize;
                let f = dynamic_filter_fn(move |m: &Metadata<'_>, _cx: &tracing_subscriber::subscribe::Context<'_, Registry>| m.target() != TARGETS[ti] || FLAG.with(|f| f.get()))
                    .with_callsite_filter(move |m: &'static Metadata<'static>| if m.target() == TARGETS[ti] { Interest::sometimes() } else { Interest::always() });
                Box::new(f)
            }
            _ => panic!("not a global-layer leaf {}", t),
        }
    }

    pub const TARGETS: [&str; 7] = ["app", "application", "app::db", "app::db::pool", "other", "", "ap"];
    pub const FIELDSETS: [&[&str]; 4] = [&[], &["bar"], &["bar", "baz"], &["msg"]];

    pub fn universe() -> Vec<&'static Metadata<'static>> {
        let mut v = Vec::new();
        for t in TARGETS.iter() {
            for r in 1..=5 {
                for ev in [false, true] {
                    for fs in FIELDSETS.iter() {
                        let f: Vec<String> = fs.iter().map(|s| s.to_string()).collect();
                        v.push(crate::synth::mk_meta("m", t, r, ev, &f));
                    }
                }
            }
        }
        v
    }
}
