//! Shared helpers for the executors: line protocol, hex strings.
use std::io::{self, BufRead, Write};

/// Runs `f` on every non-empty stdin line and prints its result line.
pub fn serve(mut f: impl FnMut(&[&str]) -> String) {
    let stdin = io::stdin();
    let stdout = io::stdout();
    let mut out = io::BufWriter::new(stdout.lock());
    for line in stdin.lock().lines() {
        let line = line.expect("stdin");
        let toks: Vec<&str> = line.split_ascii_whitespace().collect();
        if toks.is_empty() {
            continue;
        }
        let r = f(&toks);
        writeln!(out, "{}", r).unwrap();
    }
    out.flush().unwrap();
}

pub fn hex(bytes: &[u8]) -> String {
    if bytes.is_empty() {
        return "-".to_string();
    }
    let mut s = String::with_capacity(bytes.len() * 2);
    for b in bytes {
        s.push_str(&format!("{:02x}", b));
    }
    s
}

pub fn unhex(s: &str) -> Vec<u8> {
    if s == "-" {
        return Vec::new();
    }
    let b = s.as_bytes();
    assert!(b.len() % 2 == 0, "odd hex");
    (0..b.len() / 2)
        .map(|i| u8::from_str_radix(&s[2 * i..2 * i + 2], 16).expect("hex"))
        .collect()
}

pub fn unhex_str(s: &str) -> String {
    String::from_utf8(unhex(s)).expect("utf8")
}

pub mod pool;

pub mod synth {
    //! Synthetic (leaked, 'static) metadata so that filters and collectors can be queried for any
    //! point of a metadata universe through the `Dispatch` / `Filter` APIs, without macros.
    use std::sync::OnceLock;
    use tracing_core::{callsite::Callsite, collect::Interest, field::FieldSet, metadata::Kind, Level, Metadata};

    pub struct SynthCallsite {
        meta: OnceLock<&'static Metadata<'static>>,
    }
    impl Callsite for SynthCallsite {
        fn set_interest(&self, _: Interest) {}
        fn metadata(&self) -> &Metadata<'_> {
            self.meta.get().expect("synthetic metadata")
        }
    }

    pub fn level_of_rank(r: usize) -> Level {
        match r { 1 => Level::ERROR, 2 => Level::WARN, 3 => Level::INFO, 4 => Level::DEBUG, _ => Level::TRACE }
    }

    pub fn mk_meta(name: &str, target: &str, rank: usize, is_event: bool, fields: &[String]) -> &'static Metadata<'static> {
        let cs: &'static SynthCallsite = Box::leak(Box::new(SynthCallsite { meta: OnceLock::new() }));
        let names: Vec<&'static str> = fields.iter().map(|f| &*Box::leak(f.clone().into_boxed_str())).collect();
        let names: &'static [&'static str] = Box::leak(names.into_boxed_slice());
        let fs = FieldSet::new(names, tracing_core::callsite::Identifier(cs));
        let name: &'static str = Box::leak(name.to_string().into_boxed_str());
        let target: &'static str = Box::leak(target.to_string().into_boxed_str());
        let meta: &'static Metadata<'static> = Box::leak(Box::new(Metadata::new(
            name, target, level_of_rank(rank), None, None, None, fs,
            if is_event { Kind::EVENT } else { Kind::SPAN },
        )));
        let _ = cs.meta.set(meta);
        meta
    }
}
