//! C01 / C02 executor.  ONE history per process (caches, the global default and MAX_LEVEL are
//! process-global).  Reads a single line `static=<n> ; op ; op ; …`, drives the real
//! tracing-core / tracing code with real threads commanded one op at a time, prints the
//! observable outputs (who received each emission, set_global_default results, max level).
use std::collections::HashMap;
use std::sync::atomic::{AtomicBool, Ordering};
use std::sync::mpsc::{channel, Receiver, Sender};
use std::sync::{Arc, Mutex};
use tracing_core::{collect::Interest, span, Collect, Dispatch, Event, LevelFilter, Metadata};
use tv_harness::pool;

static LOG: Mutex<Vec<usize>> = Mutex::new(Vec::new());

struct Rec {
    id: usize,
    stat: Vec<u8>,
    dynv: Arc<Vec<AtomicBool>>,
    hint: Option<LevelFilter>,
}

fn cs_index(meta: &Metadata<'_>) -> usize {
    pool::cs_index(meta)
}

impl Rec {
    fn accepts(&self, i: usize) -> bool {
        match self.stat[i] {
            b'a' => true,
            b's' => self.dynv[i].load(Ordering::SeqCst),
            _ => false,
        }
    }
}

impl Collect for Rec {
    fn register_callsite(&self, meta: &'static Metadata<'static>) -> Interest {
        match self.stat[cs_index(meta)] {
            b'a' => Interest::always(),
            b's' => Interest::sometimes(),
            _ => Interest::never(),
        }
    }
    fn enabled(&self, meta: &Metadata<'_>) -> bool {
        self.accepts(cs_index(meta))
    }
    fn max_level_hint(&self) -> Option<LevelFilter> {
        self.hint
    }
    fn new_span(&self, _: &span::Attributes<'_>) -> span::Id {
        LOG.lock().unwrap().push(self.id);
        span::Id::from_u64(1)
    }
    fn record(&self, _: &span::Id, _: &span::Record<'_>) {}
    fn record_follows_from(&self, _: &span::Id, _: &span::Id) {}
    fn event(&self, _: &Event<'_>) {
        LOG.lock().unwrap().push(self.id);
    }
    fn enter(&self, _: &span::Id) {}
    fn exit(&self, _: &span::Id) {}
    fn current_span(&self) -> span::Current {
        span::Current::unknown()
    }
}

enum Cmd {
    SetDefault(Dispatch),
    Pop,
    PanicPop(usize),
    SetGlobal(Dispatch),
    SetGlobalNone,
    Hit(usize),
    /// an emission made inside a future carrying its own collector (`WithCollector::with_collector`), polled once here: the
    /// scope lasts for the poll
    FutureHit(Dispatch, usize),
    Quit,
}

fn worker(rx: Receiver<Cmd>, tx: Sender<String>) {
    let mut guards: Vec<tracing_core::dispatch::DefaultGuard> = Vec::new();
    for cmd in rx {
        let r = match cmd {
            Cmd::SetDefault(d) => {
                guards.push(tracing_core::dispatch::set_default(&d));
                String::new()
            }
            Cmd::Pop => {
                drop(guards.pop());
                String::new()
            }
            Cmd::PanicPop(k) => {
                // the k newest guards are dropped by unwinding, innermost first
                let n = guards.len().saturating_sub(k);
                let mut taken: Vec<_> = guards.drain(n..).collect();
                let _ = std::panic::catch_unwind(std::panic::AssertUnwindSafe(move || {
                    struct InOrder(Vec<tracing_core::dispatch::DefaultGuard>);
                    impl Drop for InOrder {
                        fn drop(&mut self) {
                            while let Some(g) = self.0.pop() {
                                drop(g);
                            }
                        }
                    }
                    let _g = InOrder(std::mem::take(&mut taken));
                    std::panic::resume_unwind(Box::new("scripted"));
                }));
                String::new()
            }
            Cmd::SetGlobal(d) => match tracing_core::dispatch::set_global_default(d) {
                Ok(()) => "ok".to_string(),
                Err(_) => "err".to_string(),
            },
            // the collector that discards everything, installed through `tracing::collect::set_global_default` (the wrapper that
            // takes a collector, not a Dispatch)
            Cmd::SetGlobalNone => match tracing::collect::set_global_default(tracing::collect::NoCollector::default()) {
                Ok(()) => "ok".to_string(),
                Err(_) => "err".to_string(),
            },
            Cmd::Hit(i) => {
                LOG.lock().unwrap().clear();
                pool::hit(i);
                let l = LOG.lock().unwrap();
                match l.len() {
                    0 => "-".to_string(),
                    1 => format!("c{}", l[0]),
                    _ => format!("MULTI{:?}", *l),
                }
            }
            Cmd::FutureHit(d, i) => {
                use tracing::instrument::WithCollector;
                LOG.lock().unwrap().clear();
                let fut = async move { pool::hit(i) }.with_collector(d);
                let mut fut = std::pin::pin!(fut);
                let mut cx = std::task::Context::from_waker(std::task::Waker::noop());
                let _ = std::future::Future::poll(fut.as_mut(), &mut cx);
                let l = LOG.lock().unwrap();
                match l.len() {
                    0 => "-".to_string(),
                    1 => format!("c{}", l[0]),
                    _ => format!("MULTI{:?}", *l),
                }
            }
            Cmd::Quit => break,
        };
        tx.send(r).unwrap();
    }
    // guards still held are dropped here, innermost first
    while let Some(g) = guards.pop() {
        drop(g);
    }
}

fn rank(f: LevelFilter) -> usize {
    match f.into_level() {
        None => 0,
        Some(l) => {
            if l == tracing_core::Level::ERROR { 1 } else if l == tracing_core::Level::WARN { 2 }
            else if l == tracing_core::Level::INFO { 3 } else if l == tracing_core::Level::DEBUG { 4 } else { 5 }
        }
    }
}

fn filter_of_rank(s: &str) -> Option<LevelFilter> {
    match s {
        "0" => Some(LevelFilter::OFF), "1" => Some(LevelFilter::ERROR), "2" => Some(LevelFilter::WARN),
        "3" => Some(LevelFilter::INFO), "4" => Some(LevelFilter::DEBUG), "5" => Some(LevelFilter::TRACE),
        _ => None,
    }
}

fn main() {
    if std::env::var("TV_QUIET_PANIC").is_ok() { std::panic::set_hook(Box::new(|_| {})); }
    let mut line = String::new();
    std::io::stdin().read_line(&mut line).unwrap();
    let toks: Vec<&str> = line.split_ascii_whitespace().collect();
    let mut ops: Vec<Vec<&str>> = Vec::new();
    let mut cur: Vec<&str> = Vec::new();
    for t in toks.iter().skip(1) {
        if *t == ";" {
            if !cur.is_empty() { ops.push(std::mem::take(&mut cur)); }
        } else {
            cur.push(t);
        }
    }
    if !cur.is_empty() { ops.push(cur); }

    let mut threads: Vec<(Sender<Cmd>, Receiver<String>, std::thread::JoinHandle<()>)> = Vec::new();
    let spawn = |threads: &mut Vec<(Sender<Cmd>, Receiver<String>, std::thread::JoinHandle<()>)>| {
        let (ctx, crx) = channel();
        let (rtx, rrx) = channel();
        let h = std::thread::spawn(move || worker(crx, rtx));
        threads.push((ctx, rrx, h));
    };
    spawn(&mut threads);
    let mut handles: HashMap<usize, Dispatch> = HashMap::new();
    let mut dyns: HashMap<usize, Arc<Vec<AtomicBool>>> = HashMap::new();
    let mut created: std::collections::HashSet<usize> = Default::default();
    let mut out: Vec<String> = Vec::new();
    let call = |threads: &Vec<(Sender<Cmd>, Receiver<String>, std::thread::JoinHandle<()>)>, t: usize, c: Cmd| -> String {
        threads[t].0.send(c).unwrap();
        threads[t].1.recv().unwrap()
    };
    for op in ops {
        match op[0] {
            "ts" => spawn(&mut threads),
            "nc" | "ncs" => {
                let c: usize = op[1].parse().unwrap();
                if c == 0 || created.contains(&c) { continue; }
                created.insert(c);
                let stat: Vec<u8> = (0..pool::NCS).map(|i| *op[2].as_bytes().get(i).unwrap_or(&b'n')).collect();
                let dynv: Arc<Vec<AtomicBool>> = Arc::new((0..pool::NCS).map(|i| AtomicBool::new(op[3].as_bytes().get(i) == Some(&b'1'))).collect());
                dyns.insert(c, dynv.clone());
                // the collector as it is, type-erased in a Box, in an Arc (a function of its number and the history: what it is
                // asked and handed must not depend on that), or — `ncs` — a `&'static` one (`Dispatch::from_static`)
                let rec = Rec { id: c, stat, dynv, hint: filter_of_rank(op[4]) };
                let d = if op[0] == "ncs" {
                    Dispatch::from_static(Box::leak(Box::new(rec)))
                } else {
                    match (c + toks.len()) % 3 {
                        1 => Dispatch::new(Box::new(rec) as Box<dyn tracing_core::Collect + Send + Sync>),
                        2 => Dispatch::new(Arc::new(rec)),
                        _ => Dispatch::new(rec),
                    }
                };
                handles.insert(c, d);
            }
            "dh" => { let c: usize = op[1].parse().unwrap(); handles.remove(&c); }
            "sd" => {
                let t: usize = op[1].parse().unwrap(); let c: usize = op[2].parse().unwrap();
                if t < threads.len() { if let Some(d) = handles.get(&c) { call(&threads, t, Cmd::SetDefault(d.clone())); } }
            }
            "pd" => { let t: usize = op[1].parse().unwrap(); if t < threads.len() { call(&threads, t, Cmd::Pop); } }
            "pp" => { let t: usize = op[1].parse().unwrap(); let k: usize = op[2].parse().unwrap(); if t < threads.len() { call(&threads, t, Cmd::PanicPop(k)); } }
            "sg" => {
                let t: usize = op[1].parse().unwrap(); let c: usize = op[2].parse().unwrap();
                if let Some(d) = handles.get(&c) { let tt = if t < threads.len() { t } else { 0 }; out.push(call(&threads, tt, Cmd::SetGlobal(d.clone()))); }
            }
            "sgn" => {
                let t: usize = op[1].parse().unwrap();
                let tt = if t < threads.len() { t } else { 0 };
                out.push(call(&threads, tt, Cmd::SetGlobalNone));
            }
            "em" | "sp" => {
                let t: usize = op[1].parse().unwrap(); let i: usize = op[2].parse().unwrap();
                if t < threads.len() { out.push(call(&threads, t, Cmd::Hit(i))); }
            }
            "wc" => {
                // `wc t c i`: the same as `sd t c ; em t i ; pd t`, written as a future with its own collector
                let t: usize = op[1].parse().unwrap(); let c: usize = op[2].parse().unwrap(); let i: usize = op[3].parse().unwrap();
                if t < threads.len() { if let Some(d) = handles.get(&c) { out.push(call(&threads, t, Cmd::FutureHit(d.clone(), i))); } }
            }
            "rb" => tracing_core::callsite::rebuild_interest_cache(),
            "fl" => {
                let c: usize = op[1].parse().unwrap(); let i: usize = op[2].parse().unwrap();
                if let Some(d) = dyns.get(&c) { d[i].fetch_xor(true, Ordering::SeqCst); }
            }
            "cur" => out.push(rank(LevelFilter::current()).to_string()),
            _ => { out.push("bad-op".into()); }
        }
    }
    println!("{}", out.join(" "));
    for (tx, _, h) in threads { let _ = tx.send(Cmd::Quit); let _ = h.join(); }
}
