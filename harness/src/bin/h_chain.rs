//! C07 executor for statically nested stacks `registry().with(a).with(b).with(c)` (1-3 layers),
//! where every `.with` adds a Collect-level `Layered` (the and_then trees of h_layers have only one).
//! Same protocol as h_layers; stack tokens: `P<n>` | `GL<k>` | `GD<k>` | `F<n> L<k> .` | `F<n> D<k> .`
use std::cell::{Cell, RefCell};
use std::collections::HashMap;
use tracing::{Dispatch, Event};
use tracing_core::{collect::Interest, span, LevelFilter, Metadata};
use tracing_subscriber::registry::LookupSpan;
use tracing_subscriber::subscribe::{CollectExt, Context, Filter, Subscribe};
use tv_harness::fexpr::{lf, rank_of, universe};

thread_local! {
    static RECV: RefCell<Vec<usize>> = const { RefCell::new(Vec::new()) };
    static FLAG: Cell<bool> = const { Cell::new(false) };
}

#[derive(Clone, Copy)]
enum Kind { Plain, Level(usize), Dyn(usize), LevelOrDyn(usize, usize), Gate(usize) }

/// a plain recording layer or a global filter layer, decided at run time
struct AnyNode { n: usize, kind: Kind }
impl<C: tracing::Collect + for<'a> LookupSpan<'a>> Subscribe<C> for AnyNode {
    fn register_callsite(&self, m: &'static Metadata<'static>) -> Interest {
        match self.kind {
            Kind::Plain => Interest::always(),
            Kind::Level(k) => if rank_of(m) <= k { Interest::always() } else { Interest::never() },
            Kind::Dyn(k) => if rank_of(m) <= k { Interest::sometimes() } else { Interest::never() },
            Kind::LevelOrDyn(..) => unreachable!(),
            Kind::Gate(ti) => if m.target() == tv_harness::fexpr::TARGETS[ti] { Interest::sometimes() } else { Interest::always() },
        }
    }
    fn enabled(&self, m: &Metadata<'_>, _: Context<'_, C>) -> bool {
        match self.kind {
            Kind::Plain => true,
            Kind::Level(k) => rank_of(m) <= k,
            Kind::Dyn(k) => FLAG.with(|f| f.get()) && rank_of(m) <= k,
            Kind::LevelOrDyn(..) => unreachable!(),
            Kind::Gate(ti) => m.target() != tv_harness::fexpr::TARGETS[ti] || FLAG.with(|f| f.get()),
        }
    }
    fn max_level_hint(&self) -> Option<LevelFilter> {
        match self.kind { Kind::Plain => None, Kind::Level(k) | Kind::Dyn(k) => Some(lf(k)), Kind::LevelOrDyn(..) | Kind::Gate(_) => None }
    }
    fn on_event(&self, _: &Event<'_>, _: Context<'_, C>) { if let Kind::Plain = self.kind { RECV.with(|r| r.borrow_mut().push(self.n)); } }
    fn on_new_span(&self, _: &span::Attributes<'_>, _: &span::Id, _: Context<'_, C>) { if let Kind::Plain = self.kind { RECV.with(|r| r.borrow_mut().push(self.n)); } }
    fn on_enter(&self, _: &span::Id, _: Context<'_, C>) { if let Kind::Plain = self.kind { RECV.with(|r| r.borrow_mut().push(self.n)); } }
    fn on_exit(&self, _: &span::Id, _: Context<'_, C>) { if let Kind::Plain = self.kind { RECV.with(|r| r.borrow_mut().push(self.n)); } }
    fn on_record(&self, _: &span::Id, _: &span::Record<'_>, _: Context<'_, C>) { if let Kind::Plain = self.kind { RECV.with(|r| r.borrow_mut().push(self.n)); } }
    fn on_close(&self, _: span::Id, _: Context<'_, C>) { if let Kind::Plain = self.kind { RECV.with(|r| r.borrow_mut().push(self.n)); } }
}

/// a per-layer filter decided at run time (static level threshold or context-dependent)
struct AnyFilter { kind: Kind }
impl<C> Filter<C> for AnyFilter {
    fn enabled(&self, m: &Metadata<'_>, _: &Context<'_, C>) -> bool {
        match self.kind {
            Kind::Plain => true, Kind::Level(k) => rank_of(m) <= k, Kind::Dyn(k) => FLAG.with(|f| f.get()) && rank_of(m) <= k,
            Kind::LevelOrDyn(a, b) => rank_of(m) <= a || (FLAG.with(|f| f.get()) && rank_of(m) <= b),
            Kind::Gate(_) => unreachable!(),
        }
    }
    fn callsite_enabled(&self, m: &'static Metadata<'static>) -> Interest {
        match self.kind {
            Kind::Plain => Interest::always(),
            Kind::Level(k) => if rank_of(m) <= k { Interest::always() } else { Interest::never() },
            Kind::Dyn(_) => Interest::sometimes(),
            Kind::LevelOrDyn(a, _) => if rank_of(m) <= a { Interest::always() } else { Interest::sometimes() },
            Kind::Gate(_) => unreachable!(),
        }
    }
    fn max_level_hint(&self) -> Option<LevelFilter> {
        match self.kind { Kind::Level(k) => Some(lf(k)), _ => None }
    }
}

enum Spec { Node(AnyNode), Filt(usize, AnyFilter) }

fn leaf_kind(t: &str) -> Kind {
    let k: usize = t[1..2].parse().unwrap();
    if t.starts_with('L') { Kind::Level(k) } else if t.starts_with('K') { Kind::Gate(k) } else { Kind::Dyn(k) }
}

fn parse(toks: &[&str]) -> Vec<Spec> {
    let mut v = Vec::new();
    let mut i = 0;
    while i < toks.len() {
        let t = toks[i];
        match t.as_bytes()[0] {
            b'P' => { v.push(Spec::Node(AnyNode { n: t[1..].parse().unwrap(), kind: Kind::Plain })); i += 1; }
            b'G' => { v.push(Spec::Node(AnyNode { n: 0, kind: leaf_kind(&t[1..]) })); i += 1; }
            b'F' => {
                let n: usize = t[1..].parse().unwrap();
                if toks[i + 1] == "|" {
                    let (Kind::Level(a), Kind::Dyn(b)) = (leaf_kind(toks[i + 2]), leaf_kind(toks[i + 3])) else { panic!("| L D expected") };
                    v.push(Spec::Filt(n, AnyFilter { kind: Kind::LevelOrDyn(a, b) })); i += 5;
                } else {
                    v.push(Spec::Filt(n, AnyFilter { kind: leaf_kind(toks[i + 1]) })); i += 3;
                }
            }
            _ => panic!("bad token {}", t),
        }
    }
    v
}

macro_rules! lay {
    ($inner:expr, $s:expr) => {
        match $s {
            Spec::Node(n) => Box::new($inner.with(n)) as Box<dyn tracing::Collect + Send + Sync>,
            Spec::Filt(n, f) => Box::new($inner.with(AnyNode { n, kind: Kind::Plain }.with_filter(f))) as Box<dyn tracing::Collect + Send + Sync>,
        }
    };
}

fn build(mut specs: Vec<Spec>) -> Dispatch {
    let r = tracing_subscriber::registry();
    assert!(!specs.is_empty() && specs.len() <= 3);
    let c = specs.pop();
    let b = if specs.len() >= 2 { specs.pop() } else { None };
    let (a, b, c) = match (specs.pop(), b, c) {
        (Some(a), Some(b), Some(c)) => (a, Some(b), Some(c)),
        (Some(a), None, Some(c)) => (a, Some(c), None),
        (None, None, Some(c)) => (c, None, None),
        _ => unreachable!(),
    };
    // 2 x 2 x 2 statically typed shapes
    let boxed: Box<dyn tracing::Collect + Send + Sync> = match (a, b, c) {
        (a, None, None) => lay!(r, a),
        (Spec::Node(a), Some(b), None) => lay!(r.with(a), b),
        (Spec::Filt(n, f), Some(b), None) => lay!(r.with(AnyNode { n, kind: Kind::Plain }.with_filter(f)), b),
        (Spec::Node(a), Some(Spec::Node(b)), Some(c)) => lay!(r.with(a).with(b), c),
        (Spec::Node(a), Some(Spec::Filt(n, f)), Some(c)) => lay!(r.with(a).with(AnyNode { n, kind: Kind::Plain }.with_filter(f)), c),
        (Spec::Filt(n, f), Some(Spec::Node(b)), Some(c)) => lay!(r.with(AnyNode { n, kind: Kind::Plain }.with_filter(f)).with(b), c),
        (Spec::Filt(n, f), Some(Spec::Filt(n2, f2)), Some(c)) => lay!(r.with(AnyNode { n, kind: Kind::Plain }.with_filter(f)).with(AnyNode { n: n2, kind: Kind::Plain }.with_filter(f2)), c),
        _ => unreachable!(),
    };
    Dispatch::new(boxed)
}

fn take_recv() -> String {
    RECV.with(|r| { let v: Vec<String> = r.borrow().iter().map(|n| n.to_string()).collect(); r.borrow_mut().clear(); v.join(".") })
}

fn run_ops(d: &Dispatch, ops: &[&str], uni: &[&'static Metadata<'static>]) -> String {
    let mut interest: HashMap<usize, Interest> = HashMap::new();
    let hint_gate = if std::env::var("TV_HINT_GATE").is_ok() { let _ = d; Some(tracing_core::LevelFilter::current()) } else { None };
    let mut spans: HashMap<usize, span::Id> = HashMap::new();
    let mut outs: Vec<String> = Vec::new();
    RECV.with(|r| r.borrow_mut().clear());
    for op in ops.split(|t| *t == ";") {
        if op.is_empty() { continue; }
        match op[0] {
            "ev" | "sp" | "pr" => {
                let kind = op[0];
                let (name, op): (usize, &[&str]) = if kind == "sp" { (op[1].parse().unwrap(), &op[1..]) } else { (0, op) };
                let mi: usize = op[1].parse().unwrap();
                let m = uni[mi];
                FLAG.with(|f| f.set(op[2] == "1"));
                // the macros' first gate: the level against the stack's max-level hint (as published when the
                // dispatcher was built); only with TV_HINT_GATE, so that streams which log the callbacks are unaffected
                let enabled = if hint_gate.map(|h| *m.level() > h).unwrap_or(false) { false } else {
                    let i = interest.entry(mi).or_insert_with(|| d.register_callsite(m)).clone();
                    !i.is_never() && (i.is_always() || d.enabled(m))
                };
                match kind {
                    "pr" => outs.push(format!("p:{}", if enabled { 1 } else { 0 })),
                    "ev" => { if enabled { let vs = m.fields().value_set(&[]); d.event(&Event::new(m, &vs)); } outs.push(format!("e:{}", take_recv())); }
                    _ => {
                        if enabled {
                            let vs = m.fields().value_set(&[]);
                            let id = d.new_span(&span::Attributes::new_root(m, &vs));
                            spans.insert(name, id);
                            outs.push(format!("s:{}", take_recv()));
                        } else { outs.push("s:".into()); }
                    }
                }
                FLAG.with(|f| f.set(false));
            }
            "en" | "ex" | "rc" | "cl" => {
                let k: usize = op[1].parse().unwrap();
                if let Some(id) = spans.get(&k) {
                    match op[0] {
                        "en" => d.enter(id),
                        "ex" => d.exit(id),
                        "rc" => { let m = d.downcast_ref::<tracing_subscriber::Registry>().and_then(|r| r.span(id).map(|s| s.metadata())); if let Some(m) = m { let vs = m.fields().value_set(&[]); d.record(id, &span::Record::new(&vs)); } }
                        _ => { d.try_close(id.clone()); }
                    }
                    outs.push(format!("l:{}", take_recv()));
                } else { outs.push("l:".into()); }
            }
            _ => outs.push("bad-op".into()),
        }
    }
    outs.join(" ")
}

fn run_case(line: &[&str], uni: &[&'static Metadata<'static>]) -> String {
    let sep = line.iter().position(|t| *t == ";;").expect(";;");
    let d = build(parse(&line[..sep]));
    let dd = d.clone();
    tracing::dispatch::with_default(&dd, || run_ops(&d, &line[sep + 1..], uni))
}

fn main() {
    if std::env::var("TV_QUIET_PANIC").is_ok() { std::panic::set_hook(Box::new(|_| {})); }
    let uni: &'static Vec<&'static Metadata<'static>> = Box::leak(Box::new(universe()));
    tv_harness::serve(|toks| {
        let owned: Vec<String> = toks.iter().map(|s| s.to_string()).collect();
        let h = std::thread::spawn(move || { let t: Vec<&str> = owned.iter().map(|s| s.as_str()).collect(); run_case(&t, uni) });
        match h.join() { Ok(s) => s, Err(_) => "PANIC".into() }
    });
}
