//! C19 executor: operators / conversions / parsing / display of the real `Level` and
//! `LevelFilter`, and the published max level read-back through a real `Dispatch`.
use std::cmp::Ordering;
use tracing_core::{collect::Interest, span, Collect, Dispatch, Event, Level, LevelFilter, Metadata};
use tracing_log::{AsLog, AsTrace};

fn lvl(s: &str) -> Level {
    match s {
        "error" => Level::ERROR,
        "warn" => Level::WARN,
        "info" => Level::INFO,
        "debug" => Level::DEBUG,
        "trace" => Level::TRACE,
        _ => panic!("bad level {}", s),
    }
}
fn flt(s: &str) -> LevelFilter {
    if s == "off" { LevelFilter::OFF } else { LevelFilter::from_level(lvl(s)) }
}
fn lname(l: &Level) -> &'static str {
    if *l == Level::ERROR { "error" } else if *l == Level::WARN { "warn" } else if *l == Level::INFO { "info" }
    else if *l == Level::DEBUG { "debug" } else { "trace" }
}
fn fname(f: &LevelFilter) -> &'static str {
    match f.into_level() { None => "off", Some(l) => lname(&l) }
}
fn ord(o: Ordering) -> &'static str {
    match o { Ordering::Less => "lt", Ordering::Equal => "eq", Ordering::Greater => "gt" }
}
fn b(x: bool) -> String { (if x { "1" } else { "0" }).to_string() }

macro_rules! ops {
    ($m:expr, $a:expr, $b:expr) => {
        match $m {
            "lt" => b($a < $b), "le" => b($a <= $b), "gt" => b($a > $b), "ge" => b($a >= $b),
            "eq" => b($a == $b), "ne" => b($a != $b),
            "partial_cmp" => match $a.partial_cmp(&$b) { Some(o) => format!("some {}", ord(o)), None => "none".into() },
            _ => "bad-method".into(),
        }
    };
}

struct Hint(Option<LevelFilter>);
impl Collect for Hint {
    fn register_callsite(&self, _: &'static Metadata<'static>) -> Interest { Interest::sometimes() }
    fn enabled(&self, _: &Metadata<'_>) -> bool { true }
    fn max_level_hint(&self) -> Option<LevelFilter> { self.0 }
    fn new_span(&self, _: &span::Attributes<'_>) -> span::Id { span::Id::from_u64(1) }
    fn record(&self, _: &span::Id, _: &span::Record<'_>) {}
    fn record_follows_from(&self, _: &span::Id, _: &span::Id) {}
    fn event(&self, _: &Event<'_>) {}
    fn enter(&self, _: &span::Id) {}
    fn exit(&self, _: &span::Id) {}
    fn current_span(&self) -> tracing_core::span::Current { tracing_core::span::Current::unknown() }
}

fn logl(l: log::Level) -> &'static str {
    match l { log::Level::Error => "error", log::Level::Warn => "warn", log::Level::Info => "info", log::Level::Debug => "debug", log::Level::Trace => "trace" }
}
fn logf(l: log::LevelFilter) -> &'static str {
    match l { log::LevelFilter::Off => "off", log::LevelFilter::Error => "error", log::LevelFilter::Warn => "warn", log::LevelFilter::Info => "info", log::LevelFilter::Debug => "debug", log::LevelFilter::Trace => "trace" }
}
fn to_logl(s: &str) -> log::Level {
    match s { "error" => log::Level::Error, "warn" => log::Level::Warn, "info" => log::Level::Info, "debug" => log::Level::Debug, _ => log::Level::Trace }
}
fn to_logf(s: &str) -> log::LevelFilter {
    match s { "off" => log::LevelFilter::Off, "error" => log::LevelFilter::Error, "warn" => log::LevelFilter::Warn, "info" => log::LevelFilter::Info, "debug" => log::LevelFilter::Debug, _ => log::LevelFilter::Trace }
}

fn main() {
    tv_harness::serve(|t| match t[0] {
        "op" => {
            let (kind, m, a, bb) = (t[1], t[2], t[3], t[4]);
            match kind {
                "LL" => { let (x, y) = (lvl(a), lvl(bb)); match m {
                    "cmp" => ord(x.cmp(&y)).into(), "max" => lname(&x.max(y)).into(), "min" => lname(&x.min(y)).into(), _ => ops!(m, x, y) } }
                "FF" => { let (x, y) = (flt(a), flt(bb)); match m {
                    "cmp" => ord(x.cmp(&y)).into(), "max" => fname(&x.max(y)).into(), "min" => fname(&x.min(y)).into(), _ => ops!(m, x, y) } }
                "LF" => { let (x, y) = (lvl(a), flt(bb)); ops!(m, x, y) }
                "FL" => { let (x, y) = (flt(a), lvl(bb)); ops!(m, x, y) }
                _ => "bad-kind".into(),
            }
        }
        "parseL" => match tv_harness::unhex_str(t[1]).parse::<Level>() { Ok(l) => format!("ok {}", lname(&l)), Err(_) => "err".into() },
        "parseF" => match tv_harness::unhex_str(t[1]).parse::<LevelFilter>() { Ok(f) => format!("ok {}", fname(&f)), Err(_) => "err".into() },
        "dispL" => tv_harness::hex(format!("{}", lvl(t[1])).as_bytes()),
        "asstr" => tv_harness::hex(lvl(t[1]).as_str().as_bytes()),
        "dispF" => tv_harness::hex(format!("{}", flt(t[1])).as_bytes()),
        "setcur" => {
            let d = Dispatch::new(Hint(Some(flt(t[1]))));
            let cur = LevelFilter::current();
            drop(d);
            fname(&cur).into()
        }
        "fromL" => fname(&LevelFilter::from(lvl(t[1]))).into(),
        "fromO" => fname(&LevelFilter::from(if t[1] == "off" { None } else { Some(lvl(t[1])) })).into(),
        "intoL" => { let o: Option<Level> = flt(t[1]).into(); match o { None => "none".into(), Some(l) => format!("some {}", lname(&l)) } }
        "aslogL" => logl(lvl(t[1]).as_log()).into(),
        "astraceL" => lname(&to_logl(t[1]).as_trace()).into(),
        "aslogF" => logf(flt(t[1]).as_log()).into(),
        "astraceF" => fname(&to_logf(t[1]).as_trace()).into(),
        _ => "bad-op".into(),
    });
}
