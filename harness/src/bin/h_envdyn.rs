//! C11 executor for span-scoped directives: a real `EnvFilter` (parsed from a directive string the executor
//! assembles from the case's structured directives) as a global filter over the Registry and a recording layer,
//! driven through the Dispatch API with the macros' interest caching.
//!   <P|A> D <target|-> <span|-> <fields|-> <rank> … ;; op ; op ; …          fields: `id=7+ok=true+tag`
//!   ops: sp <k> <name> <target> <rank> <fieldset|-> <vals|-> | ev <name> <target> <rank> <fieldset|->
//!        | rc <k> <vals> | en <k> | ex <k> | cl <k>
//! Output per op: `s:1|0` (was the span created) / `e:1|0` (was the event delivered) / `-`.
use std::cell::Cell;
use std::collections::HashMap;
use tracing::{Dispatch, Event};
use tracing_core::{collect::Interest, field::Value, span, Metadata};
use tracing_subscriber::subscribe::{CollectExt, Context, Subscribe};
use tracing_subscriber::EnvFilter;

thread_local! { static GOT: Cell<usize> = const { Cell::new(0) }; }
struct Rec;
impl<C: tracing::Collect> Subscribe<C> for Rec {
    fn on_event(&self, _: &Event<'_>, _: Context<'_, C>) { GOT.with(|g| g.set(g.get() + 1)); }
    fn on_new_span(&self, _: &span::Attributes<'_>, _: &span::Id, _: Context<'_, C>) { GOT.with(|g| g.set(g.get() + 1)); }
}

const LEVELS: [&str; 6] = ["off", "error", "warn", "info", "debug", "trace"];

/// `D`: a value whose Debug output is the given text (`d:<text>`)
struct Raw(String);
impl std::fmt::Debug for Raw { fn fmt(&self, f: &mut std::fmt::Formatter<'_>) -> std::fmt::Result { f.write_str(&self.0) } }
enum V { U(u64), I(i64), B(bool), F(f64), S(String), D(tracing_core::field::DebugValue<Raw>) }
fn parse_vals(t: &str) -> Vec<(String, V)> {
    if t == "-" { return Vec::new(); }
    t.split('+').filter_map(|f| {
        let (n, v) = f.split_once('=')?;
        let v = if let Some(t) = v.strip_prefix("d:") { V::D(tracing_core::field::debug(Raw(t.to_string()))) } else if v == "true" { V::B(true) } else if v == "false" { V::B(false) }
            else if let Ok(u) = v.parse::<u64>() { V::U(u) } else if let Ok(i) = v.parse::<i64>() { V::I(i) } else if v.contains('.') && v.parse::<f64>().is_ok() { V::F(v.parse::<f64>().unwrap()) } else { V::S(v.to_string()) };
        Some((n.to_string(), v))
    }).collect()
}

/// run `f` with a ValueSet of `m`'s fields holding `vals` (at most two values)
fn with_values<R>(m: &'static Metadata<'static>, vals: &[(String, V)], f: impl FnOnce(&tracing_core::field::ValueSet<'_>) -> R) -> R {
    let fs = m.fields();
    let pairs: Vec<(tracing_core::field::Field, &dyn Value)> = vals.iter().filter_map(|(n, v)| {
        let field = fs.field(n.as_str())?;
        let v: &dyn Value = match v { V::U(u) => u, V::I(i) => i, V::B(b) => b, V::F(x) => x, V::S(s) => s, V::D(d) => d };
        Some((field, v))
    }).collect();
    match pairs.len() {
        0 => f(&fs.value_set(&[])),
        1 => f(&fs.value_set(&[(&pairs[0].0, Some(pairs[0].1))])),
        _ => f(&fs.value_set(&[(&pairs[0].0, Some(pairs[0].1)), (&pairs[1].0, Some(pairs[1].1))])),
    }
}

/// `D target span fields level` as a user would write the directive
fn dir_string(d: &[&str]) -> String {
    assert_eq!(d[0], "D");
    let mut s = String::new();
    if d[1] != "-" { s.push_str(d[1]); }
    if d[2] != "-" || d[3] != "-" {
        s.push('[');
        if d[2] != "-" { s.push_str(d[2]); }
        if d[3] != "-" { s.push('{'); s.push_str(&d[3].replace('+', ",")); s.push('}'); }
        s.push(']');
    }
    let lvl = LEVELS[d[4].parse::<usize>().unwrap()];
    if s.is_empty() { s.push_str(lvl); } else { s.push('='); s.push_str(lvl); }
    s
}

fn run_case(toks: &[&str]) -> String {
    let sep = toks.iter().position(|t| *t == ";;").expect(";;");
    // the directive string, as a user would write it
    let mut dirs: Vec<String> = Vec::new();
    // `Q` / `B`: like `P` / `A` with regular expressions switched off (a matcher that is not a boolean or a number is a fixed
    // text compared with the value's Debug output)
    let via_add = toks[0] == "A" || toks[0] == "B";
    let regex = toks[0] == "P" || toks[0] == "A";
    for d in toks[1..sep].chunks(5) { dirs.push(dir_string(d)); }
    // `P`: the whole comma-separated string at once; `A`: an empty filter, then `add_directive` for each directive
    let filter = if via_add {
        let mut f = EnvFilter::builder().with_regex(regex).parse("").expect("empty filter");
        for d in &dirs {
            match d.parse::<tracing_subscriber::filter::Directive>() { Ok(d) => f = f.add_directive(d), Err(e) => return format!("PARSE-ERROR {}", e).replace(' ', "_") }
        }
        f
    } else {
        // through the builder, or through `EnvFilter::new` (which carries a default directive, `error`, for strings that yield no
        // directive at all — never the case here: the constructors must agree)
        match EnvFilter::builder().with_regex(regex).parse(dirs.join(",")) {
            Ok(f) => if toks.len() % 2 == 0 || !regex { f } else { EnvFilter::new(dirs.join(",")) },
            Err(e) => return format!("PARSE-ERROR {}", e).replace(' ', "_"),
        }
    };
    // the filter as a global layer, as the per-layer filter of the recording layer, or as the right operand of an `or` whose left
    // operand lets nothing through (a function of the case: all three must decide alike)
    // (direct questions to the filter — `qi` — are asked of the global-layer deployment: a per-layer filter answers through
    //  the registry's bookkeeping)
    // a case with `ad` (a directive added to the running filter) puts the filter behind a reload handle, as a global layer or
    // as a per-layer filter
    let has_ad = toks.iter().any(|t| *t == "ad");
    let deploy = if has_ad { 3 + toks.len() % 2 } else if toks.iter().any(|t| *t == "qi") { 0 } else { toks.len() % 3 };
    let mut handle: Option<tracing_subscriber::reload::Handle<EnvFilter>> = None;
    let d = match deploy {
        3 => {
            let (l, h) = tracing_subscriber::reload::Subscriber::new(filter);
            handle = Some(h);
            Dispatch::new(tracing_subscriber::registry().with(Rec).with(l))
        }
        4 => {
            let (l, h) = tracing_subscriber::reload::Subscriber::new(filter);
            handle = Some(h);
            Dispatch::new(tracing_subscriber::registry().with(Rec.with_filter(l)))
        }
        0 => Dispatch::new(tracing_subscriber::registry().with(Rec).with(filter)),
        1 => Dispatch::new(tracing_subscriber::registry().with(Rec.with_filter(filter))),
        _ => {
            use tracing_subscriber::filter::FilterExt;
            Dispatch::new(tracing_subscriber::registry().with(Rec.with_filter(tracing_subscriber::filter::LevelFilter::OFF.or(filter))))
        }
    };
    let dd = d.clone();
    tracing::dispatch::with_default(&dd, || {
        let mut metas: HashMap<String, &'static Metadata<'static>> = HashMap::new();
        let mut interest: HashMap<String, Interest> = HashMap::new();
        let mut spans: HashMap<usize, span::Id> = HashMap::new();
        let mut outs: Vec<String> = Vec::new();
        for op in toks[sep + 1..].split(|t| *t == ";") {
            if op.is_empty() { continue; }
            match op[0] {
                "sp" | "ev" => {
                    let is_ev = op[0] == "ev";
                    let o = if is_ev { &op[1..] } else { &op[2..] };
                    let key = format!("{} {} {} {} {}", op[0], o[0], o[1], o[2], o[3]);
                    let m = *metas.entry(key.clone()).or_insert_with(|| {
                        let fields: Vec<String> = if o[3] == "-" { Vec::new() } else { o[3].split('+').map(|s| s.to_string()).collect() };
                        tv_harness::synth::mk_meta(o[0], o[1], o[2].parse().unwrap(), is_ev, &fields)
                    });
                    let i = interest.entry(key).or_insert_with(|| d.register_callsite(m)).clone();
                    let enabled = !i.is_never() && (i.is_always() || d.enabled(m));
                    GOT.with(|g| g.set(0));
                    if is_ev {
                        if enabled { with_values(m, &[], |vs| d.event(&Event::new(m, vs))); }
                        outs.push(format!("e:{}", GOT.with(|g| g.get())));
                    } else {
                        if enabled {
                            let vals = parse_vals(o[4]);
                            let id = with_values(m, &vals, |vs| d.new_span(&span::Attributes::new_root(m, vs)));
                            spans.insert(op[1].parse().unwrap(), id);
                        }
                        outs.push(format!("s:{}", GOT.with(|g| g.get())));
                    }
                }
                "qi" => {
                    let is_ev = op[1] == "e";
                    let o = &op[2..];
                    let key = format!("{} {} {} {} {}", if is_ev { "ev" } else { "sp" }, o[0], o[1], o[2], o[3]);
                    let m = *metas.entry(key).or_insert_with(|| {
                        let fields: Vec<String> = if o[3] == "-" { Vec::new() } else { o[3].split('+').map(|s| s.to_string()).collect() };
                        tv_harness::synth::mk_meta(o[0], o[1], o[2].parse().unwrap(), is_ev, &fields)
                    });
                    let i = d.register_callsite(m);
                    let q = d.enabled(m);
                    outs.push(format!("i:{},q:{}", if i.is_always() { "a" } else if i.is_never() { "n" } else { "s" }, if q { 1 } else { 0 }));
                }
                "ad" => {
                    // `Handle::modify` extending the running filter in place; the interest cache is rebuilt afterwards
                    // (`modify` does that for the registered callsites; for the synthetic ones of this executor: ask again)
                    let dir = dir_string(&op[1..6]);
                    match (dir.parse::<tracing_subscriber::filter::Directive>(), handle.as_ref()) {
                        (Ok(dv), Some(h)) => {
                            let r = h.modify(|f| *f = std::mem::take(f).add_directive(dv));
                            interest.clear();
                            outs.push(if r.is_ok() { "-".into() } else { "modify-error".into() });
                        }
                        _ => outs.push("bad-op".into()),
                    }
                }
                "rc" => {
                    let k: usize = op[1].parse().unwrap();
                    if let Some(id) = spans.get(&k) {
                        use tracing_subscriber::registry::LookupSpan;
                        let m = d.downcast_ref::<tracing_subscriber::Registry>().and_then(|r| r.span(id).map(|s| s.metadata()));
                        if let Some(m) = m { let vals = parse_vals(op[2]); with_values(m, &vals, |vs| d.record(id, &span::Record::new(vs))); }
                    }
                    outs.push("-".into());
                }
                "en" | "ex" | "cl" => {
                    let k: usize = op[1].parse().unwrap();
                    if let Some(id) = spans.get(&k).cloned() {
                        match op[0] { "en" => d.enter(&id), "ex" => d.exit(&id), _ => { d.try_close(id); spans.remove(&k); } }
                    }
                    outs.push("-".into());
                }
                _ => outs.push("bad-op".into()),
            }
        }
        outs.join(" ")
    })
}

fn main() {
    if std::env::var("TV_QUIET_PANIC").is_ok() { std::panic::set_hook(Box::new(|_| {})); }
    tv_harness::serve(|toks| {
        let owned: Vec<String> = toks.iter().map(|s| s.to_string()).collect();
        let h = std::thread::spawn(move || { let t: Vec<&str> = owned.iter().map(|s| s.as_str()).collect(); run_case(&t) });
        match h.join() { Ok(s) => s, Err(_) => "PANIC".into() }
    });
}
