//! C20 executor: `<before 0|1> <secs> <nanos>` -> the text the default timer prints for
//! UNIX_EPOCH ± Duration::new(secs, nanos), through the real `DateTime::from` + `Display`.
use std::time::{Duration, UNIX_EPOCH};
use tracing_subscriber::fmt::time::__verif::format_system_time;

fn main() {
    tv_harness::serve(|t| {
        let before = t[0] == "1";
        let secs: u64 = t[1].parse().unwrap();
        let nanos: u32 = t[2].parse().unwrap();
        let d = Duration::new(secs, nanos);
        let st = if before { UNIX_EPOCH.checked_sub(d) } else { UNIX_EPOCH.checked_add(d) };
        match st {
            None => "unrepresentable".to_string(),
            Some(st) => match std::panic::catch_unwind(|| format_system_time(st)) {
                Ok(s) => s,
                Err(_) => "PANIC".to_string(),
            },
        }
    });
}
