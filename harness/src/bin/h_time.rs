//! C20 executor: `<before 0|1> <secs> <nanos> [L]` -> the text the default timer prints for
//! UNIX_EPOCH ± Duration::new(secs, nanos), through the real `DateTime::from` + `Display`; with `L`: the timestamp a real fmt
//! collector (Full format for even seconds, Compact for odd ones) puts at the head of an event's line while the clock reads that instant.
use std::sync::{Arc, Mutex};
use std::time::{Duration, UNIX_EPOCH};
use tracing_subscriber::fmt::time::__verif::{format_system_time, set_clock};

#[derive(Clone)]
struct BufW(Arc<Mutex<Vec<u8>>>);
impl std::io::Write for BufW {
    fn write(&mut self, b: &[u8]) -> std::io::Result<usize> { self.0.lock().unwrap().extend_from_slice(b); Ok(b.len()) }
    fn flush(&mut self) -> std::io::Result<()> { Ok(()) }
}

fn main() {
    let buf = Arc::new(Mutex::new(Vec::new()));
    let (b1, b2) = (buf.clone(), buf.clone());
    let full = tracing::Dispatch::new(tracing_subscriber::fmt().with_ansi(false).with_writer(move || BufW(b1.clone())).finish());
    let compact = tracing::Dispatch::new(tracing_subscriber::fmt().compact().with_ansi(false).with_writer(move || BufW(b2.clone())).finish());
    tv_harness::serve(|t| {
        let before = t[0] == "1";
        let secs: u64 = t[1].parse().unwrap();
        let nanos: u32 = t[2].parse().unwrap();
        let d = Duration::new(secs, nanos);
        let st = if before { UNIX_EPOCH.checked_sub(d) } else { UNIX_EPOCH.checked_add(d) };
        let through_layer = t.get(3) == Some(&"L");
        match st {
            None => "unrepresentable".to_string(),
            Some(st) if through_layer => {
                buf.lock().unwrap().clear();
                set_clock(Some(st));
                let r = std::panic::catch_unwind(std::panic::AssertUnwindSafe(|| tracing::dispatch::with_default(if secs % 2 == 0 { &full } else { &compact }, || tracing::info!("x"))));
                set_clock(None);
                if r.is_err() { return "PANIC".to_string(); }
                let line = String::from_utf8_lossy(&buf.lock().unwrap()).to_string();
                // the line starts with the timestamp (no blank in it), a blank, then the level
                line.split_whitespace().next().unwrap_or("EMPTY-LINE").to_string()
            }
            Some(st) => match std::panic::catch_unwind(|| format_system_time(st)) {
                Ok(s) => s,
                Err(_) => "PANIC".to_string(),
            },
        }
    });
}
