//! C05 / C06 executor: one history per line, against the real `Registry` under two recording
//! layers.  Spans are named by creation index (field `k`); real slab ids are mapped to indices in
//! `on_new_span`.  Threads are real threads commanded one op at a time; each has its own default
//! collector mode (own stack / none).
use std::collections::HashMap;
use std::sync::mpsc::{channel, Receiver, Sender};
use std::sync::{Arc, Mutex};
use tracing::{span, Dispatch, Level, Span};
use tracing_core::field::{Field, Visit};
use tracing_subscriber::registry::LookupSpan;
use tracing_subscriber::subscribe::{CollectExt, Context};
use tracing_subscriber::{Registry, Subscribe};

#[derive(Default)]
struct Shared {
    idmap: HashMap<u64, usize>,
    log_a: Vec<String>,
    log_b: Vec<String>,
    out: Vec<String>,
}

struct Rec {
    is_a: bool,
    sh: Arc<Mutex<Shared>>,
}

/// the types of the values layer A stores with a span
struct E<const N: usize>(usize);

struct KVisit(Option<u64>);
impl Visit for KVisit {
    fn record_u64(&mut self, f: &Field, v: u64) {
        if f.name() == "k" {
            self.0 = Some(v);
        }
    }
    fn record_debug(&mut self, _: &Field, _: &dyn std::fmt::Debug) {}
}

fn idx(sh: &Shared, id: &span::Id) -> String {
    match sh.idmap.get(&id.into_u64()) {
        Some(k) => k.to_string(),
        None => "?".to_string(),
    }
}

impl<C> Subscribe<C> for Rec
where
    C: tracing::Collect + for<'a> LookupSpan<'a>,
{
    fn on_new_span(&self, attrs: &span::Attributes<'_>, id: &span::Id, ctx: Context<'_, C>) {
        let mut v = KVisit(None);
        attrs.record(&mut v);
        if v.0.is_none() { v.0 = attrs.metadata().name().strip_prefix("sp").and_then(|n| n.parse().ok()); }
        let mut sh = self.sh.lock().unwrap();
        if self.is_a {
            sh.idmap.insert(id.into_u64(), v.0.expect("k") as usize);
        }
        let parent = ctx.span(id).and_then(|s| s.parent().map(|p| p.id()));
        let p = match parent {
            Some(p) => idx(&sh, &p),
            None => "-".into(),
        };
        // stored data: layer A stores values of 1 or (every third span) 9 different types with the new span — after looking whether
        // the span, fresh as it is, already carries any (a slot handed out again must come back empty)
        let mut stale = String::new();
        if self.is_a {
            if let Some(span) = ctx.span(id) {
                let k = v.0.unwrap() as usize;
                let mut ext = span.extensions_mut();
                let found = [ext.get_mut::<E<0>>().map(|e| e.0), ext.get_mut::<E<1>>().map(|e| e.0), ext.get_mut::<E<8>>().map(|e| e.0)];
                if let Some(old) = found.iter().flatten().next() { stale = format!(":STALE-DATA-OF-{}", old); }
                ext.replace(E::<0>(k));
                if k % 3 == 0 {
                    ext.replace(E::<1>(k)); ext.replace(E::<2>(k)); ext.replace(E::<3>(k)); ext.replace(E::<4>(k));
                    ext.replace(E::<5>(k)); ext.replace(E::<6>(k)); ext.replace(E::<7>(k)); ext.replace(E::<8>(k));
                }
            }
        }
        let line = format!("n{}:{}{}", v.0.unwrap(), p, stale);
        if self.is_a { sh.log_a.push(line) } else { sh.log_b.push(line) }
    }
    fn on_event(&self, event: &tracing::Event<'_>, ctx: Context<'_, C>) {
        let mut sh = self.sh.lock().unwrap();
        let cur = ctx.event_span(event).map(|s| idx(&sh, &s.id())).unwrap_or("-".into());
        let lc = ctx.lookup_current().map(|s| idx(&sh, &s.id())).unwrap_or("-".into());
        let scope: Vec<String> = ctx.event_scope(event).map(|sc| sc.map(|s| idx(&sh, &s.id())).collect()).unwrap_or_default();
        let root: Vec<String> = ctx.event_scope(event).map(|sc| sc.from_root().map(|s| idx(&sh, &s.id())).collect()).unwrap_or_default();
        let mut rr = root.clone();
        rr.reverse();
        let line = format!("e:{}:{}:{}{}", cur, lc, scope.join("."), if rr == scope { "" } else { ":FROMROOT-MISMATCH" });
        if self.is_a { sh.log_a.push(line) } else { sh.log_b.push(line) }
    }
    fn on_close(&self, id: span::Id, ctx: Context<'_, C>) {
        let readable = ctx.span(&id).is_some();
        let mut sh = self.sh.lock().unwrap();
        let line = format!("x{}{}", idx(&sh, &id), if readable { "r" } else { "u" });
        if self.is_a { sh.log_a.push(line) } else { sh.log_b.push(line) }
    }
}

type Job = Box<dyn FnOnce() + Send>;

fn worker(rx: Receiver<(Job, bool)>, tx: Sender<()>, own: Dispatch) {
    for (job, use_own) in rx {
        if use_own {
            tracing::dispatch::with_default(&own, job);
        } else {
            tracing::dispatch::with_default(&Dispatch::none(), job);
        }
        tx.send(()).unwrap();
    }
}

/// a span without any field, named `sp<k>`, written `info_span!(target: .., [parent: ..,] "sp<k>")` (the name must be a literal)
fn span_named(k: usize, parent: Option<Option<&Span>>) -> Span {
    macro_rules! mk { ($name:literal) => { match parent {
        None => tracing::info_span!(target: "app", $name),
        Some(None) => tracing::info_span!(target: "app", parent: None, $name),
        Some(Some(p)) => tracing::info_span!(target: "app", parent: p, $name),
    } } }
    match k {
        0 => mk!("sp0"),
        1 => mk!("sp1"),
        2 => mk!("sp2"),
        3 => mk!("sp3"),
        4 => mk!("sp4"),
        5 => mk!("sp5"),
        6 => mk!("sp6"),
        7 => mk!("sp7"),
        8 => mk!("sp8"),
        9 => mk!("sp9"),
        10 => mk!("sp10"),
        11 => mk!("sp11"),
        12 => mk!("sp12"),
        13 => mk!("sp13"),
        14 => mk!("sp14"),
        15 => mk!("sp15"),
        16 => mk!("sp16"),
        17 => mk!("sp17"),
        18 => mk!("sp18"),
        19 => mk!("sp19"),
        20 => mk!("sp20"),
        21 => mk!("sp21"),
        22 => mk!("sp22"),
        23 => mk!("sp23"),
        24 => mk!("sp24"),
        25 => mk!("sp25"),
        26 => mk!("sp26"),
        27 => mk!("sp27"),
        28 => mk!("sp28"),
        29 => mk!("sp29"),
        30 => mk!("sp30"),
        31 => mk!("sp31"),
        32 => mk!("sp32"),
        33 => mk!("sp33"),
        34 => mk!("sp34"),
        35 => mk!("sp35"),
        36 => mk!("sp36"),
        37 => mk!("sp37"),
        38 => mk!("sp38"),
        39 => mk!("sp39"),
        40 => mk!("sp40"),
        41 => mk!("sp41"),
        42 => mk!("sp42"),
        43 => mk!("sp43"),
        44 => mk!("sp44"),
        45 => mk!("sp45"),
        46 => mk!("sp46"),
        47 => mk!("sp47"),
        _ => panic!("span index beyond the named forms"),
    }
}

/// the same span written in several ways (the form is a function of the span's number): `span!` with a level, the level's own
/// macro, with a target, with and without fields — what the registry stores must not depend on the way it was written
fn make_span(k: usize, parent: &str, handles: &HashMap<usize, Vec<Span>>) -> Span {
    let form = if k < 48 { k % 4 } else { 0 };
    let ku = k as u64;
    if parent == "c" {
        match form { 1 => tracing::info_span!("sp", k = ku), 2 => span_named(k, None), 3 => tracing::info_span!(target: "app", "sp", k = ku), _ => span!(Level::INFO, "sp", k = ku) }
    } else if parent == "r" {
        match form { 1 => tracing::info_span!(parent: None, "sp", k = ku), 2 => span_named(k, Some(None)), 3 => tracing::info_span!(target: "app", parent: None, "sp", k = ku), _ => span!(parent: None, Level::INFO, "sp", k = ku) }
    } else {
        let j: usize = parent[1..].parse().unwrap();
        let p = handles.get(&j).and_then(|v| v.first()).expect("explicit parent handle");
        match form { 1 => tracing::info_span!(parent: p, "sp", k = ku), 2 => span_named(k, Some(Some(p))), 3 => tracing::info_span!(target: "app", parent: p, "sp", k = ku), _ => span!(parent: p, Level::INFO, "sp", k = ku) }
    }
}

fn run_history(line: &str) -> String {
    let sh = Arc::new(Mutex::new(Shared::default()));
    let own: Dispatch = Dispatch::new(
        tracing_subscriber::registry().with(Rec { is_a: true, sh: sh.clone() }).with(Rec { is_a: false, sh: sh.clone() }).with(tracing_error::ErrorSubscriber::default()),
    );
    // captured span traces (tracing-error): `st t k` captures on thread t, `sr k` reads it on THIS thread (which has no default
    // collector at all), `sx t k` drops it
    let traces: Arc<Mutex<HashMap<usize, tracing_error::SpanTrace>>> = Arc::new(Mutex::new(HashMap::new()));
    let handles: Arc<Mutex<HashMap<usize, Vec<Span>>>> = Arc::new(Mutex::new(HashMap::new()));
    let mut threads: Vec<(Sender<(Job, bool)>, Receiver<()>)> = Vec::new();
    let mut modes: Vec<bool> = Vec::new();
    let mut ensure = |threads: &mut Vec<(Sender<(Job, bool)>, Receiver<()>)>, modes: &mut Vec<bool>, t: usize| {
        while threads.len() <= t {
            let (jtx, jrx) = channel::<(Job, bool)>();
            let (dtx, drx) = channel();
            let o = own.clone();
            std::thread::spawn(move || worker(jrx, dtx, o));
            threads.push((jtx, drx));
            modes.push(true);
        }
    };
    let mut outs: Vec<String> = Vec::new();
    for op in line.split(';') {
        let t: Vec<&str> = op.split_ascii_whitespace().collect();
        if t.is_empty() { continue; }
        {
            let mut s = sh.lock().unwrap();
            s.log_a.clear(); s.log_b.clear(); s.out.clear();
        }
        let thread: usize = match t[0] { "cl" | "sc" | "lk" => 0, _ => t[1].parse().unwrap() };
        ensure(&mut threads, &mut modes, thread);
        let hs = handles.clone();
        let trs = traces.clone();
        let shc = sh.clone();
        let ownc = own.clone();
        let args: Vec<String> = t.iter().map(|s| s.to_string()).collect();
        let job: Job = Box::new(move || {
            let a: Vec<&str> = args.iter().map(|s| s.as_str()).collect();
            match a[0] {
                "ns" => {
                    let k: usize = a[2].parse().unwrap();
                    let sp = { let h = hs.lock().unwrap(); make_span(k, a[3], &h) };
                    hs.lock().unwrap().entry(k).or_default().push(sp);
                }
                "cl" => {
                    let j: usize = a[1].parse().unwrap();
                    let c = hs.lock().unwrap().get(&j).and_then(|v| v.first().cloned());
                    if let Some(c) = c { hs.lock().unwrap().get_mut(&j).unwrap().push(c); }
                }
                "dr" => {
                    let j: usize = a[2].parse().unwrap();
                    let sp = hs.lock().unwrap().get_mut(&j).and_then(|v| v.pop());
                    drop(sp);
                }
                "en" | "ex" => {
                    // what an `EnteredSpan` guard does: it owns a handle (clone), enters on creation,
                    // exits and then drops its handle on drop.  `ren`/`rex` below are the raw
                    // `Dispatch::enter/exit` calls without a handle.
                    let j: usize = a[2].parse().unwrap();
                    let t: usize = a[1].parse().unwrap();
                    if a[0] == "en" {
                        let c = hs.lock().unwrap().get(&j).and_then(|v| v.first().cloned());
                        if let Some(c) = c {
                            if let Some(id) = c.id() { ownc.enter(&id); }
                            hs.lock().unwrap().entry(1_000_000 + t * 1000 + j).or_default().push(c);
                        }
                    } else {
                        let g = hs.lock().unwrap().get_mut(&(1_000_000 + t * 1000 + j)).and_then(|v| v.pop());
                        if let Some(g) = g {
                            if let Some(id) = g.id() { ownc.exit(&id); }
                            drop(g);
                        }
                    }
                }
                "st" => { let k: usize = a[2].parse().unwrap(); let tr = tracing_error::SpanTrace::capture(); trs.lock().unwrap().insert(k, tr); }
                "sx" => { let k: usize = a[2].parse().unwrap(); let tr = trs.lock().unwrap().remove(&k); drop(tr); }
                "pg" => {
                    // a REAL `Entered` guard (Span::enter) dropped by a panic that unwinds through it and is caught: the same
                    // enter / exit / release as `en` followed by `ex`, the exit happening while the thread is panicking
                    let j: usize = a[2].parse().unwrap();
                    let c = hs.lock().unwrap().get(&j).and_then(|v| v.first().cloned());
                    if let Some(c) = c {
                        let _ = std::panic::catch_unwind(std::panic::AssertUnwindSafe(move || {
                            let _g = c.entered();
                            std::panic::resume_unwind(Box::new("scripted"));
                        }));
                    }
                }
                "pgl" => {
                    // the same with a handle MOVED into the guard (`span.entered()` on the program's own handle): if it is the
                    // last one, the span closes while the thread is panicking
                    let j: usize = a[2].parse().unwrap();
                    let c = hs.lock().unwrap().get_mut(&j).and_then(|v| v.pop());
                    if let Some(c) = c {
                        let _ = std::panic::catch_unwind(std::panic::AssertUnwindSafe(move || {
                            let _g = c.entered();
                            std::panic::resume_unwind(Box::new("scripted"));
                        }));
                    }
                }
                "ren" | "rex" => {
                    let j: usize = a[2].parse().unwrap();
                    let sp = { let s = shc.lock().unwrap(); s.idmap.iter().find(|(_, v)| **v == j).map(|(k, _)| span::Id::from_u64(*k)) };
                    if let Some(id) = sp {
                        if a[0] == "ren" { ownc.enter(&id) } else { ownc.exit(&id) }
                    }
                }
                "ev" => { tracing::info!("e"); }
                "cu" => {
                    let cur = Span::current();
                    let s = shc.lock().unwrap();
                    let c = cur.id().map(|i| idx(&s, &i)).unwrap_or("-".into());
                    drop(s);
                    shc.lock().unwrap().out.push(format!("c:{}", c));
                }
                "sc" | "lk" => {
                    let j: usize = a[1].parse().unwrap();
                    let reg = ownc.downcast_ref::<Registry>().expect("registry");
                    let s = shc.lock().unwrap();
                    let id = s.idmap.iter().find(|(_, v)| **v == j).map(|(k, _)| span::Id::from_u64(*k));
                    let line = if a[0] == "sc" {
                        let v: Vec<String> = id.and_then(|id| reg.span(&id)).map(|sp| sp.scope().map(|x| idx(&s, &x.id())).collect()).unwrap_or_default();
                        format!("s:{}", v.join("."))
                    } else {
                        format!("p{}", if id.and_then(|id| reg.span(&id)).is_some() { 1 } else { 0 })
                    };
                    drop(s);
                    shc.lock().unwrap().out.push(line);
                }
                _ => {}
            }
        });
        if t[0] == "sr" {
            let k: usize = t[1].parse().unwrap();
            let mut chain: Vec<String> = Vec::new();
            if let Some(tr) = traces.lock().unwrap().get(&k) {
                tr.with_spans(|m, fields| {
                    // the span's number: its field `k`, or (spans written without fields) the digits of its name
                    chain.push(if fields.is_empty() { m.name().trim_start_matches("sp").to_string() } else { fields.trim_start_matches("k=").to_string() });
                    true
                });
            }
            outs.push(format!("s:{}", chain.join(".")));
            continue;
        }
        if t[0] == "df" {
            modes[thread] = t[2] == "own";
            outs.push("-".into());
            continue;
        }
        threads[thread].0.send((job, modes[thread])).unwrap();
        threads[thread].1.recv().unwrap();
        let s = sh.lock().unwrap();
        let mut items: Vec<String> = Vec::new();
        if s.log_a != s.log_b {
            items.push(format!("LAYERS-DIFFER[{}|{}]", s.log_a.join(","), s.log_b.join(",")));
        } else {
            items.extend(s.log_a.iter().cloned());
        }
        items.extend(s.out.iter().cloned());
        let o = if items.is_empty() { "-".to_string() } else { items.join(",") };
        // (`pg` stands for two operations of the model: the enter, which reports nothing, and the exit)
        outs.push(if t[0] == "pg" { format!("- {}", o) } else if t[0] == "pgl" { format!("- - {}", o) } else { o });
    }
    // teardown: drop every handle (ignore what happens here)
    handles.lock().unwrap().clear();
    outs.join(" ")
}

fn main() {
    if std::env::var("TV_QUIET_PANIC").is_ok() { std::panic::set_hook(Box::new(|_| {})); }
    tv_harness::serve(|toks| {
        let line = toks.join(" ");
        match std::panic::catch_unwind(|| run_history(&line)) {
            Ok(s) => s,
            Err(_) => "PANIC".to_string(),
        }
    });
}
