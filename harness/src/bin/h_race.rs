//! C04 executor: real threads running small registration scenarios under a schedule, one process
//! per case.  The yield hooks of tracing-core (cfg tokio_rs_tracing_verif) make every lock
//! acquisition / atomic section boundary of the registration paths a scheduling point.
//!   pre: new <c> <spec> , …  |  <thread> | <thread> | <thread> ;; <schedule digits>
//!   thread: [@<c>] op , op , …      (@c = the thread's default collector for its whole life)
//!   ops: hit <cs> | new <c> <spec> | drop <c> | rebuild | mut <c> <spec>
//!        | sgd <c> (set_global_default with collector c; the result is logged as `sgd:ok` / `sgd:err`)
//!        | newr <c> <spec> (a collector whose filter is a REAL reload::Subscriber layer) | rl <c> <spec> (the real `Handle::reload`)
//!   spec: 30 chars over a (always) n (never) t (sometimes, enabled) f (sometimes, disabled) + `h<k|->`
//!   schedule `F`: no scheduler — the threads are released together and run freely (stress search)
//! Output: `<status> ;; <event log> ;; <quiescent observations>`   (observation `gd:<c|->` = who is the global default)
use std::collections::HashMap;
use std::sync::{Arc, Condvar, Mutex};
use std::time::{Duration, Instant};
use tracing_core::{collect::Interest, span, Collect, Dispatch, Event, LevelFilter, Metadata};
use tv_harness::pool;

static LOG: Mutex<Vec<usize>> = Mutex::new(Vec::new());
static WRONG: Mutex<Vec<String>> = Mutex::new(Vec::new());

type Cell = Arc<std::sync::RwLock<(Vec<u8>, Option<LevelFilter>)>>;
static CELLS: Mutex<Option<HashMap<usize, Cell>>> = Mutex::new(None);
struct Rec { id: usize, cell: Cell }
impl Rec {
    fn accepts(&self, i: usize) -> bool { matches!(self.cell.read().unwrap().0[i], b'a' | b't') }
}
impl Collect for Rec {
    fn register_callsite(&self, meta: &'static Metadata<'static>) -> Interest {
        match self.cell.read().unwrap().0[pool::cs_index(meta)] { b'a' => Interest::always(), b'n' => Interest::never(), _ => Interest::sometimes() }
    }
    fn enabled(&self, meta: &Metadata<'_>) -> bool { self.accepts(pool::cs_index(meta)) }
    fn max_level_hint(&self) -> Option<LevelFilter> { self.cell.read().unwrap().1 }
    fn new_span(&self, a: &span::Attributes<'_>) -> span::Id {
        let i = pool::cs_index(a.metadata());
        if !self.accepts(i) { WRONG.lock().unwrap().push(format!("{}:{}", self.id, i)); }
        LOG.lock().unwrap().push(self.id);
        span::Id::from_u64(1)
    }
    fn record(&self, _: &span::Id, _: &span::Record<'_>) {}
    fn record_follows_from(&self, _: &span::Id, _: &span::Id) {}
    fn event(&self, e: &Event<'_>) {
        let i = pool::cs_index(e.metadata());
        if !self.accepts(i) { WRONG.lock().unwrap().push(format!("{}:{}", self.id, i)); }
        LOG.lock().unwrap().push(self.id);
    }
    fn enter(&self, _: &span::Id) {}
    fn exit(&self, _: &span::Id) {}
    fn current_span(&self) -> span::Current { span::Current::unknown() }
}

/// scenarios starting with `dropemit <cs>`: a plain collector emits an event from callsite cs while it is being dropped (a
/// collector that logs its own shutdown)
static DROP_EMITS: std::sync::atomic::AtomicUsize = std::sync::atomic::AtomicUsize::new(usize::MAX);
impl Drop for Rec {
    fn drop(&mut self) {
        let cs = DROP_EMITS.load(std::sync::atomic::Ordering::SeqCst);
        if cs != usize::MAX { pool::hit(cs); }
    }
}

/// `newr`: the answers come from a layer behind a real `reload::Subscriber`; the collector underneath accepts everything
struct Base { id: usize }
struct SpecLayer(Vec<u8>, Option<LevelFilter>);
type RHandle = tracing_subscriber::reload::Handle<SpecLayer>;
static RHANDLES: Mutex<Option<HashMap<usize, RHandle>>> = Mutex::new(None);
/// every value a reloadable collector has had, oldest first (appended right after the real assignment, so it may lag the
/// real value by one entry, never lead it) — readable without the reload lock
static VALUES: Mutex<Option<HashMap<usize, Vec<Vec<u8>>>>> = Mutex::new(None);
static LOST: Mutex<Vec<String>> = Mutex::new(Vec::new());
/// how many of a collector's values belong to reloads that have RETURNED (an emission that starts while a reload is still
/// between its assignment and its return may be judged by the value before it)
static SETTLED: Mutex<Option<HashMap<usize, usize>>> = Mutex::new(None);
fn settled(c: usize) -> usize { SETTLED.lock().unwrap().as_ref().and_then(|m| m.get(&c).copied()).unwrap_or(1) }
fn settle(c: usize) { let n = values_len(c); let mut g = SETTLED.lock().unwrap(); let m = g.get_or_insert_with(HashMap::new); let e = m.entry(c).or_insert(1); if n > *e { *e = n; } }
fn values_len(c: usize) -> usize { VALUES.lock().unwrap().as_ref().and_then(|m| m.get(&c).map(|v| v.len())).unwrap_or(0) }
fn push_value(c: usize, v: Vec<u8>) { VALUES.lock().unwrap().get_or_insert_with(HashMap::new).entry(c).or_default().push(v); }
thread_local! {
    /// set around an emission by the `hit` op: the index of the oldest value of the thread's reloadable default that may still
    /// judge it (the value of the last reload that had RETURNED when the emission started)
    static EMIT_FROM: std::cell::Cell<Option<usize>> = const { std::cell::Cell::new(None) };
}
impl Base {
    /// may this delivery happen?  An emission racing with reloads is judged entirely by ONE of the values the collector has
    /// between the emission's start and its end (with a cached `always` that is the value the verdict was computed under):
    /// the delivery is wrong only if none of them accepts the callsite.
    fn accepts(&self, i: usize) -> bool {
        if let Some(from) = EMIT_FROM.with(|e| e.get()) {
            let any_old = VALUES.lock().unwrap().as_ref().and_then(|m| m.get(&self.id).map(|vs| vs[from.min(vs.len())..].iter().any(|v| matches!(v[i], b'a' | b't')))).unwrap_or(false);
            if any_old { return true; }
        }
        let h = RHANDLES.lock().unwrap().as_ref().and_then(|m| m.get(&self.id).cloned());
        h.and_then(|h| h.with_current(|l| matches!(l.0[i], b'a' | b't')).ok()).unwrap_or(true)
    }
}
impl Collect for Base {
    fn register_callsite(&self, _: &'static Metadata<'static>) -> Interest { Interest::always() }
    fn enabled(&self, _: &Metadata<'_>) -> bool { true }
    fn new_span(&self, a: &span::Attributes<'_>) -> span::Id {
        let i = pool::cs_index(a.metadata());
        if !self.accepts(i) { WRONG.lock().unwrap().push(format!("{}:{}", self.id, i)); }
        LOG.lock().unwrap().push(self.id);
        span::Id::from_u64(1)
    }
    fn record(&self, _: &span::Id, _: &span::Record<'_>) {}
    fn record_follows_from(&self, _: &span::Id, _: &span::Id) {}
    fn event(&self, e: &Event<'_>) {
        let i = pool::cs_index(e.metadata());
        if !self.accepts(i) { WRONG.lock().unwrap().push(format!("{}:{}", self.id, i)); }
        LOG.lock().unwrap().push(self.id);
    }
    fn enter(&self, _: &span::Id) {}
    fn exit(&self, _: &span::Id) {}
    fn current_span(&self) -> span::Current { span::Current::unknown() }
}
impl<C: Collect> tracing_subscriber::Subscribe<C> for SpecLayer {
    fn register_callsite(&self, meta: &'static Metadata<'static>) -> Interest {
        match self.0[pool::cs_index(meta)] { b'a' => Interest::always(), b'n' => Interest::never(), _ => Interest::sometimes() }
    }
    fn enabled(&self, meta: &Metadata<'_>, _: tracing_subscriber::subscribe::Context<'_, C>) -> bool { matches!(self.0[pool::cs_index(meta)], b'a' | b't') }
    fn max_level_hint(&self) -> Option<LevelFilter> { self.1 }
}
fn mk_reloadable(id: usize, spec: &str) -> Dispatch {
    use tracing_subscriber::subscribe::CollectExt;
    let (v, h) = parse_spec(spec);
    push_value(id, v.clone());
    let (layer, handle) = tracing_subscriber::reload::Subscriber::new(SpecLayer(v, h));
    RHANDLES.lock().unwrap().get_or_insert_with(HashMap::new).insert(id, handle);
    Dispatch::new(Base { id }.with(layer))
}

fn parse_spec(spec: &str) -> (Vec<u8>, Option<LevelFilter>) {
    let (s, h) = spec.split_once('h').expect("spec h");
    let hint = match h { "-" => None, k => Some(tv_harness::fexpr::lf(k.parse().unwrap())) };
    (s.as_bytes().to_vec(), hint)
}

/// scenarios without `mut`: a plain collector's answers never change, so an emission it accepts must be delivered (the
/// lost-delivery oracle of the `hit` op applies to it as well)
static WATCH_PLAIN: std::sync::atomic::AtomicBool = std::sync::atomic::AtomicBool::new(false);
fn mk(id: usize, spec: &str) -> Rec {
    if WATCH_PLAIN.load(std::sync::atomic::Ordering::SeqCst) { push_value(id, parse_spec(spec).0); }
    let cell: Cell = Arc::new(std::sync::RwLock::new(parse_spec(spec)));
    CELLS.lock().unwrap().get_or_insert_with(HashMap::new).insert(id, cell.clone());
    Rec { id, cell }
}

struct Sched {
    granted: Option<usize>,
    at_yield: Vec<bool>,
    finished: Vec<bool>,
    log: Vec<String>,
}
static SCHED: Mutex<Option<Sched>> = Mutex::new(None);
static CV: Condvar = Condvar::new();
thread_local! {
    static WORKER: std::cell::Cell<Option<usize>> = const { std::cell::Cell::new(None) };
    static OPIDX: std::cell::Cell<usize> = const { std::cell::Cell::new(0) };
}

fn hook(name: &'static str) { yield_at(name) }

/// an entry of the event log that is not a scheduling point
fn log_event(name: &str) {
    let t = match WORKER.with(|w| w.get()) { Some(t) => t, None => return };
    let i = OPIDX.with(|o| o.get());
    SCHED.lock().unwrap().as_mut().unwrap().log.push(format!("{}.{}.{}", t, i, name));
}
static FREE: std::sync::atomic::AtomicBool = std::sync::atomic::AtomicBool::new(false);
static GO: std::sync::atomic::AtomicBool = std::sync::atomic::AtomicBool::new(false);

fn yield_at(name: &str) {
    let t = match WORKER.with(|w| w.get()) { Some(t) => t, None => return };
    let i = OPIDX.with(|o| o.get());
    if FREE.load(std::sync::atomic::Ordering::SeqCst) {
        // free run: no scheduling, and no shared lock right before an operation (it would serialise the threads)
        if name != "op" { SCHED.lock().unwrap().as_mut().unwrap().log.push(format!("{}.{}.{}", t, i, name)); }
        return;
    }
    let mut g = SCHED.lock().unwrap();
    {
        let s = g.as_mut().unwrap();
        s.log.push(format!("{}.{}.{}", t, i, name));
        s.at_yield[t] = true;
    }
    CV.notify_all();
    loop {
        if g.as_ref().unwrap().granted == Some(t) { break; }
        g = CV.wait(g).unwrap();
    }
    let s = g.as_mut().unwrap();
    s.granted = None;
    s.at_yield[t] = false;
}

type Handles = Arc<Mutex<HashMap<usize, Dispatch>>>;

fn run_thread(t: usize, prog: Vec<Vec<String>>, dflt: Option<Dispatch>, dflt_id: Option<usize>, handles: Handles) {
    WORKER.with(|w| w.set(Some(t)));
    if FREE.load(std::sync::atomic::Ordering::SeqCst) { while !GO.load(std::sync::atomic::Ordering::SeqCst) { std::hint::spin_loop(); } }
    let body = || {
        for (i, op) in prog.iter().enumerate() {
            OPIDX.with(|o| o.set(i));
            yield_at("op");
            match op[0].as_str() {
                "hit" => {
                    let cs: usize = op[1].parse().unwrap();
                    // a reloadable default collector: an emission racing with reloads is judged by one of the values the
                    // collector has between its start and its end — if they ALL accept it, it must be delivered
                    let watch = dflt_id.filter(|c| values_len(*c) > 0);
                    let (from, before) = match watch { Some(c) => (settled(c).saturating_sub(1), LOG.lock().unwrap().iter().filter(|x| **x == c).count()), None => (0, 0) };
                    if watch.is_some() { EMIT_FROM.with(|e| e.set(Some(from))); }
                    pool::hit(cs);
                    EMIT_FROM.with(|e| e.set(None));
                    if let Some(c) = watch {
                        let after = LOG.lock().unwrap().iter().filter(|x| **x == c).count();
                        let all_accept = VALUES.lock().unwrap().as_ref().unwrap()[&c][from..].iter().all(|v| matches!(v[cs], b'a' | b't'));
                        // (the list may lag the real value by one entry: give a reload in flight the time to append it)
                        if all_accept && after == before {
                            std::thread::sleep(Duration::from_millis(20));
                            let still = VALUES.lock().unwrap().as_ref().unwrap()[&c][from..].iter().all(|v| matches!(v[cs], b'a' | b't'));
                            if still { LOST.lock().unwrap().push(format!("{}:{}", c, cs)); }
                        }
                    }
                }
                "new" => {
                    let c: usize = op[1].parse().unwrap();
                    let d = Dispatch::new(mk(c, &op[2]));
                    handles.lock().unwrap().insert(c, d);
                }
                "newr" => {
                    let c: usize = op[1].parse().unwrap();
                    let d = mk_reloadable(c, &op[2]);
                    handles.lock().unwrap().insert(c, d);
                }
                "rl" | "rlb" => {
                    // the real thing: lock, assign, unlock (yield point `modify:unlocked`), rebuild the interest cache
                    let c: usize = op[1].parse().unwrap();
                    let h = RHANDLES.lock().unwrap().as_ref().unwrap().get(&c).expect("reloadable collector").clone();
                    let (v, hint) = parse_spec(&op[2]);
                    let v2 = v.clone();
                    if op[0] == "rlb" {
                        // the same through `modify`, with a scheduling point INSIDE the write-locked section
                        let _ = h.modify(|l| { *l = SpecLayer(v, hint); push_value(c, v2); yield_at("modify:inside"); });
                    } else {
                        let _ = h.modify(|l| { *l = SpecLayer(v, hint); push_value(c, v2); });
                    }
                    settle(c);
                }
                "sgd" => {
                    let c: usize = op[1].parse().unwrap();
                    let d = handles.lock().unwrap().get(&c).expect("collector").clone();
                    let r = tracing_core::dispatch::set_global_default(d);
                    log_event(if r.is_ok() { "sgd:ok" } else { "sgd:err" });
                }
                "drop" => {
                    let c: usize = op[1].parse().unwrap();
                    let d = handles.lock().unwrap().remove(&c);
                    drop(d);
                    yield_at("dropped");
                }
                "rebuild" => tracing_core::callsite::rebuild_interest_cache(),
                "mut" => {
                    // what reload::Handle::modify does first: change the value under its own lock (the rebuild is the next op)
                    let c: usize = op[1].parse().unwrap();
                    let cell = CELLS.lock().unwrap().as_ref().unwrap().get(&c).expect("collector").clone();
                    *cell.write().unwrap() = parse_spec(&op[2]);
                    yield_at("mutated");
                }
                _ => panic!("bad op"),
            }
        }
    };
    let mut dflt = dflt;
    let r = std::panic::catch_unwind(std::panic::AssertUnwindSafe(|| match dflt.take() {
        Some(d) => {
            // the scope guard holds the thread's only reference to its default (as `set_default(&Dispatch::new(..))` does in
            // programs): if every other handle is gone when the scope ends, the collector is dropped BY the guard's drop
            let g = tracing_core::dispatch::set_default(&d);
            drop(d);
            body();
            drop(g);
        }
        None => body(),
    }));
    let mut g = SCHED.lock().unwrap();
    let s = g.as_mut().unwrap();
    if r.is_err() { s.log.push(format!("{}.0.PANIC", t)); }
    s.finished[t] = true;
    drop(g);
    CV.notify_all();
}

fn parse_ops(s: &[&str]) -> Vec<Vec<String>> {
    s.split(|t| *t == ",").filter(|o| !o.is_empty()).map(|o| o.iter().map(|x| x.to_string()).collect()).collect()
}

fn main() {
    let mut line = String::new();
    std::io::stdin().read_line(&mut line).unwrap();
    let toks: Vec<&str> = line.split_whitespace().collect();
    let sep = toks.iter().position(|t| *t == ";;").expect(";;");
    let free = toks.get(sep + 1) == Some(&"F");
    FREE.store(free, std::sync::atomic::Ordering::SeqCst);
    let schedule: Vec<usize> = if free { Vec::new() } else { toks.get(sep + 1).map(|s| s.bytes().map(|b| (b - b'0') as usize).collect()).unwrap_or_default() };
    let parts: Vec<&[&str]> = toks[..sep].split(|t| *t == "|").collect();
    WATCH_PLAIN.store(!toks[..sep].iter().any(|t| *t == "mut"), std::sync::atomic::Ordering::SeqCst);
    let handles: Handles = Arc::new(Mutex::new(HashMap::new()));
    // pre-section (sequential, uncontrolled)
    assert_eq!(parts[0][0], "pre:");
    for op in parse_ops(&parts[0][1..]) {
        if op[0] == "dropemit" { DROP_EMITS.store(op[1].parse().unwrap(), std::sync::atomic::Ordering::SeqCst); continue; }
        let c: usize = op[1].parse().unwrap();
        let d = if op[0] == "newr" { mk_reloadable(c, &op[2]) } else { Dispatch::new(mk(c, &op[2])) };
        handles.lock().unwrap().insert(c, d);
    }
    let n = parts.len() - 1;
    *SCHED.lock().unwrap() = Some(Sched { granted: None, at_yield: vec![false; n], finished: vec![false; n], log: Vec::new() });
    if !free { tracing_core::callsite::__verif::set_yield_hook(Some(hook)); }
    let mut used_cs: Vec<usize> = Vec::new();
    let mut joins = Vec::new();
    for (t, p) in parts[1..].iter().enumerate() {
        let (dflt, ops) = if !p.is_empty() && p[0].starts_with('@') {
            let c: usize = p[0][1..].parse().unwrap();
            (Some(handles.lock().unwrap().get(&c).expect("default collector").clone()), &p[1..])
        } else { (None, &p[..]) };
        let prog = parse_ops(ops);
        for op in &prog { if op[0] == "hit" { let c = op[1].parse().unwrap(); if !used_cs.contains(&c) { used_cs.push(c); } } }
        let h = handles.clone();
        let dflt_id: Option<usize> = if !p.is_empty() && p[0].starts_with('@') { p[0][1..].parse().ok() } else { None };
        joins.push(std::thread::spawn(move || run_thread(t, prog, dflt, dflt_id, h)));
    }
    // ---- the scheduler
    let step_timeout = Duration::from_millis(40);
    let grant = |t: usize| -> bool {
        // returns false if t is not waiting at a yield point (blocked on a lock, or finished)
        let mut g = SCHED.lock().unwrap();
        {
            let s = g.as_mut().unwrap();
            if s.finished[t] || !s.at_yield[t] { return false; }
            s.granted = Some(t);
            s.at_yield[t] = false;
        }
        CV.notify_all();
        let deadline = Instant::now() + step_timeout;
        loop {
            let s = g.as_ref().unwrap();
            if s.granted.is_none() && (s.at_yield[t] || s.finished[t]) { return true; }
            let now = Instant::now();
            // the grant has been consumed and t has not reached its next yield point in time: t is blocked on a
            // lock (or merely slow — still a legal interleaving): move on.  An unconsumed grant is never abandoned.
            if now >= deadline && s.granted.is_none() { return true; }
            let wait = if now >= deadline { Duration::from_millis(5) } else { deadline - now };
            g = CV.wait_timeout(g, wait).unwrap().0;
        }
    };
    // wait for every thread to reach its first yield point
    let wait_all_parked = |limit: Duration| {
        let deadline = Instant::now() + limit;
        let mut g = SCHED.lock().unwrap();
        loop {
            let s = g.as_ref().unwrap();
            if (0..n).all(|t| s.at_yield[t] || s.finished[t]) { return true; }
            let now = Instant::now();
            if now >= deadline { return false; }
            g = CV.wait_timeout(g, deadline - now).unwrap().0;
        }
    };
    if free {
        std::thread::sleep(Duration::from_millis(2));
        GO.store(true, std::sync::atomic::Ordering::SeqCst);
    } else {
        wait_all_parked(Duration::from_secs(2));
    }
    for &t in &schedule { if t < n { grant(t); } }
    // free run: round robin until everybody has finished
    let mut status = "ok";
    let start = Instant::now();
    loop {
        let all_done = { let g = SCHED.lock().unwrap(); let s = g.as_ref().unwrap(); (0..n).all(|t| s.finished[t]) };
        if all_done { break; }
        let mut any = false;
        if !free { for t in 0..n { if grant(t) { any = true; } } }
        if !any { std::thread::sleep(Duration::from_millis(5)); }
        if start.elapsed() > Duration::from_secs(8) { status = "DEADLOCK"; break; }
    }
    if status == "ok" { for j in joins { let _ = j.join(); } }
    tracing_core::callsite::__verif::set_yield_hook(None);
    let log = SCHED.lock().unwrap().as_ref().unwrap().log.clone();
    if log.iter().any(|e| e.ends_with("PANIC")) { status = "PANIC"; }
    // ---- quiescent observations: every live collector, every callsite of the scenario
    let mut obs = Vec::new();
    if status == "ok" {
        let hs = handles.lock().unwrap();
        let mut ids: Vec<&usize> = hs.keys().collect();
        ids.sort();
        used_cs.sort();
        for c in ids {
            for cs in &used_cs {
                LOG.lock().unwrap().clear();
                tracing_core::dispatch::with_default(&hs[c], || pool::hit(*cs));
                let got = LOG.lock().unwrap().contains(c);
                obs.push(format!("{}:{}:{}", c, cs, if got { 1 } else { 0 }));
            }
        }
    }
    if status == "ok" {
        // who is the process-wide default now (asked from this thread, which has no scoped default)
        let who = tracing_core::dispatch::get_default(|d| d.downcast_ref::<Rec>().map(|r| r.id));
        obs.push(format!("gd:{}", who.map(|c| c.to_string()).unwrap_or_else(|| "-".into())));
    }
    let wrong = WRONG.lock().unwrap().clone();
    let lost = LOST.lock().unwrap().clone();
    println!("{}{}{} ;; {} ;; {}", status, if wrong.is_empty() { String::new() } else { format!(" wrong-delivery={}", wrong.join("+")) },
             if lost.is_empty() { String::new() } else { format!(" lost-delivery={}", lost.join("+")) },
             if log.is_empty() { "-".into() } else { log.join(" ") }, if obs.is_empty() { "-".into() } else { obs.join(" ") });
    if status != "ok" { std::process::exit(0); }
}
