//! C11 / C08 executor: directive sets and filters queried over a fixed metadata universe.
//!   T <hex directives>   -> Targets: `err` | `ok <hex display> <enabled bits> <would_enable bits> <hint> <reparse-equal>`
//!   E <hex directives>   -> EnvFilter (static directives only): `err` | `ok <interest string> <hint>`
//! Universe (same order in the Lean driver): targets x ranks 1..5 x {span,event} x field sets.
use tracing_core::{collect::Interest, LevelFilter, Metadata};
use tracing_subscriber::filter::{EnvFilter, Targets};
use tracing_subscriber::subscribe::Filter;
use tv_harness::synth::mk_meta;

pub const TARGETS: [&str; 7] = ["app", "application", "app::db", "app::db::pool", "other", "", "ap"];
pub const FIELDSETS: [&[&str]; 4] = [&[], &["bar"], &["bar", "baz"], &["msg"]];

fn universe() -> Vec<&'static Metadata<'static>> {
    let mut v = Vec::new();
    for t in TARGETS.iter() {
        for r in 1..=5 {
            for ev in [false, true] {
                for fs in FIELDSETS.iter() {
                    let f: Vec<String> = fs.iter().map(|s| s.to_string()).collect();
                    v.push(mk_meta("m", t, r, ev, &f));
                }
            }
        }
    }
    v
}

fn hint(h: Option<LevelFilter>) -> String {
    match h {
        None => "-".into(),
        Some(f) => match f.into_level() {
            None => "0".into(),
            Some(l) => (if l == tracing_core::Level::ERROR { 1 } else if l == tracing_core::Level::WARN { 2 } else if l == tracing_core::Level::INFO { 3 } else if l == tracing_core::Level::DEBUG { 4 } else { 5 }).to_string(),
        },
    }
}

fn ichar(i: Interest) -> char {
    if i.is_always() { 'a' } else if i.is_never() { 'n' } else { 's' }
}

fn main() {
    let uni = universe();
    tv_harness::serve(|t| {
        let s = tv_harness::unhex_str(t[1]);
        match t[0] {
            "T" => match s.parse::<Targets>() {
                Err(_) => "err".into(),
                Ok(tg) => {
                    let disp = tg.to_string();
                    let bits: String = uni.iter().map(|m| ichar(<Targets as Filter<tracing_subscriber::Registry>>::callsite_enabled(&tg, m))).collect();
                    let mut we = String::new();
                    for tt in TARGETS.iter() {
                        for r in 1..=5 {
                            we.push(if tg.would_enable(tt, &tv_harness::synth::level_of_rank(r)) { '1' } else { '0' });
                        }
                    }
                    let re = disp.parse::<Targets>().map(|t2| t2 == tg).unwrap_or(false);
                    let h = <Targets as Filter<tracing_subscriber::Registry>>::max_level_hint(&tg);
                    format!("ok {} {} {} {} {}", tv_harness::hex(disp.as_bytes()), bits, we, hint(h), if re { 1 } else { 0 })
                }
            },
            "E" => match EnvFilter::builder().parse(&s) {
                Err(_) => "err".into(),
                Ok(f) => {
                    let bits: String = uni.iter().map(|m| ichar(<EnvFilter as Filter<tracing_subscriber::Registry>>::callsite_enabled(&f, m))).collect();
                    format!("ok {} {}", bits, hint(f.max_level_hint()))
                }
            },
            _ => "bad-op".into(),
        }
    });
}
