//! C11 / C08 executor: directive sets and filters queried over a fixed metadata universe.
//!   T <hex directives>   -> Targets: `err` | `ok <hex display> <enabled bits> <would_enable bits> <hint> <reparse-equal>`
//!   E <hex directives>   -> EnvFilter (static directives only): `err` | `ok <interest string> <hint>`
//! Universe (same order in the Lean driver): targets x ranks 1..5 x {span,event} x field sets.
use tracing_core::{collect::Interest, LevelFilter, Metadata};
use tracing_subscriber::filter::{EnvFilter, Targets};
use tracing_subscriber::subscribe::Filter;
use tv_harness::synth::mk_meta;

pub const TARGETS: [&str; 7] = ["app", "application", "app::db", "app::db::pool", "other", "", "ap"];
pub const FIELDSETS: [&[&str]; 4] = [&[], &["bar"], &["bar", "baz"], &["msg"]];

fn universe() -> Vec<&'static Metadata<'static>> {
    let mut v = Vec::new();
    for t in TARGETS.iter() {
        for r in 1..=5 {
            for ev in [false, true] {
                for fs in FIELDSETS.iter() {
                    let f: Vec<String> = fs.iter().map(|s| s.to_string()).collect();
                    v.push(mk_meta("m", t, r, ev, &f));
                }
            }
        }
    }
    v
}

fn hint(h: Option<LevelFilter>) -> String {
    match h {
        None => "-".into(),
        Some(f) => match f.into_level() {
            None => "0".into(),
            Some(l) => (if l == tracing_core::Level::ERROR { 1 } else if l == tracing_core::Level::WARN { 2 } else if l == tracing_core::Level::INFO { 3 } else if l == tracing_core::Level::DEBUG { 4 } else { 5 }).to_string(),
        },
    }
}

fn ichar(i: Interest) -> char {
    if i.is_always() { 'a' } else if i.is_never() { 'n' } else { 's' }
}

use std::cell::Cell;
use tracing_subscriber::filter::{dynamic_filter_fn, filter_fn, FilterExt};
use tracing_subscriber::subscribe::{CollectExt, Subscribe};
use tracing_subscriber::Registry;

thread_local! { static FLAG: Cell<bool> = const { Cell::new(false) }; }

type BoxF = Box<dyn Filter<Registry> + Send + Sync>;

fn lf(r: usize) -> LevelFilter {
    match r { 0 => LevelFilter::OFF, 1 => LevelFilter::ERROR, 2 => LevelFilter::WARN, 3 => LevelFilter::INFO, 4 => LevelFilter::DEBUG, _ => LevelFilter::TRACE }
}

fn rank_of(m: &Metadata<'_>) -> usize {
    let l = *m.level();
    if l == tracing_core::Level::ERROR { 1 } else if l == tracing_core::Level::WARN { 2 } else if l == tracing_core::Level::INFO { 3 } else if l == tracing_core::Level::DEBUG { 4 } else { 5 }
}

/// prefix expression: L<l> | T<hex> | E<hex> | F<pred><k>h<hint|-> | D<k>h<hint|->c<-|g> | N | S e | & e e | "|" e e | ! e | R e | B e
fn build(toks: &[&str], pos: &mut usize) -> BoxF {
    let t = toks[*pos];
    *pos += 1;
    let b = t.as_bytes();
    match b[0] {
        b'L' => Box::new(lf(t[1..].parse().unwrap())),
        b'T' => Box::new(tv_harness::unhex_str(&t[1..]).parse::<Targets>().expect("targets")),
        b'E' => Box::new(EnvFilter::builder().parse(tv_harness::unhex_str(&t[1..])).expect("env")),
        b'F' => {
            let pred = b[1] - b'0';
            let k: usize = (b[2] - b'0') as usize;
            let hint = &t[4..];
            let f = filter_fn(move |m| match pred {
                0 => rank_of(m) <= k,
                1 => m.target().contains("db") && rank_of(m) <= k,
                _ => m.is_span() && rank_of(m) <= k,
            });
            if hint == "-" { Box::new(f) } else { Box::new(f.with_max_level_hint(lf(hint.parse().unwrap()))) }
        }
        b'D' => {
            let k: usize = (b[1] - b'0') as usize;
            let rest = &t[3..];
            let (hint, cs) = rest.split_once('c').unwrap();
            let f = dynamic_filter_fn(move |m: &Metadata<'_>, _cx: &tracing_subscriber::subscribe::Context<'_, Registry>| FLAG.with(|f| f.get()) && rank_of(m) <= k);
            match (hint, cs) {
                ("-", "-") => Box::new(f),
                (h, "-") => Box::new(f.with_max_level_hint(lf(h.parse().unwrap()))),
                ("-", _) => Box::new(f.with_callsite_filter(move |m: &'static Metadata<'static>| if rank_of(m) <= k { Interest::sometimes() } else { Interest::never() })),
                (h, _) => Box::new(f.with_max_level_hint(lf(h.parse().unwrap())).with_callsite_filter(move |m: &'static Metadata<'static>| if rank_of(m) <= k { Interest::sometimes() } else { Interest::never() })),
            }
        }
        b'N' => Box::new(None::<BoxF>),
        b'S' => Box::new(Some(build(toks, pos))),
        b'&' => { let a = build(toks, pos); let c = build(toks, pos); Box::new(a.and(c)) }
        b'|' => { let a = build(toks, pos); let c = build(toks, pos); Box::new(a.or(c)) }
        b'!' => Box::new(build(toks, pos).not()),
        b'R' => { let (f, _h) = tracing_subscriber::reload::Subscriber::new(build(toks, pos)); Box::new(f) }
        b'B' => Box::new(build(toks, pos)),
        _ => panic!("bad expr token {}", t),
    }
}

thread_local! { static SEEN: Cell<usize> = const { Cell::new(0) }; }
struct Nop;
impl<C: tracing::Collect> Subscribe<C> for Nop {
    fn on_event(&self, _: &tracing::Event<'_>, _: tracing_subscriber::subscribe::Context<'_, C>) { SEEN.with(|s| s.set(s.get() + 1)); }
    fn on_new_span(&self, _: &tracing::span::Attributes<'_>, _: &tracing::span::Id, _: tracing_subscriber::subscribe::Context<'_, C>) { SEEN.with(|s| s.set(s.get() + 1)); }
}

/// the full emission protocol of the macros against a dispatch, for a synthetic metadata:
/// `enabled` → `event` / `new_span`(+close); returns whether the recording layer saw it
fn delivered(d: &tracing::Dispatch, m: &'static Metadata<'static>) -> bool {
    SEEN.with(|s| s.set(0));
    if d.enabled(m) {
        let vs = m.fields().value_set(&[]);
        if m.is_event() {
            d.event(&tracing::Event::new(m, &vs));
        } else {
            let id = d.new_span(&tracing::span::Attributes::new(m, &vs));
            d.try_close(id);
        }
    }
    SEEN.with(|s| s.get()) > 0
}

fn eval_expr(toks: &[&str], uni: &[&'static Metadata<'static>]) -> String {
    let mut p = 0;
    let direct = build(toks, &mut p);
    let mut p = 0;
    let inside = build(toks, &mut p);
    let cs: String = uni.iter().map(|m| ichar(direct.callsite_enabled(m))).collect();
    let h = hint(direct.max_level_hint());
    let d = tracing::Dispatch::new(tracing_subscriber::registry().with(Nop.with_filter(inside)));
    let mut en = [String::new(), String::new()];
    for (i, flag) in [false, true].iter().enumerate() {
        FLAG.with(|f| f.set(*flag));
        en[i] = uni.iter().map(|m| if delivered(&d, m) { '1' } else { '0' }).collect();
    }
    FLAG.with(|f| f.set(false));
    format!("ok {} {} {} {}", cs, h, en[0], en[1])
}

fn main() {
    let uni = universe();
    tv_harness::serve(|t| {
        let s = if t[0] == "X" { String::new() } else { tv_harness::unhex_str(t[1]) };
        match t[0] {
            "T" => match s.parse::<Targets>() {
                Err(_) => "err".into(),
                Ok(tg) => {
                    let disp = tg.to_string();
                    let bits: String = uni.iter().map(|m| ichar(<Targets as Filter<tracing_subscriber::Registry>>::callsite_enabled(&tg, m))).collect();
                    let mut we = String::new();
                    for tt in TARGETS.iter() {
                        for r in 1..=5 {
                            we.push(if tg.would_enable(tt, &tv_harness::synth::level_of_rank(r)) { '1' } else { '0' });
                        }
                    }
                    let re = disp.parse::<Targets>().map(|t2| t2 == tg).unwrap_or(false);
                    let h = <Targets as Filter<tracing_subscriber::Registry>>::max_level_hint(&tg);
                    format!("ok {} {} {} {} {}", tv_harness::hex(disp.as_bytes()), bits, we, hint(h), if re { 1 } else { 0 })
                }
            },
            "E" => match EnvFilter::builder().parse(&s) {
                Err(_) => "err".into(),
                Ok(f) => {
                    let bits: String = uni.iter().map(|m| ichar(<EnvFilter as Filter<tracing_subscriber::Registry>>::callsite_enabled(&f, m))).collect();
                    format!("ok {} {}", bits, hint(f.max_level_hint()))
                }
            },
            "X" => match std::panic::catch_unwind(std::panic::AssertUnwindSafe(|| eval_expr(&t[1..], &uni))) { Ok(s) => s, Err(_) => "PANIC".into() },
            _ => "bad-op".into(),
        }
    });
}
