//! C11 / C08 executor: directive sets and filters queried over a fixed metadata universe.
//!   T <hex directives>   -> Targets: `err` | `ok <hex display> <enabled bits> <would_enable bits> <hint> <reparse-equal>`
//!   E <hex directives>   -> EnvFilter (static directives only): `err` | `ok <interest string> <hint>`
//! Universe (same order in the Lean driver): targets x ranks 1..5 x {span,event} x field sets.
use tracing_core::{collect::Interest, LevelFilter, Metadata};
use tracing_subscriber::filter::{EnvFilter, Targets};
use tracing_subscriber::subscribe::Filter;
use tv_harness::synth::mk_meta;

fn hint(h: Option<LevelFilter>) -> String {
    match h {
        None => "-".into(),
        Some(f) => match f.into_level() {
            None => "0".into(),
            Some(l) => (if l == tracing_core::Level::ERROR { 1 } else if l == tracing_core::Level::WARN { 2 } else if l == tracing_core::Level::INFO { 3 } else if l == tracing_core::Level::DEBUG { 4 } else { 5 }).to_string(),
        },
    }
}

fn ichar(i: Interest) -> char {
    if i.is_always() { 'a' } else if i.is_never() { 'n' } else { 's' }
}

use tv_harness::fexpr::*;
use std::cell::Cell;
use tracing_subscriber::subscribe::{CollectExt, Subscribe};
use tracing_subscriber::Registry;
thread_local! { static SEEN: Cell<usize> = const { Cell::new(0) }; }
struct Nop;
impl<C: tracing::Collect> Subscribe<C> for Nop {
    fn on_event(&self, _: &tracing::Event<'_>, _: tracing_subscriber::subscribe::Context<'_, C>) { SEEN.with(|s| s.set(s.get() + 1)); }
    fn on_new_span(&self, _: &tracing::span::Attributes<'_>, _: &tracing::span::Id, _: tracing_subscriber::subscribe::Context<'_, C>) { SEEN.with(|s| s.set(s.get() + 1)); }
}

/// the full emission protocol of the macros against a dispatch, for a synthetic metadata:
/// `enabled` → `event` / `new_span`(+close); returns whether the recording layer saw it
fn delivered(d: &tracing::Dispatch, m: &'static Metadata<'static>) -> bool {
    SEEN.with(|s| s.set(0));
    if d.enabled(m) {
        let vs = m.fields().value_set(&[]);
        if m.is_event() {
            d.event(&tracing::Event::new(m, &vs));
        } else {
            let id = d.new_span(&tracing::span::Attributes::new(m, &vs));
            d.try_close(id);
        }
    }
    SEEN.with(|s| s.get()) > 0
}

fn eval_expr(toks: &[&str], uni: &[&'static Metadata<'static>]) -> String {
    let mut p = 0;
    let direct = build(toks, &mut p);
    let mut p = 0;
    let inside = build(toks, &mut p);
    let cs: String = uni.iter().map(|m| ichar(direct.callsite_enabled(m))).collect();
    let h = hint(direct.max_level_hint());
    let d = tracing::Dispatch::new(tracing_subscriber::registry().with(Nop.with_filter(inside)));
    let mut en = [String::new(), String::new()];
    for (i, flag) in [false, true].iter().enumerate() {
        FLAG.with(|f| f.set(*flag));
        en[i] = uni.iter().map(|m| if delivered(&d, m) { '1' } else { '0' }).collect();
    }
    FLAG.with(|f| f.set(false));
    format!("ok {} {} {} {}", cs, h, en[0], en[1])
}

fn main() {
    let uni = universe();
    tv_harness::serve(|t| {
        let s = if t[0] == "X" { String::new() } else { tv_harness::unhex_str(t[1]) };
        match t[0] {
            "T" => match s.parse::<Targets>() {
                Err(_) => "err".into(),
                Ok(tg) => {
                    let disp = tg.to_string();
                    let bits: String = uni.iter().map(|m| ichar(<Targets as Filter<tracing_subscriber::Registry>>::callsite_enabled(&tg, m))).collect();
                    let mut we = String::new();
                    for tt in TARGETS.iter() {
                        for r in 1..=5 {
                            we.push(if tg.would_enable(tt, &tv_harness::synth::level_of_rank(r)) { '1' } else { '0' });
                        }
                    }
                    let re = disp.parse::<Targets>().map(|t2| t2 == tg).unwrap_or(false);
                    let h = <Targets as Filter<tracing_subscriber::Registry>>::max_level_hint(&tg);
                    format!("ok {} {} {} {} {}", tv_harness::hex(disp.as_bytes()), bits, we, hint(h), if re { 1 } else { 0 })
                }
            },
            "E" => match EnvFilter::builder().parse(&s) {
                Err(_) => "err".into(),
                Ok(f) => {
                    let bits: String = uni.iter().map(|m| ichar(<EnvFilter as Filter<tracing_subscriber::Registry>>::callsite_enabled(&f, m))).collect();
                    format!("ok {} {}", bits, hint(f.max_level_hint()))
                }
            },
            "X" => match std::panic::catch_unwind(std::panic::AssertUnwindSafe(|| eval_expr(&t[1..], &uni))) { Ok(s) => s, Err(_) => "PANIC".into() },
            _ => "bad-op".into(),
        }
    });
}
