//! C15 executor: the real `NonBlocking` writer over a scripted, gated underlying writer.
//!   cap=<n> lossy=<0|1> ;; op ; op ; …
//!   ops: of <p> <id> | ofb <p> <id> (offer on a background thread: may block) | jb (join it)
//!        | gw ok|fail (let the pending write_all finish) | gf ok|fail (let the pending flush finish)
//!        | drop (drop the WorkerGuard on a background thread) | end
//!   an op may end with `+<event>` tokens (`+p`: the blocked producer has got in): wait (<= 3 s) until the writer has logged that event
//!   (`aw<id>` arrived in write_all, `af` arrived in flush, `x` writer dropped)
//! One case per process (threads may be left blocked on purpose).
use std::collections::VecDeque;
use std::io::{self, Write};
use std::sync::{Arc, Condvar, Mutex};
use std::time::{Duration, Instant};
use tracing_appender::non_blocking::NonBlockingBuilder;

struct G { log: Vec<String>, permits: VecDeque<(char, bool)>, short: usize, cur: Vec<u8>, wb: bool }
struct Shared { m: Mutex<G>, cv: Condvar }
struct Gated(Arc<Shared>);

impl Gated {
    fn gate(&self, kind: char, arrive: String, done: &str) -> bool {
        let mut g = self.0.m.lock().unwrap();
        g.log.push(arrive);
        self.0.cv.notify_all();
        loop {
            if let Some(pos) = g.permits.iter().position(|(k, _)| *k == kind) {
                let (_, ok) = g.permits.remove(pos).unwrap();
                g.log.push(format!("{}:{}", done, if ok { "ok" } else { "err" }));
                self.0.cv.notify_all();
                return ok;
            }
            g = self.0.cv.wait(g).unwrap();
        }
    }
}
impl Write for Gated {
    fn write(&mut self, buf: &[u8]) -> io::Result<usize> {
        // short writes (`short` > 0): the writer takes at most `short` bytes per call, as a pipe or a socket may; a line has
        // arrived — and its write is gated — when its last byte has
        let (take, whole) = {
            let mut g = self.0.m.lock().unwrap();
            let take = if g.short > 0 { buf.len().min(g.short) } else { buf.len() };
            if buf.first() == Some(&b'L') && !g.cur.is_empty() {
                // a new line starts although the previous one never got its tail: that line was written torn
                let torn = String::from_utf8_lossy(&g.cur).trim().trim_start_matches('L').to_string();
                g.log.push(format!("torn{}", torn));
                g.cur.clear();
            }
            g.cur.extend_from_slice(&buf[..take]);
            let whole = if g.cur.ends_with(b"\n") { Some(std::mem::take(&mut g.cur)) } else { None };
            (take, whole)
        };
        let whole = match whole { Some(w) => w, None => return Ok(take) };
        let id = String::from_utf8_lossy(&whole).trim().trim_start_matches('L').to_string();
        // a scripted failure of a line whose head the writer had already accepted (short writes) is, in every other case, the
        // failure of a non-blocking pipe: `WouldBlock` (what was accepted stays written; the line is lost like any failed one)
        let wb = self.0.m.lock().unwrap().wb;
        if self.gate('w', format!("aw{}", id), &format!("w{}", id)) { Ok(take) } else { Err(io::Error::new(if wb { io::ErrorKind::WouldBlock } else { io::ErrorKind::Other }, "scripted")) }
    }
    fn flush(&mut self) -> io::Result<()> {
        if self.gate('f', "af".into(), "f") { Ok(()) } else { Err(io::Error::new(io::ErrorKind::Other, "scripted")) }
    }
}
impl Drop for Gated {
    fn drop(&mut self) { self.0.m.lock().unwrap().log.push("x".into()); self.0.cv.notify_all(); }
}

fn wait_for(sh: &Arc<Shared>, from: usize, what: &str) -> bool {
    let deadline = Instant::now() + Duration::from_secs(3);
    let mut g = sh.m.lock().unwrap();
    loop {
        if g.log[from.min(g.log.len())..].iter().any(|e| e == what) { return true; }
        let now = Instant::now();
        if now >= deadline { return false; }
        g = sh.cv.wait_timeout(g, deadline - now).unwrap().0;
    }
}

fn main() {
    let mut line = String::new();
    std::io::stdin().read_line(&mut line).unwrap();
    let toks: Vec<&str> = line.split_whitespace().collect();
    let sep = toks.iter().position(|t| *t == ";;").expect(";;");
    let cap: usize = toks[0].trim_start_matches("cap=").parse().unwrap();
    let lossy = toks[1] == "lossy=1";
    // (the pacing of the underlying writer is a function of the script, so that the model needs no extra input: whole writes,
    //  or at most 1 / 2 bytes per call)
    let short = toks.len() % 3;
    let sh = Arc::new(Shared { m: Mutex::new(G { log: Vec::new(), permits: VecDeque::new(), short, cur: Vec::new(), wb: short > 0 && toks.len() % 2 == 0 }), cv: Condvar::new() });
    // the builder's options in either order, with or without a name for the worker thread (a function of the script)
    let b = match toks.len() % 4 {
        0 => NonBlockingBuilder::default().buffered_lines_limit(cap).lossy(lossy),
        1 => NonBlockingBuilder::default().lossy(lossy).buffered_lines_limit(cap).thread_name("tv-worker"),
        2 => NonBlockingBuilder::default().thread_name("tv-worker").buffered_lines_limit(cap).lossy(lossy),
        _ => NonBlockingBuilder::default().buffered_lines_limit(cap).thread_name("tv-worker").lossy(lossy),
    };
    let (nb, guard) = b.finish(Gated(sh.clone()));
    let counter = nb.error_counter();
    let mut guard = Some(guard);
    let mut drop_thread: Option<std::thread::JoinHandle<()>> = None;
    let mut blocked: Option<std::thread::JoinHandle<bool>> = None;
    let mut outs: Vec<String> = Vec::new();
    let mut dropf_pending = false;
    for op in toks[sep + 1..].split(|t| *t == ";") {
        if op.is_empty() { continue; }
        let nplus = op.iter().rev().take_while(|t| t.starts_with('+')).count();
        let (op, waits): (&[&str], Vec<&str>) = (&op[..op.len() - nplus], op[op.len() - nplus..].iter().map(|t| &t[1..]).collect());
        let cursor = sh.m.lock().unwrap().log.len();
        let mut out = match op[0] {
            "of" => {
                let before = counter.dropped_lines();
                let mut w = nb.clone();
                let r = w.write_all(format!("L{}\n", op[2]).as_bytes());
                if r.is_err() { "e".to_string() } else if counter.dropped_lines() > before { "d".into() } else { "a".into() }
            }
            "ofb" => {
                let mut w = nb.clone();
                let l = format!("L{}\n", op[2]);
                let entered = Arc::new(std::sync::atomic::AtomicBool::new(false));
                let e2 = entered.clone();
                blocked = Some(std::thread::spawn(move || { e2.store(true, std::sync::atomic::Ordering::SeqCst); w.write_all(l.as_bytes()).is_ok() }));
                // let the producer reach its (blocking) send before anything else happens
                while !entered.load(std::sync::atomic::Ordering::SeqCst) { std::thread::yield_now(); }
                std::thread::sleep(Duration::from_millis(30));
                "-".into()
            }
            "jb" => match blocked.take() { Some(h) => if h.join().unwrap() { "a".into() } else { "e".into() }, None => "-".into() },
            "gw" | "gf" => {
                let kind = if op[0] == "gw" { 'w' } else { 'f' };
                {
                    let mut g = sh.m.lock().unwrap();
                    g.permits.push_back((kind, op[1] == "ok"));
                    sh.cv.notify_all();
                }
                // the completion entry
                let deadline = Instant::now() + Duration::from_secs(3);
                let mut g = sh.m.lock().unwrap();
                loop {
                    let hit = g.log[cursor..].iter().find(|e| (kind == 'w' && e.starts_with('w')) || (kind == 'f' && e.starts_with("f:"))).cloned();
                    if let Some(h) = hit { break h; }
                    let now = Instant::now();
                    if now >= deadline { break "TIMEOUT".to_string(); }
                    g = sh.cv.wait_timeout(g, deadline - now).unwrap().0;
                }
            }
            "drop" | "dropf" => {
                // (`dropf`: the queue is full — the guard waits in `send_timeout` for room, which the next gate op makes)
                if op[0] == "dropf" { dropf_pending = true; }
                if let Some(gd) = guard.take() {
                    let entered = Arc::new(std::sync::atomic::AtomicBool::new(false));
                    let e2 = entered.clone();
                    drop_thread = Some(std::thread::spawn(move || { e2.store(true, std::sync::atomic::Ordering::SeqCst); drop(gd) }));
                    // the guard's first action is to enqueue Shutdown (immediate: the generator drops only when there is
                    // room); it cannot be observed from outside, so give the thread a moment once it has started
                    while !entered.load(std::sync::atomic::Ordering::SeqCst) { std::thread::yield_now(); }
                    std::thread::sleep(Duration::from_millis(30));
                }
                "-".into()
            }
            "end" => {
                let exited = sh.m.lock().unwrap().log.iter().any(|e| e == "x");
                if exited { if let Some(h) = drop_thread.take() { let _ = h.join(); } }
                let torn: Vec<String> = sh.m.lock().unwrap().log.iter().filter(|e| e.starts_with("torn")).cloned().collect();
                format!("dropped={},writerdropped={}{}", counter.dropped_lines(), if exited { 1 } else { 0 }, if torn.is_empty() { String::new() } else { format!(",{}", torn.join(",")) })
            }
            _ => "bad-op".into(),
        };
        for w in waits {
            if w == "p" {
                // the producer that was blocked on a full queue has got in
                let deadline = Instant::now() + Duration::from_secs(3);
                while blocked.as_ref().map(|h| !h.is_finished()).unwrap_or(false) && Instant::now() < deadline { std::thread::sleep(Duration::from_millis(1)); }
                if blocked.as_ref().map(|h| !h.is_finished()).unwrap_or(false) { out.push_str(":NOWAIT"); }
                continue;
            }
            if !wait_for(&sh, cursor, w) { out.push_str(":NOWAIT"); }
            if w == "x" { if let Some(h) = drop_thread.take() { let _ = h.join(); } }
        }
        if dropf_pending && (op[0] == "gw" || op[0] == "gf") {
            // room has been made: the waiting guard enqueues its Shutdown now (not observable from outside: give it a moment)
            std::thread::sleep(Duration::from_millis(30));
            dropf_pending = false;
        }
        let stuck = out.contains("NOWAIT") || out.contains("TIMEOUT");
        outs.push(out);
        // the script has left the state machine it was generated for: nothing after this point means anything (and every
        // further wait would run into its time limit)
        if stuck { break; }
    }
    println!("{}", outs.join(" "));
    // threads that are still blocked (a guard whose worker never exits, a producer on a full queue) are abandoned
    std::process::exit(0);
}
