//! C03 executor: programs over the real `tracing::Span` API (handles, guards, in_scope,
//! Span::current, or_current, Instrumented futures, cross-thread moves) under recording
//! collectors; prints every collector call in order.
use std::cell::RefCell;
use std::collections::HashMap;
use std::future::Future;
use std::pin::Pin;
use std::sync::atomic::{AtomicU64, Ordering};
use std::sync::mpsc::{channel, Receiver, Sender};
use std::sync::{Arc, Mutex};
use std::task::{Context, Poll, Waker};
use tracing::instrument::{Instrument, Instrumented};
use tracing::span::EnteredSpan;
use tracing::{Dispatch, Span};
use tracing_core::{collect::Interest, span, Collect, Event, LevelFilter, Metadata};

thread_local! {
    static TID: RefCell<usize> = const { RefCell::new(0) };
    static GUARDS: RefCell<HashMap<usize, EnteredSpan>> = RefCell::new(HashMap::new());
}

struct RecC {
    name: usize,
    max: LevelFilter,
    next: AtomicU64,
    log: Arc<Mutex<Vec<String>>>,
    stacks: Mutex<HashMap<usize, Vec<u64>>>,
}

impl RecC {
    fn push(&self, s: String) {
        self.log.lock().unwrap().push(format!("{}:{}", self.name, s));
    }
}

impl Collect for RecC {
    fn register_callsite(&self, _: &'static Metadata<'static>) -> Interest { Interest::sometimes() }
    fn enabled(&self, meta: &Metadata<'_>) -> bool { *meta.level() <= self.max }
    fn max_level_hint(&self) -> Option<LevelFilter> { None }
    fn new_span(&self, _: &span::Attributes<'_>) -> span::Id {
        let id = self.next.fetch_add(1, Ordering::SeqCst);
        self.push(format!("new:{}", id));
        span::Id::from_u64(id)
    }
    fn clone_span(&self, id: &span::Id) -> span::Id {
        self.push(format!("clone:{}", id.into_u64()));
        id.clone()
    }
    fn try_close(&self, id: span::Id) -> bool {
        self.push(format!("close:{}", id.into_u64()));
        false
    }
    fn record(&self, id: &span::Id, _: &span::Record<'_>) { self.push(format!("rec:{}", id.into_u64())); }
    fn record_follows_from(&self, id: &span::Id, f: &span::Id) { self.push(format!("fol:{}<{}", id.into_u64(), f.into_u64())); }
    fn event(&self, _: &Event<'_>) {}
    fn enter(&self, id: &span::Id) {
        let t = TID.with(|t| *t.borrow());
        self.stacks.lock().unwrap().entry(t).or_default().push(id.into_u64());
        self.push(format!("enter:{}@{}", id.into_u64(), t));
    }
    fn exit(&self, id: &span::Id) {
        let t = TID.with(|t| *t.borrow());
        let mut st = self.stacks.lock().unwrap();
        let v = st.entry(t).or_default();
        if let Some(p) = v.iter().rposition(|x| *x == id.into_u64()) { v.remove(p); }
        drop(st);
        self.push(format!("exit:{}@{}", id.into_u64(), t));
    }
    fn current_span(&self) -> span::Current {
        let t = TID.with(|t| *t.borrow());
        match self.stacks.lock().unwrap().get(&t).and_then(|v| v.last().copied()) {
            Some(id) => span::Current::new(span::Id::from_u64(id), META.get().expect("meta")),
            None => span::Current::none(),
        }
    }
}

static META: std::sync::OnceLock<&'static Metadata<'static>> = std::sync::OnceLock::new();

struct Never(#[allow(dead_code)] Option<tracing::Span>);   // never completes; may own a span handle, released when the future is dropped
impl Future for Never {
    type Output = ();
    fn poll(self: Pin<&mut Self>, _: &mut Context<'_>) -> Poll<()> { Poll::Pending }
}

/// an instrumented future: through `tracing::Instrument` (even numbers) or through `tracing_futures::Instrument` (odd numbers)
enum Fut {
    T(Pin<Box<Instrumented<Never>>>),
    F(Pin<Box<tracing_futures::Instrumented<Never>>>),
}

type Job = Box<dyn FnOnce() + Send>;

fn worker(tid: usize, rx: Receiver<(Job, Option<Dispatch>)>, tx: Sender<()>) {
    TID.with(|t| *t.borrow_mut() = tid);
    for (job, d) in rx {
        match d {
            Some(d) => tracing::dispatch::with_default(&d, job),
            None => tracing::dispatch::with_default(&Dispatch::none(), job),
        }
        tx.send(()).unwrap();
    }
}

struct World {
    handles: HashMap<usize, Span>,
    futures: HashMap<usize, Fut>,
}

fn run_program(line: &str) -> String {
    let log = Arc::new(Mutex::new(Vec::new()));
    // the collector is installed as it is, type-erased in a Box, or in an Arc (a function of the program, so that the model
    // needs no extra input): what reaches it must not depend on that
    let erase = line.len() % 3;
    let mk = |name: usize, max: LevelFilter| {
        let c = RecC { name, max, next: AtomicU64::new(1), log: log.clone(), stacks: Mutex::new(HashMap::new()) };
        match erase {
            1 => Dispatch::new(Box::new(c) as Box<dyn tracing_core::Collect + Send + Sync>),
            2 => Dispatch::new(Arc::new(c)),
            _ => Dispatch::new(c),
        }
    };
    // collector 1 accepts everything, collector 2 accepts INFO and above only
    let collectors: HashMap<usize, Dispatch> = [(1, mk(1, LevelFilter::TRACE)), (2, mk(2, LevelFilter::INFO))].into_iter().collect();
    let world = Arc::new(Mutex::new(World { handles: HashMap::new(), futures: HashMap::new() }));
    let mut threads: Vec<(Sender<(Job, Option<Dispatch>)>, Receiver<()>)> = Vec::new();
    let mut dflt: Vec<Option<usize>> = Vec::new();
    for op in line.split(';') {
        let a: Vec<String> = op.split_ascii_whitespace().map(|s| s.to_string()).collect();
        if a.is_empty() { continue; }
        let t: usize = match a[0].as_str() { "cl" | "in" => 0, _ => a[1].parse().unwrap() };
        while threads.len() <= t {
            let (jtx, jrx) = channel();
            let (dtx, drx) = channel();
            let tid = threads.len();
            std::thread::spawn(move || worker(tid, jrx, dtx));
            threads.push((jtx, drx));
            dflt.push(None);
        }
        if a[0] == "sd" {
            dflt[t] = if a[2] == "-" { None } else { Some(a[2].parse().unwrap()) };
            continue;
        }
        let w = world.clone();
        let job: Job = Box::new(move || {
            let n = |i: usize| -> usize { a[i].parse().unwrap() };
            match a[0].as_str() {
                "ns" => {
                    let s = if n(3) <= 3 { tracing::info_span!("s", f = tracing::field::Empty) } else { tracing::debug_span!("s", f = tracing::field::Empty) };
                    if let Some(m) = s.metadata() { let _ = META.set(m); }
                    w.lock().unwrap().handles.insert(n(2), s);
                }
                "nsg" => {
                    // a new span whose explicit parent is given as a reference to an entered guard of this thread
                    let s = GUARDS.with(|m| m.borrow().get(&n(4)).map(|g| if n(3) <= 3 { tracing::info_span!(parent: g, "s", f = tracing::field::Empty) } else { tracing::debug_span!(parent: g, "s", f = tracing::field::Empty) }));
                    let s = s.unwrap_or_else(|| if n(3) <= 3 { tracing::info_span!("s", f = tracing::field::Empty) } else { tracing::debug_span!("s", f = tracing::field::Empty) });
                    w.lock().unwrap().handles.insert(n(2), s);
                }
                "ffg" => {
                    let g = w.lock().unwrap();
                    if let Some(s) = g.handles.get(&n(2)) { GUARDS.with(|m| if let Some(gd) = m.borrow().get(&n(3)) { s.follows_from(gd); }); }
                }
                "cl" => {
                    let c = w.lock().unwrap().handles.get(&n(1)).cloned();
                    if let Some(c) = c { w.lock().unwrap().handles.insert(n(2), c); }
                }
                "dr" => { let s = w.lock().unwrap().handles.remove(&n(2)); drop(s); }
                "cf" => {
                    // `cf t a b n`: handle a is OVERWRITTEN with a clone of handle b (`Clone::clone_from`); the result is handle n
                    let mut g = w.lock().unwrap();
                    if let Some(mut a) = g.handles.remove(&n(2)) {
                        if let Some(b) = g.handles.get(&n(3)) { a.clone_from(b); }
                        g.handles.insert(n(4), a);
                    }
                }
                "drp" => {
                    // the handle is dropped while its thread is unwinding (a local of a frame a caught panic unwinds through)
                    let s = w.lock().unwrap().handles.remove(&n(2));
                    let _ = std::panic::catch_unwind(std::panic::AssertUnwindSafe(move || { let _held = s; std::panic::resume_unwind(Box::new("scripted")); }));
                }
                "en" => {
                    let s = w.lock().unwrap().handles.remove(&n(2));
                    if let Some(s) = s { let g = s.entered(); GUARDS.with(|m| m.borrow_mut().insert(n(3), g)); }
                }
                "xt" => {
                    let g = GUARDS.with(|m| m.borrow_mut().remove(&n(2)));
                    if let Some(g) = g { let s = g.exit(); w.lock().unwrap().handles.insert(n(3), s); }
                }
                "dg" => { let g = GUARDS.with(|m| m.borrow_mut().remove(&n(2))); drop(g); }
                "is" => {
                    let s = w.lock().unwrap().handles.remove(&n(2));
                    if let Some(s) = s { s.in_scope(|| ()); w.lock().unwrap().handles.insert(n(2), s); }
                }
                "isp" => {
                    // in_scope whose closure unwinds (the panic is caught here): the span is still exited
                    let s = w.lock().unwrap().handles.remove(&n(2));
                    if let Some(s) = s {
                        let _ = std::panic::catch_unwind(std::panic::AssertUnwindSafe(|| s.in_scope(|| -> () { std::panic::panic_any(()) })));
                        w.lock().unwrap().handles.insert(n(2), s);
                    }
                }
                "rc" => { let mut g = w.lock().unwrap(); if let Some(s) = g.handles.get_mut(&n(2)) { s.record("f", 1u64); } }
                "ff" => {
                    let g = w.lock().unwrap();
                    if let (Some(s), Some(s2)) = (g.handles.get(&n(2)), g.handles.get(&n(3))) { s.follows_from(s2); }
                }
                "cu" => { let s = Span::current(); w.lock().unwrap().handles.insert(n(2), s); }
                "oc" => {
                    let s = w.lock().unwrap().handles.remove(&n(2));
                    if let Some(s) = s { let s2 = s.or_current(); w.lock().unwrap().handles.insert(n(3), s2); }
                }
                "in" => {
                    let s = w.lock().unwrap().handles.remove(&n(1));
                    if let Some(s) = s { let held = if a.len() > 3 { w.lock().unwrap().handles.remove(&n(3)) } else { None }; let fut = if n(2) % 2 == 0 { Fut::T(Box::pin(Never(held).instrument(s))) } else { Fut::F(Box::pin(tracing_futures::Instrument::instrument(Never(held), s))) }; w.lock().unwrap().futures.insert(n(2), fut); }
                }
                "po" => {
                    let f = w.lock().unwrap().futures.remove(&n(2));
                    if let Some(mut f) = f {
                        let mut cx = Context::from_waker(Waker::noop());
                        match &mut f { Fut::T(x) => { let _ = x.as_mut().poll(&mut cx); } Fut::F(x) => { let _ = x.as_mut().poll(&mut cx); } }
                        w.lock().unwrap().futures.insert(n(2), f);
                    }
                }
                "df" => { let f = w.lock().unwrap().futures.remove(&n(2)); drop(f); }
                "ii" => {
                    // `into_inner()`: the wrapper is taken apart (its span handle dropped, no enter / exit), then the inner
                    // future — with what it owns — is dropped
                    let f = w.lock().unwrap().futures.remove(&n(2));
                    match f {
                        Some(Fut::T(x)) => { let inner = (*Pin::into_inner(x)).into_inner(); drop(inner); }
                        Some(Fut::F(x)) => { let inner = (*Pin::into_inner(x)).into_inner(); drop(inner); }
                        None => {}
                    }
                }
                _ => {}
            }
        });
        let d = dflt[t].and_then(|c| collectors.get(&c).cloned());
        threads[t].0.send((job, d)).unwrap();
        threads[t].1.recv().unwrap();
    }
    let out = log.lock().unwrap().join(" ");
    // leak whatever the program still holds: teardown order is not part of the case
    std::mem::forget(world);
    if out.is_empty() { "-".into() } else { out }
}

fn main() {
    if std::env::var("TV_QUIET_PANIC").is_ok() { std::panic::set_hook(Box::new(|_| {})); }
    tv_harness::serve(|toks| {
        let line = toks.join(" ");
        match std::panic::catch_unwind(|| run_program(&line)) { Ok(s) => s, Err(_) => "PANIC".into() }
    });
}
