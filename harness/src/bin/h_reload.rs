//! C12 executor.  ONE history per process (the callsite interest cache and MAX_LEVEL are
//! process-global and the emissions come from real macro callsites).
//!   <stack> ;; op ; op ; …
//!   stack (innermost first, composed with and_then over the Registry):
//!     P<n> | G<leaf> | F<n> <expr…> . | RG<h>:<leaf> | RF<h>:<n> <expr…> .
//!   ops: em <t> <cs> <ctx> | rl <h> <leaf or expr…> | cur | dropc
//! A line `T` prints the pool's metadata table instead.
use std::sync::mpsc::{channel, Receiver, Sender};
use std::sync::Mutex;
use tracing::{Dispatch, Event};
use tracing_core::{span, LevelFilter, Metadata};
use tracing_subscriber::reload;
use tracing_subscriber::subscribe::{CollectExt, Context, Subscribe};
use tracing_subscriber::Registry;
use tv_harness::fexpr::*;
use tv_harness::pool;

static LOG: Mutex<Vec<usize>> = Mutex::new(Vec::new());
static METAS: Mutex<Vec<String>> = Mutex::new(Vec::new());

struct Rec(usize);
impl<C: tracing::Collect + for<'a> tracing_subscriber::registry::LookupSpan<'a>> Subscribe<C> for Rec {
    fn on_event(&self, _: &Event<'_>, _: Context<'_, C>) { LOG.lock().unwrap().push(self.0); }
    fn on_new_span(&self, _: &span::Attributes<'_>, _: &span::Id, _: Context<'_, C>) { LOG.lock().unwrap().push(self.0); }
}

/// records the metadata of everything it is offered (for the `T` line)
struct MetaRec;
impl<C: tracing::Collect> Subscribe<C> for MetaRec {
    fn register_callsite(&self, m: &'static Metadata<'static>) -> tracing_core::collect::Interest {
        let mut names: Vec<&str> = m.fields().iter().map(|f| f.name()).collect();
        names.sort();
        METAS.lock().unwrap().push(format!("{}:{}/{}/{}/{}", pool::cs_index(m), m.target(), rank_of(m), if m.is_event() { "e" } else { "s" }, names.join("+")));
        tracing_core::collect::Interest::always()
    }
}

enum H {
    G(reload::Handle<BoxS>),
    F(reload::Handle<BoxF>),
}

fn build_stack(toks: &[&str], handles: &mut Vec<(usize, H)>) -> Dispatch {
    let mut acc: Option<BoxS> = None;
    let mut i = 0;
    while i < toks.len() {
        let t = toks[i];
        let l: BoxS = if let Some(rest) = t.strip_prefix("RG") {
            let (h, leaf) = rest.split_once(':').expect("RG<h>:<leaf>");
            let (s, handle) = reload::Subscriber::new(build_global(leaf));
            handles.push((h.parse().unwrap(), H::G(handle)));
            i += 1;
            Box::new(s)
        } else if let Some(rest) = t.strip_prefix("RF") {
            let (h, n) = rest.split_once(':').expect("RF<h>:<n>");
            let end = i + 1 + toks[i + 1..].iter().position(|x| *x == ".").expect("terminator");
            let mut p = 0;
            let f = build(&toks[i + 1..end], &mut p);
            let (s, handle) = reload::Subscriber::new(f);
            handles.push((h.parse().unwrap(), H::F(handle)));
            i = end + 1;
            Box::new(Rec(n.parse().unwrap()).with_filter(s))
        } else {
            match t.as_bytes()[0] {
                b'P' => { i += 1; Box::new(Rec(t[1..].parse().unwrap())) }
                b'G' => { i += 1; build_global(&t[1..]) }
                b'F' => {
                    let n: usize = t[1..].parse().unwrap();
                    let end = i + 1 + toks[i + 1..].iter().position(|x| *x == ".").expect("terminator");
                    let mut p = 0;
                    let f = build(&toks[i + 1..end], &mut p);
                    i = end + 1;
                    Box::new(Rec(n).with_filter(f))
                }
                _ => panic!("bad stack token {}", t),
            }
        };
        acc = Some(match acc { None => l, Some(a) => Box::new(a.and_then(l)) });
    }
    Dispatch::new(tracing_subscriber::registry().with(acc.expect("at least one layer")))
}

enum Cmd { Hit(usize, bool), Quit }

fn worker(d: Dispatch, rx: Receiver<Cmd>, tx: Sender<()>) {
    tracing::dispatch::with_default(&d, || {
        for cmd in rx.iter() {
            match cmd {
                Cmd::Hit(cs, c) => { FLAG.with(|f| f.set(c)); pool::hit(cs); FLAG.with(|f| f.set(false)); tx.send(()).unwrap(); }
                Cmd::Quit => break,
            }
        }
    });
    drop(d);
    let _ = tx.send(());
}

fn take_log() -> String {
    let mut l = LOG.lock().unwrap();
    let mut v: Vec<usize> = l.drain(..).collect();
    v.sort();
    v.iter().map(|n| n.to_string()).collect::<Vec<_>>().join(".")
}

fn rank_filter(l: LevelFilter) -> usize {
    if l == LevelFilter::OFF { 0 } else if l == LevelFilter::ERROR { 1 } else if l == LevelFilter::WARN { 2 } else if l == LevelFilter::INFO { 3 } else if l == LevelFilter::DEBUG { 4 } else { 5 }
}

fn main() {
    let mut line = String::new();
    std::io::stdin().read_line(&mut line).unwrap();
    let toks: Vec<&str> = line.split_whitespace().collect();
    if toks == ["T"] {
        let d = Dispatch::new(tracing_subscriber::registry().with(MetaRec));
        tracing::dispatch::with_default(&d, || for cs in 0..pool::NCS { pool::hit(cs); });
        let mut m = METAS.lock().unwrap().clone();
        m.sort_by_key(|s| s.split(':').next().unwrap().parse::<usize>().unwrap());
        println!("{}", m.join(" "));
        return;
    }
    let sep = toks.iter().position(|t| *t == ";;").expect(";;");
    let mut handles: Vec<(usize, H)> = Vec::new();
    let mut spare_g: Vec<reload::Handle<BoxS>> = Vec::new();
    let mut spare_f: Vec<reload::Handle<BoxF>> = Vec::new();
    let d = build_stack(&toks[..sep], &mut handles);
    let mut guard = Some(tracing::dispatch::set_default(&d));
    let mut workers: Vec<(Sender<Cmd>, Receiver<()>, std::thread::JoinHandle<()>)> = Vec::new();
    for _ in 0..2 {
        let (ctx, crx) = channel();
        let (rtx, rrx) = channel();
        let dc = d.clone();
        let h = std::thread::spawn(move || worker(dc, crx, rtx));
        workers.push((ctx, rrx, h));
    }
    let mut d = Some(d);
    let mut outs: Vec<String> = Vec::new();
    for op in toks[sep + 1..].split(|t| *t == ";") {
        if op.is_empty() { continue; }
        match op[0] {
            "em" => {
                let t: usize = op[1].parse().unwrap();
                let cs: usize = op[2].parse().unwrap();
                let c = op[3] == "1";
                if t == 0 || d.is_none() {
                    FLAG.with(|f| f.set(c)); pool::hit(cs); FLAG.with(|f| f.set(false));
                } else {
                    workers[t - 1].0.send(Cmd::Hit(cs, c)).unwrap();
                    workers[t - 1].1.recv().unwrap();
                }
                outs.push(format!("e:{}", take_log()));
            }
            "rl" => {
                let h: usize = op[1].parse().unwrap();
                // (every second reload goes through a CLONE of the handle, made for the occasion and kept alive: a handle is a
                //  handle, however many of them there are)
                let r = match &handles.iter().find(|(k, _)| *k == h).expect("handle").1 {
                    H::G(handle) => { let hc = handle.clone(); let r = if op.len() % 2 == 0 { hc.reload(build_global(op[2])).is_ok() } else { handle.reload(build_global(op[2])).is_ok() }; spare_g.push(hc); r }
                    H::F(handle) => { let mut p = 0; let hc = handle.clone(); let v = build(&op[2..], &mut p); let r = if toks.len() % 2 == 0 { hc.reload(v).is_ok() } else { handle.reload(v).is_ok() }; spare_f.push(hc); r }
                };
                outs.push(format!("r:{}", if r { "ok" } else { "err" }));
            }
            "cur" => outs.push(format!("c:{}", rank_filter(LevelFilter::current()))),
            "dropc" => {
                for (tx, rx, h) in workers.drain(..) { tx.send(Cmd::Quit).unwrap(); rx.recv().unwrap(); h.join().unwrap(); }
                guard.take();
                d.take();
                outs.push("-".into());
            }
            _ => outs.push("bad-op".into()),
        }
    }
    for (tx, rx, h) in workers.drain(..) { tx.send(Cmd::Quit).unwrap(); rx.recv().unwrap(); h.join().unwrap(); }
    println!("{}", outs.join(" "));
}
