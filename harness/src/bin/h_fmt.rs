//! C13 / C14 executor: the real fmt subscriber with a writer expression over recording sinks.
//!   <cfg> ;; <writer expr, prefix> ;; op ; op ; …
//!   cfg:   full|compact|pretty|json  t<0|1> l<0|1> i<0|1> n<0|1> f<0|1> L<0|1> s<mask>   (+ json: c<0|1> span, S<0|1> span list, F<0|1> flatten)
//!   wexpr: S<k> | M<l> e | m<l> e | Fl<k> e | Ft<t> e | Fn<t> e | T e e | O e e | B e
//!   ops:   ev <lvl> <tgt> <fields|-> | sp <k> <lvl> <tgt> <hex name> <fields|-> | en k | ex k | cl k | rc k <fields>  (record into declared fields)
//!          | pe <lvl> <tgt>  (an event whose field's Debug impl panics; the panic is caught)
//!          | mt <threads> <events>   (concurrent emission)
//!          | ne <lvl> <tgt> <lvl2> <tgt2>   (an event whose field's Debug impl emits the event <lvl2> <tgt2> through the same
//!            dispatcher WHILE the outer event is being formatted — the thread-local format buffer is busy)
//!   fields: <hex name>=i<int>|u<uint>|f<float|nan|inf|-inf>|s<hex str>|b<0|1>|d<hex str> (Debug)|e (declared, empty), comma separated
//! Output per op: the sinks' call log since the previous op: `k:f<lvl>.<tgt>` (make_writer_for), `k:p` (make_writer),
//! `k:w<hex>` (one write call).
use std::collections::HashMap;
use std::io;
use std::sync::{Arc, Mutex};
use tracing::{Dispatch, Event};
use tracing_core::{field::Value, span, Metadata};
use tracing_subscriber::fmt::format::FmtSpan;
use tracing_subscriber::fmt::writer::{BoxMakeWriter, MakeWriter, MakeWriterExt};
use tracing_subscriber::subscribe::CollectExt;
use tv_harness::fexpr::{rank_of, TARGETS};
use tv_harness::synth::mk_meta;
use tv_harness::{hex, unhex_str};

type Log = Arc<Mutex<Vec<String>>>;

#[derive(Clone)]
struct Sink(usize, Log);
struct SinkWriter(usize, Log, Option<usize>);
/// in every other case the sinks accept only part of what they are handed (`io::Write::write` may do that); what one writer
/// accepted in consecutive calls is logged as ONE write, so a caller that writes everything leaves the same log either way
static SHORT: std::sync::atomic::AtomicBool = std::sync::atomic::AtomicBool::new(false);
impl io::Write for SinkWriter {
    fn write(&mut self, buf: &[u8]) -> io::Result<usize> {
        let k = if SHORT.load(std::sync::atomic::Ordering::Relaxed) && buf.len() > 1 { (buf.len() * 2 / 3).max(1) } else { buf.len() };
        let mut l = self.1.lock().unwrap();
        match self.2 {
            Some(i) if i < l.len() => l[i].push_str(&hex(&buf[..k])),
            _ => { self.2 = Some(l.len()); l.push(format!("{}:w{}", self.0, hex(&buf[..k]))) }
        }
        Ok(k)
    }
    fn flush(&mut self) -> io::Result<()> { Ok(()) }
}
fn tgt_index(m: &Metadata<'_>) -> usize { TARGETS.iter().position(|t| *t == m.target()).unwrap_or(99) }
impl<'a> MakeWriter<'a> for Sink {
    type Writer = SinkWriter;
    fn make_writer(&'a self) -> SinkWriter { self.1.lock().unwrap().push(format!("{}:p", self.0)); SinkWriter(self.0, self.1.clone(), None) }
    fn make_writer_for(&'a self, m: &Metadata<'_>) -> SinkWriter {
        self.1.lock().unwrap().push(format!("{}:f{}.{}", self.0, rank_of(m), tgt_index(m)));
        SinkWriter(self.0, self.1.clone(), None)
    }
}

fn lvl(r: usize) -> tracing::Level { tv_harness::synth::level_of_rank(r) }

/// builds the expression; `or_else` needs the concrete guard type of its first argument
fn build(toks: &[&str], pos: &mut usize, log: &Log) -> BoxMakeWriter {
    let t = toks[*pos];
    *pos += 1;
    let b = t.as_bytes();
    match b[0] {
        b'S' => BoxMakeWriter::new(Sink(t[1..].parse().unwrap(), log.clone())),
        b'M' => { let l: usize = t[1..].parse().unwrap(); let e = build(toks, pos, log); BoxMakeWriter::new(e.with_max_level(lvl(l))) }
        b'm' => { let l: usize = t[1..].parse().unwrap(); let e = build(toks, pos, log); BoxMakeWriter::new(e.with_min_level(lvl(l))) }
        b'F' => { let e = build(toks, pos, log); let p = pred(t); BoxMakeWriter::new(e.with_filter(move |m: &Metadata<'_>| p(m))) }
        b'T' => { let a = build(toks, pos, log); let c = build(toks, pos, log); BoxMakeWriter::new(a.and(c)) }
        b'B' => { let e = build(toks, pos, log); BoxMakeWriter::new(e) }
        b'O' => {
            let g = toks[*pos];
            *pos += 1;
            let inner = build(toks, pos, log);
            match g.as_bytes()[0] {
                b'M' => { let l: usize = g[1..].parse().unwrap(); let a = inner.with_max_level(lvl(l)); let c = build(toks, pos, log); BoxMakeWriter::new(a.or_else(c)) }
                b'm' => { let l: usize = g[1..].parse().unwrap(); let a = inner.with_min_level(lvl(l)); let c = build(toks, pos, log); BoxMakeWriter::new(a.or_else(c)) }
                b'F' => { let p = pred(g); let a = inner.with_filter(move |m: &Metadata<'_>| p(m)); let c = build(toks, pos, log); BoxMakeWriter::new(a.or_else(c)) }
                _ => panic!("or_else needs a guard first"),
            }
        }
        _ => panic!("bad writer token {}", t),
    }
}

fn pred(t: &str) -> Box<dyn Fn(&Metadata<'_>) -> bool + Send + Sync> {
    let k: usize = t[2..].parse().unwrap();
    match t.as_bytes()[1] {
        b'l' => Box::new(move |m| rank_of(m) <= k),
        b't' => Box::new(move |m| tgt_index(m) == k),
        _ => Box::new(move |m| tgt_index(m) != k),
    }
}

struct Bomb;
impl std::fmt::Debug for Bomb {
    fn fmt(&self, f: &mut std::fmt::Formatter<'_>) -> std::fmt::Result { let _ = f.write_str("partial"); panic!("Debug impl panics") }
}

/// a value whose Debug impl records an event (no fields) through the dispatcher it holds, then prints `nested`
struct Nest(Dispatch, &'static Metadata<'static>);
impl std::fmt::Debug for Nest {
    fn fmt(&self, f: &mut std::fmt::Formatter<'_>) -> std::fmt::Result {
        let arr: [(&tracing_core::Field, Option<&dyn Value>); 0] = [];
        let vs = self.1.fields().value_set(&arr);
        self.0.event(&Event::new(self.1, &vs));
        f.write_str("nested")
    }
}

enum V { I(i64), U(u64), F(f64), S(String), B(bool), D(String), E, Bomb }
struct Dbg(String);
impl std::fmt::Debug for Dbg { fn fmt(&self, f: &mut std::fmt::Formatter<'_>) -> std::fmt::Result { f.write_str(&self.0) } }

fn parse_fields(s: &str) -> Vec<(String, V)> {
    if s == "-" { return Vec::new(); }
    s.split(',').map(|kv| {
        let (k, v) = kv.split_once('=').expect("k=v");
        let val = match v.as_bytes()[0] {
            b'i' => V::I(v[1..].parse().unwrap()),
            b'u' => V::U(v[1..].parse().unwrap()),
            b'f' => V::F(match &v[1..] { "nan" => f64::NAN, "inf" => f64::INFINITY, "-inf" => f64::NEG_INFINITY, t => t.parse().unwrap() }),
            b'e' => V::E,
            b's' => V::S(unhex_str(&v[1..])),
            b'b' => V::B(&v[1..] == "1"),
            b'd' => V::D(unhex_str(&v[1..])),
            _ => V::Bomb,
        };
        (unhex_str(k), val)
    }).collect()
}

/// calls `f` with a ValueSet over `meta`'s fields holding `vals`
fn with_values<R>(meta: &'static Metadata<'static>, vals: &[(String, V)], f: impl FnOnce(&tracing_core::field::ValueSet<'_>) -> R) -> R {
    let fields: Vec<tracing_core::Field> = meta.fields().iter().collect();
    let dbg: Vec<Option<Dbg>> = vals.iter().map(|(_, v)| if let V::D(s) = v { Some(Dbg(s.clone())) } else { None }).collect();
    let bomb = Bomb;
    let dv: Vec<Option<tracing_core::field::DebugValue<&dyn std::fmt::Debug>>> = vals.iter().enumerate().map(|(i, (_, v))| match v {
        V::D(_) => Some(tracing_core::field::debug(dbg[i].as_ref().unwrap() as &dyn std::fmt::Debug)),
        V::Bomb => Some(tracing_core::field::debug(&bomb as &dyn std::fmt::Debug)),
        _ => None,
    }).collect();
    let refs: Vec<Option<&dyn Value>> = vals.iter().enumerate().map(|(i, (_, v))| -> Option<&dyn Value> {
        if let V::E = v { return None; }
        Some(match v {
            V::E => unreachable!(),
            V::U(n) => n as &dyn Value,
            V::F(n) => n as &dyn Value,
            V::I(n) => n as &dyn Value,
            V::S(s) => s as &dyn Value,
            V::B(b) => b as &dyn Value,
            V::D(_) | V::Bomb => dv[i].as_ref().unwrap() as &dyn Value,
        })
    }).collect();
    match fields.len() {
        0 => f(&meta.fields().value_set(&[])),
        1 => f(&meta.fields().value_set(&[(&fields[0], refs[0])])),
        2 => f(&meta.fields().value_set(&[(&fields[0], refs[0]), (&fields[1], refs[1])])),
        3 => f(&meta.fields().value_set(&[(&fields[0], refs[0]), (&fields[1], refs[1]), (&fields[2], refs[2])])),
        _ => f(&meta.fields().value_set(&[(&fields[0], refs[0]), (&fields[1], refs[1]), (&fields[2], refs[2]), (&fields[3], refs[3])])),
    }
}

struct Metas(HashMap<String, &'static Metadata<'static>>);
impl Metas {
    fn get(&mut self, name: &str, tgt: usize, rank: usize, is_event: bool, vals: &[(String, V)]) -> &'static Metadata<'static> {
        let names: Vec<String> = vals.iter().map(|(k, _)| k.clone()).collect();
        let key = format!("{}|{}|{}|{}|{}", name, tgt, rank, is_event, names.join(","));
        *self.0.entry(key).or_insert_with(|| mk_meta(name, TARGETS[tgt], rank, is_event, &names))
    }
}

fn build_dispatch(cfg: &[&str], w: BoxMakeWriter) -> Dispatch {
    let flag = |c: char| cfg.iter().find(|t| t.starts_with(c) && t.len() == 2).map(|t| &t[1..] == "1").unwrap_or(false);
    let mask: u8 = cfg.iter().find(|t| t.starts_with('s')).map(|t| t[1..].parse().unwrap()).unwrap_or(0);
    let mut ev = FmtSpan::NONE;
    if mask & 1 != 0 { ev |= FmtSpan::NEW; }
    if mask & 2 != 0 { ev |= FmtSpan::ENTER; }
    if mask & 4 != 0 { ev |= FmtSpan::EXIT; }
    if mask & 8 != 0 { ev |= FmtSpan::CLOSE; }
    let reg = tracing_subscriber::registry();
    // the format is chosen first: `compact()` / `pretty()` reset some of the display options
    macro_rules! opts {
        ($b:expr) => {
            $b.with_target(flag('t')).with_level(flag('l')).with_thread_ids(flag('i')).with_thread_names(flag('n'))
                .with_file(flag('f')).with_line_number(flag('L')).with_span_events(ev)
        };
    }
    let base = tracing_subscriber::fmt::subscriber().with_writer(w).without_time().with_ansi(false);
    // `O1`: the display options are set BEFORE the format is selected (the selection carries them over: `compact()` switches the
    // target off, `pretty()` switches file and line on, everything else — the level in particular — is kept)
    if flag('O') {
        return match cfg[0] {
            "full" => Dispatch::new(reg.with(opts!(base))),
            "compact" => Dispatch::new(reg.with(opts!(base).compact())),
            "pretty" => Dispatch::new(reg.with(opts!(base).pretty())),
            "json" => Dispatch::new(reg.with(opts!(base).json().with_current_span(flag('c')).with_span_list(flag('S')).flatten_event(flag('F')))),
            other => panic!("bad format {}", other),
        };
    }
    // `P1` (json): the formatter behind a per-layer filter (INFO) next to a layer that wants everything — spans and events
    // above INFO exist, but not for the formatter
    if flag('P') && cfg[0] == "json" {
        use tracing_subscriber::Subscribe as _;
        struct Everything;
        impl<C: tracing::Collect> tracing_subscriber::Subscribe<C> for Everything {}
        let l = opts!(base.json()).with_current_span(flag('c')).with_span_list(flag('S')).flatten_event(flag('F'));
        return Dispatch::new(reg.with(l.with_filter(tracing_subscriber::filter::LevelFilter::INFO)).with(Everything));
    }
    match cfg[0] {
        "full" => Dispatch::new(reg.with(opts!(base))),
        "compact" => Dispatch::new(reg.with(opts!(base.compact()))),
        "pretty" => Dispatch::new(reg.with(opts!(base.pretty()))),
        "json" => Dispatch::new(reg.with(opts!(base.json()).with_current_span(flag('c')).with_span_list(flag('S')).flatten_event(flag('F')))),
        other => panic!("bad format {}", other),
    }
}

fn take(log: &Log) -> String {
    let mut l = log.lock().unwrap();
    let v: Vec<String> = l.drain(..).collect();
    if v.is_empty() { "-".into() } else { v.join(",") }
}

fn main() {
    std::panic::set_hook(Box::new(|_| {}));
    tv_harness::serve(|toks| {
        let s1 = toks.iter().position(|t| *t == ";;").expect(";;");
        let s2 = s1 + 1 + toks[s1 + 1..].iter().position(|t| *t == ";;").expect("second ;;");
        let log: Log = Arc::new(Mutex::new(Vec::new()));
        SHORT.store(toks.len() % 2 == 1, std::sync::atomic::Ordering::Relaxed);
        let mut p = 0;
        let w = build(&toks[s1 + 1..s2], &mut p, &log);
        let d = build_dispatch(&toks[..s1], w);
        let mut metas = Metas(HashMap::new());
        let mut spans: HashMap<usize, span::Id> = HashMap::new();
        let mut span_meta: HashMap<usize, &'static Metadata<'static>> = HashMap::new();
        let mut outs: Vec<String> = Vec::new();
        let dd = d.clone();
        // `U1`: the whole history runs on a spawned thread WITHOUT a name (the serving thread is `main`)
        let unnamed = toks[..s1].contains(&"U1");
        let mut body = || tracing::dispatch::with_default(&dd, || {
            for op in toks[s2 + 1..].split(|t| *t == ";") {
                if op.is_empty() { continue; }
                match op[0] {
                    "ev" => {
                        let vals = parse_fields(op[3]);
                        let m = metas.get("event", op[2].parse().unwrap(), op[1].parse().unwrap(), true, &vals);
                        // (as the macros do: the callsite's interest, then `enabled` — per-layer filters decide there)
                        let i = d.register_callsite(m);
                        if !i.is_never() && (i.is_always() || d.enabled(m)) { with_values(m, &vals, |vs| d.event(&Event::new(m, vs))); }
                    }
                    "pe" => {
                        let vals = vec![("boom".to_string(), V::Bomb)];
                        let m = metas.get("event", op[2].parse().unwrap(), op[1].parse().unwrap(), true, &vals);
                        let r = std::panic::catch_unwind(std::panic::AssertUnwindSafe(|| with_values(m, &vals, |vs| d.event(&Event::new(m, vs)))));
                        log.lock().unwrap().push(if r.is_err() { "x:panic".into() } else { "x:nopanic".into() });
                    }
                    "ne" => {
                        let vals = vec![("a".to_string(), V::E)];
                        let m = metas.get("event", op[2].parse().unwrap(), op[1].parse().unwrap(), true, &vals);
                        let mn = metas.get("event", op[4].parse().unwrap(), op[3].parse().unwrap(), true, &[]);
                        let _ = d.register_callsite(m);
                        let _ = d.register_callsite(mn);
                        let nest = Nest(d.clone(), mn);
                        let dv = tracing_core::field::debug(&nest as &dyn std::fmt::Debug);
                        let fields: Vec<tracing_core::Field> = m.fields().iter().collect();
                        let arr = [(&fields[0], Some(&dv as &dyn Value))];
                        let vs = m.fields().value_set(&arr);
                        d.event(&Event::new(m, &vs));
                    }
                    "sp" => {
                        let k: usize = op[1].parse().unwrap();
                        let vals = parse_fields(op[5]);
                        let m = metas.get(&unhex_str(op[4]), op[3].parse().unwrap(), op[2].parse().unwrap(), false, &vals);
                        let i = d.register_callsite(m);
                        if !i.is_never() && (i.is_always() || d.enabled(m)) {
                            let id = with_values(m, &vals, |vs| d.new_span(&span::Attributes::new(m, vs)));
                            spans.insert(k, id);
                            span_meta.insert(k, m);
                        }
                    }
                    "en" | "ex" | "cl" => {
                        let k: usize = op[1].parse().unwrap();
                        if let Some(id) = spans.get(&k).cloned() {
                            match op[0] { "en" => d.enter(&id), "ex" => d.exit(&id), _ => { d.try_close(id); spans.remove(&k); } }
                        }
                    }
                    "rc" => {
                        let k: usize = op[1].parse().unwrap();
                        if let (Some(id), Some(m)) = (spans.get(&k).cloned(), span_meta.get(&k).cloned()) {
                            let mut given = parse_fields(op[2]);
                            // aligned with the span's declared fields; the ones not named stay empty
                            let vals: Vec<(String, V)> = m.fields().iter().map(|f| {
                                match given.iter().position(|(n, _)| n == f.name()) {
                                    Some(i) => given.remove(i),
                                    None => (f.name().to_string(), V::E),
                                }
                            }).collect();
                            with_values(m, &vals, |vs| d.record(&id, &span::Record::new(vs)));
                        }
                    }
                    "mt" => {
                        let n: usize = op[1].parse().unwrap();
                        let k: usize = op[2].parse().unwrap();
                        let vals0 = vec![("thread".to_string(), V::I(0)), ("seq".to_string(), V::I(0)), ("pad".to_string(), V::S(String::new()))];
                        let m = metas.get("event", 0, 3, true, &vals0);
                        let hs: Vec<_> = (0..n).map(|t| {
                            let d2 = d.clone();
                            std::thread::spawn(move || tracing::dispatch::with_default(&d2, || {
                                for i in 0..k {
                                    let vals = vec![("thread".to_string(), V::I(t as i64)), ("seq".to_string(), V::I(i as i64)), ("pad".to_string(), V::S("x".repeat(50 + 37 * ((t + i) % 7))))];
                                    with_values(m, &vals, |vs| d2.event(&Event::new(m, vs)));
                                }
                            }))
                        }).collect();
                        for h in hs { h.join().unwrap(); }
                        // canonical: sorted
                        let mut l = log.lock().unwrap();
                        l.sort();
                    }
                    _ => log.lock().unwrap().push("bad-op".into()),
                }
                outs.push(take(&log));
            }
        });
        if unnamed { std::thread::scope(|sc| { sc.spawn(body).join().unwrap(); }); } else { body(); }
        drop(dd);
        outs.join(" ")
    });
}
