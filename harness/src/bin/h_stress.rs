//! Real-thread stress of the shared counters whose single-step atomicity the theorems in Lemmas/AtomicCount.lean rest on.
//! There is no yield point inside an atomic instruction, so these scenarios release real threads together, many rounds.
//! Each scenario has an exact oracle (it cannot fail on code whose updates are atomic):
//!
//!   scopes <threads> <rounds>            threads open / use / close scoped defaults together; afterwards one thread
//!                                        nests 1..=threads+1 scopes.  Every emission must reach the innermost live scope
//!                                        of the emitting thread.
//!   closeonce <threads> <rounds> <m>     every round, m root spans with one handle per thread; the threads drop their
//!                                        handles together.  Every span must be reported closed exactly once.
//!   cloneshared <threads> <rounds> <k>   every round, the threads take k references each on ONE span together and give
//!                                        them back; the span (one handle still held) must stay open until that handle goes.
//!
//!   recordshared <threads> <rounds>      every round, the threads record one field each on ONE span together (values whose
//!                                        Debug takes a few microseconds, one of them longer); a JSON record emitted inside the
//!                                        span afterwards must show every one of those fields (and the one given at creation).
//!
//!   reloadbusy <rounds>                  a counting layer behind a reload handle; every round and for each kind of notification
//!                                        (new span, record, event, enter, exit, close) one thread is INSIDE Handle::modify
//!                                        (holding the handle's write lock for a few hundred microseconds) when another makes
//!                                        the call.  Every notification must reach the layer exactly once (the call waits).
//!
//!   lossycount <threads> <lines>         a lossy non-blocking writer of capacity 1 over a writer that is held shut; the threads
//!                                        offer <lines> lines each together (almost all are dropped, at the same moments); then the
//!                                        writer is let go and the guard dropped: written + dropped_lines() must equal offered.
//!
//! Output: `ok <stats>` or `fail <what>`.
use std::collections::HashMap;
use std::sync::atomic::{AtomicBool, AtomicUsize, Ordering};
use std::sync::{Arc, Mutex};
use tracing_core::{collect::Interest, span, Collect, Dispatch, Event, Metadata};
use tracing_subscriber::registry::LookupSpan;
use tracing_subscriber::subscribe::{CollectExt, Context};
use tracing_subscriber::{Registry, Subscribe};

struct Cnt(Arc<AtomicUsize>);
impl Collect for Cnt {
    fn register_callsite(&self, _: &'static Metadata<'static>) -> Interest {
        Interest::always()
    }
    fn enabled(&self, _: &Metadata<'_>) -> bool {
        true
    }
    fn new_span(&self, _: &span::Attributes<'_>) -> span::Id {
        span::Id::from_u64(1)
    }
    fn record(&self, _: &span::Id, _: &span::Record<'_>) {}
    fn record_follows_from(&self, _: &span::Id, _: &span::Id) {}
    fn event(&self, _: &Event<'_>) {
        self.0.fetch_add(1, Ordering::SeqCst);
    }
    fn enter(&self, _: &span::Id) {}
    fn exit(&self, _: &span::Id) {}
    fn current_span(&self) -> span::Current {
        span::Current::unknown()
    }
}

/// all threads leave together: a spinning barrier (no syscall between release and the raced instruction)
struct Spin {
    n: usize,
    arrived: AtomicUsize,
    gen: AtomicUsize,
}
impl Spin {
    fn new(n: usize) -> Self {
        Spin { n, arrived: AtomicUsize::new(0), gen: AtomicUsize::new(0) }
    }
    fn wait(&self) {
        let g = self.gen.load(Ordering::Acquire);
        if self.arrived.fetch_add(1, Ordering::AcqRel) + 1 == self.n {
            self.arrived.store(0, Ordering::Release);
            self.gen.fetch_add(1, Ordering::AcqRel);
        } else {
            let mut spins = 0u32;
            while self.gen.load(Ordering::Acquire) == g {
                spins += 1;
                if spins > 20_000 {
                    std::thread::yield_now();
                } else {
                    std::hint::spin_loop();
                }
            }
        }
    }
}

fn emit() {
    tracing::info!("x");
}

fn scopes(threads: usize, rounds: usize) -> String {
    let bar = Arc::new(Spin::new(threads));
    let wrong = Arc::new(AtomicUsize::new(0));
    let mut hs = Vec::new();
    for _ in 0..threads {
        let bar = bar.clone();
        let wrong = wrong.clone();
        hs.push(std::thread::spawn(move || {
            let mine = Arc::new(AtomicUsize::new(0));
            let d = Dispatch::new(Cnt(mine.clone()));
            for _ in 0..rounds {
                bar.wait();
                let g = tracing_core::dispatch::set_default(&d);
                let before = mine.load(Ordering::SeqCst);
                emit();
                if mine.load(Ordering::SeqCst) != before + 1 {
                    wrong.fetch_add(1, Ordering::SeqCst);
                }
                drop(g);
            }
        }));
    }
    let mut panicked = 0;
    for h in hs {
        if h.join().is_err() {
            panicked += 1;
        }
    }
    // afterwards, on one thread: k nested scopes, an emission at every depth goes to the innermost
    let mut after = 0;
    for depth in 1..=threads + 1 {
        let cs: Vec<Arc<AtomicUsize>> = (0..depth).map(|_| Arc::new(AtomicUsize::new(0))).collect();
        let mut guards = Vec::new();
        for (i, c) in cs.iter().enumerate() {
            guards.push(tracing_core::dispatch::set_default(&Dispatch::new(Cnt(c.clone()))));
            let before = cs[i].load(Ordering::SeqCst);
            emit();
            if cs[i].load(Ordering::SeqCst) != before + 1 {
                after += 1;
            }
        }
        while let Some(g) = guards.pop() {
            drop(g);
        }
    }
    let w = wrong.load(Ordering::SeqCst);
    if w == 0 && after == 0 && panicked == 0 {
        format!("ok emissions={}", threads * rounds)
    } else {
        format!("fail emission-not-delivered-to-innermost-live-scope during={} afterwards={} panicked={}", w, after, panicked)
    }
}

#[derive(Clone, Default)]
struct Closes {
    per_id: Arc<Mutex<HashMap<u64, usize>>>,
    unreadable: Arc<AtomicUsize>,
}
impl<C: Collect + for<'a> LookupSpan<'a>> Subscribe<C> for Closes {
    fn on_close(&self, id: span::Id, ctx: Context<'_, C>) {
        if ctx.span(&id).is_none() {
            self.unreadable.fetch_add(1, Ordering::SeqCst);
        }
        *self.per_id.lock().unwrap().entry(id.into_u64()).or_insert(0) += 1;
    }
}

fn closeonce(threads: usize, rounds: usize, m: usize) -> String {
    let closes = Closes::default();
    let d = Dispatch::new(Registry::default().with(closes.clone()));
    let mut twice = 0usize;
    let mut never = 0usize;
    let mut panicked = 0usize;
    let mut total = 0usize;
    for _ in 0..rounds {
        let spans: Vec<tracing::Span> =
            tracing_core::dispatch::with_default(&d, || (0..m).map(|_| tracing::info_span!(parent: None, "s")).collect());
        let ids: Vec<u64> = spans.iter().map(|s| s.id().expect("enabled").into_u64()).collect();
        closes.per_id.lock().unwrap().clear();
        let bar = Arc::new(Spin::new(threads));
        let mut per_thread: Vec<Vec<tracing::Span>> = (1..threads).map(|_| spans.clone()).collect();
        per_thread.push(spans);
        let hs: Vec<_> = per_thread
            .into_iter()
            .map(|mine| {
                let bar = bar.clone();
                std::thread::spawn(move || {
                    bar.wait();
                    for s in mine {
                        drop(s);
                    }
                })
            })
            .collect();
        for h in hs {
            if h.join().is_err() {
                panicked += 1;
            }
        }
        let g = closes.per_id.lock().unwrap();
        for id in &ids {
            total += 1;
            match g.get(id).copied().unwrap_or(0) {
                0 => never += 1,
                1 => {}
                _ => twice += 1,
            }
        }
    }
    let unreadable = closes.unreadable.load(Ordering::SeqCst);
    if twice == 0 && never == 0 && panicked == 0 && unreadable == 0 {
        format!("ok spans={}", total)
    } else {
        format!("fail closed-more-than-once={} never-closed={} data-gone-in-on_close={} panicked={} of={}", twice, never, unreadable, panicked, total)
    }
}

fn cloneshared(threads: usize, rounds: usize, k: usize) -> String {
    let closes = Closes::default();
    let d = Dispatch::new(Registry::default().with(closes.clone()));
    let mut early = 0usize;
    let mut gone = 0usize;
    let mut panicked = 0usize;
    let mut notclosed = 0usize;
    for _ in 0..rounds {
        let span = tracing_core::dispatch::with_default(&d, || tracing::info_span!(parent: None, "s"));
        let id = span.id().expect("enabled");
        closes.per_id.lock().unwrap().clear();
        let bar = Arc::new(Spin::new(threads));
        let stop = Arc::new(AtomicBool::new(false));
        let hs: Vec<_> = (0..threads)
            .map(|_| {
                let bar = bar.clone();
                let span = span.clone();
                let stop = stop.clone();
                std::thread::spawn(move || {
                    let mut held = Vec::with_capacity(k);
                    bar.wait();
                    for _ in 0..k {
                        if stop.load(Ordering::Relaxed) {
                            break;
                        }
                        held.push(span.clone());
                    }
                    bar.wait();
                    drop(held);
                    drop(span);
                })
            })
            .collect();
        for h in hs {
            if h.join().is_err() {
                panicked += 1;
                stop.store(true, Ordering::Relaxed);
            }
        }
        // one handle is still held: the span is open, its data readable
        if closes.per_id.lock().unwrap().get(&id.into_u64()).copied().unwrap_or(0) != 0 {
            early += 1;
        }
        let present = d.downcast_ref::<Registry>().map(|r| r.span_data(&id).is_some());
        if present == Some(false) {
            gone += 1;
        }
        let r = std::panic::catch_unwind(std::panic::AssertUnwindSafe(|| drop(span)));
        if r.is_err() {
            panicked += 1;
        }
        if early == 0 && gone == 0 && closes.per_id.lock().unwrap().get(&id.into_u64()).copied().unwrap_or(0) != 1 {
            notclosed += 1;
        }
        if panicked > 0 {
            break;
        }
    }
    if early == 0 && gone == 0 && panicked == 0 && notclosed == 0 {
        format!("ok references={}", threads * rounds * k)
    } else {
        format!("fail closed-while-a-handle-is-held={} removed-while-a-handle-is-held={} not-closed-exactly-once-at-the-end={} panicked={}", early, gone, notclosed, panicked)
    }
}

/// a value whose Debug output takes a while (user Debug impls run inside `Span::record`)
struct Slow(usize, u32);
impl std::fmt::Debug for Slow {
    fn fmt(&self, f: &mut std::fmt::Formatter<'_>) -> std::fmt::Result {
        let t = std::time::Instant::now();
        while t.elapsed() < std::time::Duration::from_micros(self.1 as u64) {
            std::hint::spin_loop();
        }
        write!(f, "v{}", self.0)
    }
}

#[derive(Clone)]
struct BufW(Arc<Mutex<Vec<u8>>>);
impl std::io::Write for BufW {
    fn write(&mut self, b: &[u8]) -> std::io::Result<usize> {
        self.0.lock().unwrap().extend_from_slice(b);
        Ok(b.len())
    }
    fn flush(&mut self) -> std::io::Result<()> {
        Ok(())
    }
}

fn recordshared(threads: usize, rounds: usize) -> String {
    let threads = threads.min(8);
    let buf = Arc::new(Mutex::new(Vec::new()));
    let w = BufW(buf.clone());
    let d = Dispatch::new(
        Registry::default().with(tracing_subscriber::fmt::subscriber().json().without_time().with_writer(move || w.clone())),
    );
    const NAMES: [&str; 8] = ["f0", "f1", "f2", "f3", "f4", "f5", "f6", "f7"];
    let mut missing = 0usize;
    let mut panicked = 0usize;
    let mut first_bad = String::new();
    for r in 0..rounds {
        let span = tracing_core::dispatch::with_default(&d, || {
            tracing::info_span!(parent: None, "shared", first = 1, f0 = tracing::field::Empty, f1 = tracing::field::Empty, f2 = tracing::field::Empty,
                f3 = tracing::field::Empty, f4 = tracing::field::Empty, f5 = tracing::field::Empty, f6 = tracing::field::Empty, f7 = tracing::field::Empty)
        });
        let bar = Arc::new(Spin::new(threads));
        let hs: Vec<_> = (0..threads)
            .map(|i| {
                let bar = bar.clone();
                let span = span.clone();
                std::thread::spawn(move || {
                    // one slow value per round (the others' records fall inside its formatting)
                    let us = if i == r % threads { 60 } else { 3 };
                    bar.wait();
                    span.record(NAMES[i], &tracing::field::debug(Slow(i, us)));
                })
            })
            .collect();
        for h in hs {
            if h.join().is_err() {
                panicked += 1;
            }
        }
        buf.lock().unwrap().clear();
        tracing_core::dispatch::with_default(&d, || span.in_scope(|| tracing::info!("inside")));
        let line = String::from_utf8_lossy(&buf.lock().unwrap()).to_string();
        let mut bad = !line.contains("\"first\":1");
        for name in NAMES.iter().take(threads) {
            if !line.contains(&format!("\"{}\":", name)) {
                bad = true;
            }
        }
        if bad {
            missing += 1;
            if first_bad.is_empty() {
                first_bad = line.trim().replace(' ', "_");
            }
        }
    }
    if missing == 0 && panicked == 0 {
        format!("ok records={}", threads * rounds)
    } else {
        format!("fail a-field-recorded-by-a-completed-record-call-is-missing-from-the-span rounds={} panicked={} first={}", missing, panicked, first_bad)
    }
}

struct CountL(Arc<Vec<AtomicUsize>>);
impl<C: Collect + for<'a> LookupSpan<'a>> Subscribe<C> for CountL {
    fn on_new_span(&self, _: &span::Attributes<'_>, _: &span::Id, _: Context<'_, C>) { self.0[0].fetch_add(1, Ordering::SeqCst); }
    fn on_record(&self, _: &span::Id, _: &span::Record<'_>, _: Context<'_, C>) { self.0[1].fetch_add(1, Ordering::SeqCst); }
    fn on_event(&self, _: &Event<'_>, _: Context<'_, C>) { self.0[2].fetch_add(1, Ordering::SeqCst); }
    fn on_enter(&self, _: &span::Id, _: Context<'_, C>) { self.0[3].fetch_add(1, Ordering::SeqCst); }
    fn on_exit(&self, _: &span::Id, _: Context<'_, C>) { self.0[4].fetch_add(1, Ordering::SeqCst); }
    fn on_close(&self, _: span::Id, _: Context<'_, C>) { self.0[5].fetch_add(1, Ordering::SeqCst); }
}

fn reloadbusy(rounds: usize) -> String {
    const KINDS: [&str; 6] = ["new_span", "record", "event", "enter", "exit", "close"];
    let c: Arc<Vec<AtomicUsize>> = Arc::new((0..6).map(|_| AtomicUsize::new(0)).collect());
    let (layer, handle) = tracing_subscriber::reload::Subscriber::new(CountL(c.clone()));
    let d = Dispatch::new(Registry::default().with(layer));
    let mut want = [0usize; 6];
    let mut panicked = 0usize;
    for r in 0..rounds {
        for kind in 0..6 {
            let span = tracing_core::dispatch::with_default(&d, || tracing::info_span!(parent: None, "busy", f0 = tracing::field::Empty));
            want[0] += 1;
            let id = span.id().expect("enabled");
            let inside = Arc::new(AtomicBool::new(false));
            let ready = Arc::new(AtomicBool::new(false));
            let a = {
                let inside = inside.clone();
                let ready = ready.clone();
                let handle = handle.clone();
                std::thread::spawn(move || {
                    while !ready.load(Ordering::SeqCst) { std::hint::spin_loop(); }
                    let _ = handle.modify(|_| {
                        inside.store(true, Ordering::SeqCst);
                        std::thread::sleep(std::time::Duration::from_micros(300 + 200 * (r % 4) as u64));
                    });
                })
            };
            let b = {
                let inside = inside.clone();
                let ready = ready.clone();
                let d = d.clone();
                std::thread::spawn(move || {
                    tracing_core::dispatch::with_default(&d, || {
                        // (a span is entered and exited on ONE thread: the registry's stack of entered spans is per thread)
                        if kind == 4 { d.enter(&id); }
                        ready.store(true, Ordering::SeqCst);
                        while !inside.load(Ordering::SeqCst) { std::hint::spin_loop(); }
                        match kind {
                            0 => { drop(tracing::info_span!(parent: None, "second")); Some(span) }
                            1 => { span.record("f0", 1); Some(span) }
                            2 => { emit(); Some(span) }
                            3 => { d.enter(&id); d.exit(&id); Some(span) }
                            4 => { d.exit(&id); Some(span) }
                            _ => { drop(span); None }
                        }
                    })
                })
            };
            match kind { 0 => { want[0] += 1; want[5] += 1 } 1 => want[1] += 1, 2 => want[2] += 1, 3 | 4 => { want[3] += 1; want[4] += 1 } _ => want[5] += 1 }
            if a.join().is_err() { panicked += 1; }
            match b.join() {
                Ok(Some(span)) => {
                    drop(span); want[5] += 1;
                }
                Ok(None) => {}
                Err(_) => panicked += 1,
            }
        }
    }
    let got: Vec<usize> = c.iter().map(|x| x.load(Ordering::SeqCst)).collect();
    let bad: Vec<String> = (0..6).filter(|k| got[*k] != want[*k]).map(|k| format!("{}:got{}want{}", KINDS[k], got[k], want[k])).collect();
    if bad.is_empty() && panicked == 0 {
        format!("ok calls={}", want.iter().sum::<usize>())
    } else {
        format!("fail a-notification-made-while-a-reload-was-in-progress-did-not-reach-the-reloadable-layer-exactly-once {} panicked={}", bad.join(","), panicked)
    }
}

struct HeldWriter { open: Arc<AtomicBool>, lines: Arc<AtomicUsize> }
impl std::io::Write for HeldWriter {
    fn write(&mut self, buf: &[u8]) -> std::io::Result<usize> {
        while !self.open.load(Ordering::SeqCst) { std::thread::sleep(std::time::Duration::from_micros(200)); }
        self.lines.fetch_add(buf.iter().filter(|b| **b == b'\n').count(), Ordering::SeqCst);
        Ok(buf.len())
    }
    fn flush(&mut self) -> std::io::Result<()> { Ok(()) }
}

fn lossycount(threads: usize, lines: usize) -> String {
    use std::io::Write;
    let threads = threads.min(16);
    let open = Arc::new(AtomicBool::new(false));
    let written = Arc::new(AtomicUsize::new(0));
    let (nb, guard) = tracing_appender::non_blocking::NonBlockingBuilder::default()
        .lossy(true)
        .buffered_lines_limit(1)
        .finish(HeldWriter { open: open.clone(), lines: written.clone() });
    let counter = nb.error_counter();
    let bar = Arc::new(Spin::new(threads));
    let hs: Vec<_> = (0..threads)
        .map(|_| {
            let bar = bar.clone();
            let mut w = nb.clone();
            std::thread::spawn(move || {
                bar.wait();
                for _ in 0..lines { let _ = w.write_all(b"x\n"); }
            })
        })
        .collect();
    let mut panicked = 0usize;
    for h in hs { if h.join().is_err() { panicked += 1; } }
    open.store(true, Ordering::SeqCst);
    drop(nb);
    drop(guard);
    let offered = threads * lines;
    let w = written.load(Ordering::SeqCst);
    let d = counter.dropped_lines();
    if w + d == offered && panicked == 0 {
        format!("ok offered={} written={} dropped={}", offered, w, d)
    } else {
        format!("fail lines-neither-written-nor-counted-as-dropped offered={} written={} dropped={} unaccounted={} panicked={}", offered, w, d, offered as i64 - (w + d) as i64, panicked)
    }
}

fn main() {
    std::panic::set_hook(Box::new(|_| {}));
    tv_harness::serve(|t| {
        let n = |i: usize| t.get(i).and_then(|s| s.parse::<usize>().ok()).unwrap_or(1).max(1);
        match t[0] {
            "scopes" => scopes(n(1).max(2), n(2)),
            "closeonce" => closeonce(n(1).max(2), n(2), n(3)),
            "cloneshared" => cloneshared(n(1).max(2), n(2), n(3)),
            "recordshared" => recordshared(n(1).max(2), n(2)),
            "reloadbusy" => reloadbusy(n(1)),
            "lossycount" => lossycount(n(1).max(2), n(2)),
            _ => "bad-op".to_string(),
        }
    });
}
