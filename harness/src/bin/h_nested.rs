//! C05 executor for closes that start INSIDE another span's `on_close` (a layer drops a span handle it owns while it handles
//! a close): `<n> <m> <p0> … <p(m-1)> ;; <layer>:<of>:<drops> … ;; dr k ; dr j ; …`
//! n recording layers (1 = innermost) over the real Registry, m spans (parent: an earlier span's index or `-` for a root),
//! one handle each; `layer:of:drops` = while layer `layer` handles the close of span `of` it drops the handle of span `drops`
//! (if that handle still exists).  Output per `dr`: the on_close calls it caused (`x<layer>.<span><r|u>`: readable or not), then
//! `live=` the spans the registry still knows when the history is over.
use std::collections::HashMap;
use std::sync::{Arc, Mutex};
use tracing::{span, Dispatch, Level, Span};
use tracing_core::field::{Field, Visit};
use tracing_subscriber::registry::LookupSpan;
use tracing_subscriber::subscribe::{CollectExt, Context};
use tracing_subscriber::{Registry, Subscribe};

#[derive(Default)]
struct Shared {
    idmap: HashMap<u64, usize>,
    handles: HashMap<usize, Span>,
    wills: Vec<(usize, usize, usize)>,
    log: Vec<String>,
}

struct NL { layer: usize, sh: Arc<Mutex<Shared>> }

struct KVisit(Option<u64>);
impl Visit for KVisit {
    fn record_u64(&mut self, f: &Field, v: u64) { if f.name() == "k" { self.0 = Some(v); } }
    fn record_debug(&mut self, _: &Field, _: &dyn std::fmt::Debug) {}
}

impl<C> Subscribe<C> for NL
where
    C: tracing::Collect + for<'a> LookupSpan<'a>,
{
    fn on_new_span(&self, attrs: &span::Attributes<'_>, id: &span::Id, _: Context<'_, C>) {
        if self.layer == 1 {
            let mut v = KVisit(None);
            attrs.record(&mut v);
            self.sh.lock().unwrap().idmap.insert(id.into_u64(), v.0.expect("k") as usize);
        }
    }
    fn on_close(&self, id: span::Id, ctx: Context<'_, C>) {
        let readable = ctx.span(&id).is_some();
        // what this layer drops here, one handle after the other (each taken out under the lock and dropped outside it: the drop
        // may close a span, which comes back here — and may find that a LATER handle of this list is the one it has to drop)
        let drops: Vec<usize> = {
            let mut sh = self.sh.lock().unwrap();
            let k = sh.idmap.get(&id.into_u64()).cloned();
            let line = format!("x{}.{}{}", self.layer, k.map(|k| k.to_string()).unwrap_or("?".into()), if readable { "r" } else { "u" });
            sh.log.push(line);
            sh.wills.iter().filter(|w| w.0 == self.layer && Some(w.1) == k).map(|w| w.2).collect()
        };
        for j in drops {
            let h = self.sh.lock().unwrap().handles.remove(&j);
            drop(h);
        }
    }
}

fn run_case(toks: &[&str]) -> String {
    let parts: Vec<&[&str]> = toks.split(|t| *t == ";;").collect();
    if parts.len() != 3 || parts[0].len() < 2 { return "bad-case".into(); }
    let n: usize = parts[0][0].parse().unwrap_or(0);
    let m: usize = parts[0][1].parse().unwrap_or(0);
    if parts[0].len() != 2 + m || n == 0 || n > 3 { return "bad-case".into(); }
    let sh = Arc::new(Mutex::new(Shared::default()));
    for w in parts[1] {
        let f: Vec<usize> = w.split(':').filter_map(|x| x.parse().ok()).collect();
        if f.len() != 3 { return "bad-case".into(); }
        sh.lock().unwrap().wills.push((f[0], f[1], f[2]));
    }
    let l = |i: usize| NL { layer: i, sh: sh.clone() };
    let d: Dispatch = match n {
        1 => Dispatch::new(tracing_subscriber::registry().with(l(1))),
        2 => Dispatch::new(tracing_subscriber::registry().with(l(1)).with(l(2))),
        _ => Dispatch::new(tracing_subscriber::registry().with(l(1)).with(l(2)).with(l(3))),
    };
    let mut outs: Vec<String> = Vec::new();
    let mut ids: Vec<span::Id> = Vec::new();
    tracing::dispatch::with_default(&d, || {
        for k in 0..m {
            let p = parts[0][2 + k];
            let s = if p == "-" {
                span!(parent: None, Level::INFO, "sp", k = k as u64)
            } else {
                let j: usize = p.parse().expect("parent index");
                let parent = sh.lock().unwrap().handles.get(&j).cloned().expect("parent handle");
                let s = span!(parent: &parent, Level::INFO, "sp", k = k as u64);
                drop(parent);
                s
            };
            ids.push(s.id().expect("enabled"));
            sh.lock().unwrap().handles.insert(k, s);
        }
        sh.lock().unwrap().log.clear();
        for op in parts[2].split(|t| *t == ";") {
            if op.is_empty() { continue; }
            if op.len() != 2 || op[0] != "dr" { outs.push("bad-op".into()); continue; }
            let k: usize = op[1].parse().unwrap();
            let h = sh.lock().unwrap().handles.remove(&k);
            drop(h);
            let mut s = sh.lock().unwrap();
            outs.push(if s.log.is_empty() { "-".into() } else { s.log.join(",") });
            s.log.clear();
        }
        let reg = d.downcast_ref::<Registry>().expect("registry");
        let live: Vec<String> = (0..m).filter(|k| reg.span(&ids[*k]).is_some()).map(|k| k.to_string()).collect();
        outs.push(format!("live={}", if live.is_empty() { "-".into() } else { live.join(".") }));
        // what is still held goes while the collector is the default
        let rest: Vec<Span> = sh.lock().unwrap().handles.drain().map(|(_, s)| s).collect();
        drop(rest);
    });
    outs.join(" ")
}

fn main() {
    std::panic::set_hook(Box::new(|_| {}));
    tv_harness::serve(|toks| {
        let owned: Vec<String> = toks.iter().map(|s| s.to_string()).collect();
        // one thread per history: CLOSE_COUNT is a thread-local
        let h = std::thread::spawn(move || { let t: Vec<&str> = owned.iter().map(|s| s.as_str()).collect(); run_case(&t) });
        match h.join() { Ok(s) => s, Err(_) => "PANIC".into() }
    });
}
