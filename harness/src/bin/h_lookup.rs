//! C07 lookup executor: a real layer stack over the Registry whose recording layers LOOK SPANS UP from
//! inside their callbacks (`Context::{span, lookup_current, span_scope, event_span, event_scope}`,
//! `SpanRef::parent`) and log what they were shown.
//!   <stack> ;; op ; op ; …
//!   stack: `P<n>` | `G<leaf>` | `F<n> <expr…> .`      (innermost first, composed with and_then)
//!   ops:   sp <k> <mi> <ctx> <par> | ev <mi> <ctx> <par> | en k | ex k | rc k | cl k        par = r | c | <j>
//! Output per op: `s:` / `e:` / `l:` followed by the receiving layers, innermost first, `/`-separated, each
//! `<n>(<lookups>)`; spans are named by the program's `k`.
use std::cell::RefCell;
use std::collections::HashMap;
use tracing::{Dispatch, Event};
use tracing_core::{collect::Interest, span, Metadata};
use tracing_subscriber::registry::LookupSpan;
use tracing_subscriber::subscribe::{CollectExt, Context, Subscribe};
use tv_harness::fexpr::*;

thread_local! {
    static RECV: RefCell<Vec<String>> = const { RefCell::new(Vec::new()) };
    static NAMES: RefCell<HashMap<u64, usize>> = RefCell::new(HashMap::new());
    static PENDING: RefCell<Option<usize>> = const { RefCell::new(None) };
}

fn name(id: &span::Id) -> String {
    NAMES.with(|n| n.borrow().get(&id.into_u64()).map(|k| k.to_string()).unwrap_or_else(|| format!("?{}", id.into_u64())))
}
fn opt<C: for<'a> LookupSpan<'a>>(s: Option<tracing_subscriber::registry::SpanRef<'_, C>>) -> String {
    s.map(|s| name(&s.id())).unwrap_or_else(|| "-".into())
}
fn scope<C: for<'a> LookupSpan<'a>>(s: Option<tracing_subscriber::registry::Scope<'_, C>>) -> String {
    match s {
        None => "-".into(),
        Some(sc) => { let v: Vec<String> = sc.map(|s| name(&s.id())).collect(); if v.is_empty() { ".".into() } else { v.join(",") } }
    }
}
fn push(n: usize, what: String) { RECV.with(|r| r.borrow_mut().push(format!("{}({})", n, what))); }

struct Rec(usize);
impl<C: tracing::Collect + for<'a> LookupSpan<'a>> Subscribe<C> for Rec {
    fn on_event(&self, e: &Event<'_>, ctx: Context<'_, C>) {
        push(self.0, format!("es={}|sc={}|cu={}", opt(ctx.event_span(e)), scope(ctx.event_scope(e)), opt(ctx.lookup_current())));
    }
    fn on_new_span(&self, _: &span::Attributes<'_>, id: &span::Id, ctx: Context<'_, C>) {
        if let Some(k) = PENDING.with(|p| *p.borrow()) { NAMES.with(|n| n.borrow_mut().insert(id.into_u64(), k)); }
        let pa = match ctx.span(id) { Some(s) => opt(s.parent()), None => "!".into() };
        push(self.0, format!("pa={}|sc={}|cu={}", pa, scope(ctx.span_scope(id)), opt(ctx.lookup_current())));
    }
    fn on_enter(&self, id: &span::Id, ctx: Context<'_, C>) { self.life(id, ctx) }
    fn on_exit(&self, id: &span::Id, ctx: Context<'_, C>) { self.life(id, ctx) }
    fn on_record(&self, id: &span::Id, _: &span::Record<'_>, ctx: Context<'_, C>) { self.life(id, ctx) }
    fn on_close(&self, id: span::Id, ctx: Context<'_, C>) { self.life(&id, ctx) }
}
impl Rec {
    fn life<C: tracing::Collect + for<'a> LookupSpan<'a>>(&self, id: &span::Id, ctx: Context<'_, C>) {
        push(self.0, format!("sc={}|cu={}", scope(ctx.span_scope(id)), opt(ctx.lookup_current())));
    }
}

fn take_recv() -> String {
    RECV.with(|r| { let v = r.borrow().join("/"); r.borrow_mut().clear(); v })
}

fn build_stack(toks: &[&str]) -> Dispatch {
    let mut acc: Option<BoxS> = None;
    let mut i = 0;
    while i < toks.len() {
        let t = toks[i];
        let l: BoxS = match t.as_bytes()[0] {
            b'P' => { i += 1; Box::new(Rec(t[1..].parse().unwrap())) }
            b'G' => { i += 1; build_global(&t[1..]) }
            b'F' => {
                let n: usize = t[1..].parse().unwrap();
                let end = i + 1 + toks[i + 1..].iter().position(|x| *x == ".").expect("terminator");
                let mut p = 0;
                // a conjunction `& a c` over an odd-numbered layer is deployed as TWO nested per-layer filters
                // (`layer.with_filter(a).with_filter(c)`): both must accept, a span either rejects is invisible — the same thing as
                // far as the LAYERS can tell, provided a plain layer is in the stack (with nested filters the registry may keep a
                // span that no layer wanted — the outer filter's veto leaves the inner filter's bit untouched — which shows in
                // later spans' ancestry; with a plain layer every span exists anyway)
                if toks[i + 1] == "&" && n % 2 == 1 && toks.iter().any(|t| t.starts_with('P')) {
                    p = 1;
                    let a = build(&toks[i + 1..end], &mut p);
                    let c = build(&toks[i + 1..end], &mut p);
                    i = end + 1;
                    Box::new(Rec(n).with_filter(a).with_filter(c))
                } else {
                    let f = build(&toks[i + 1..end], &mut p);
                    i = end + 1;
                    Box::new(Rec(n).with_filter(f))
                }
            }
            _ => panic!("bad stack token {}", t),
        };
        acc = Some(match acc { None => l, Some(a) => Box::new(a.and_then(l)) });
    }
    Dispatch::new(tracing_subscriber::registry().with(acc.expect("at least one layer")))
}

fn run_ops(d: &Dispatch, ops: &[&str], uni: &[&'static Metadata<'static>]) -> String {
    let mut interest: HashMap<usize, Interest> = HashMap::new();
    let mut spans: HashMap<usize, span::Id> = HashMap::new();
    let mut outs: Vec<String> = Vec::new();
    RECV.with(|r| r.borrow_mut().clear());
    NAMES.with(|n| n.borrow_mut().clear());
    for op in ops.split(|t| *t == ";") {
        if op.is_empty() { continue; }
        match op[0] {
            "ev" | "sp" => {
                let kind = op[0];
                let (k, op): (usize, &[&str]) = if kind == "sp" { (op[1].parse().unwrap(), &op[1..]) } else { (0, op) };
                let mi: usize = op[1].parse().unwrap();
                let m = uni[mi];
                FLAG.with(|f| f.set(op[2] == "1"));
                // an explicit parent that was never created (nobody wanted it) or is gone: a root
                let par: Option<Option<span::Id>> = match op[3] { "c" => None, "r" => Some(None), j => Some(spans.get(&j.parse::<usize>().unwrap()).cloned()) };
                let i = interest.entry(mi).or_insert_with(|| d.register_callsite(m)).clone();
                let enabled = !i.is_never() && (i.is_always() || d.enabled(m));
                let vs = m.fields().value_set(&[]);
                if kind == "ev" {
                    if enabled {
                        match par { None => d.event(&Event::new(m, &vs)), Some(p) => d.event(&Event::new_child_of(p, m, &vs)) }
                    }
                    outs.push(format!("e:{}", take_recv()));
                } else if enabled {
                    PENDING.with(|p| *p.borrow_mut() = Some(k));
                    let id = match par {
                        None => d.new_span(&span::Attributes::new(m, &vs)),
                        Some(None) => d.new_span(&span::Attributes::new_root(m, &vs)),
                        Some(Some(p)) => d.new_span(&span::Attributes::child_of(p, m, &vs)),
                    };
                    PENDING.with(|p| *p.borrow_mut() = None);
                    NAMES.with(|n| n.borrow_mut().insert(id.into_u64(), k));
                    spans.insert(k, id);
                    outs.push(format!("s:{}", take_recv()));
                } else {
                    outs.push("s:".into());
                }
                FLAG.with(|f| f.set(false));
            }
            "en" | "ex" | "rc" | "cl" => {
                let k: usize = op[1].parse().unwrap();
                if let Some(id) = spans.get(&k).cloned() {
                    match op[0] {
                        "en" => d.enter(&id),
                        "ex" => d.exit(&id),
                        "rc" => { let m = d.downcast_ref::<tracing_subscriber::Registry>().and_then(|r| r.span(&id).map(|s| s.metadata())); if let Some(m) = m { let vs = m.fields().value_set(&[]); d.record(&id, &span::Record::new(&vs)); } }
                        _ => { d.try_close(id.clone()); spans.remove(&k); }
                    }
                    outs.push(format!("l:{}", take_recv()));
                } else {
                    outs.push("l:".into());
                }
            }
            _ => outs.push("bad-op".into()),
        }
    }
    outs.join(" ")
}

fn main() {
    if std::env::var("TV_QUIET_PANIC").is_ok() { std::panic::set_hook(Box::new(|_| {})); }
    let uni: &'static Vec<&'static Metadata<'static>> = Box::leak(Box::new(universe()));
    tv_harness::serve(|toks| {
        let owned: Vec<String> = toks.iter().map(|s| s.to_string()).collect();
        // a fresh thread per case: the span stack and the per-layer-filter state are thread-local
        let h = std::thread::spawn(move || {
            let t: Vec<&str> = owned.iter().map(|s| s.as_str()).collect();
            let sep = t.iter().position(|x| *x == ";;").expect(";;");
            let d = build_stack(&t[..sep]);
            let dd = d.clone();
            tracing::dispatch::with_default(&dd, || run_ops(&d, &t[sep + 1..], uni))
        });
        match h.join() { Ok(s) => s, Err(_) => "PANIC".into() }
    });
}
