//! C07 (and C09/C12 later) executor: a real layer stack over the Registry, built from a description,
//! driven through the Dispatch API with synthetic metadata exactly as the macros would
//! (interest cached per callsite; `never` skips, `always` skips the `enabled` call).
//!   <stack> ;; op ; op ; …
//!   stack: `P<n>` | `G<leaf>` | `F<n> <expr…> .`      (innermost first)
//!   ops:   ev <mi> <ctx> | sp <mi> <ctx> | en k | ex k | rc k | cl k | pr <mi> <ctx>
use std::cell::RefCell;
use std::collections::HashMap;
use tracing::{Dispatch, Event};
use tracing_core::{collect::Interest, span, Metadata};
use tracing_subscriber::subscribe::{CollectExt, Context, Subscribe};
use tv_harness::fexpr::*;

thread_local! { static RECV: RefCell<Vec<usize>> = const { RefCell::new(Vec::new()) }; }

struct Rec(usize);
impl<C: tracing::Collect + for<'a> tracing_subscriber::registry::LookupSpan<'a>> Subscribe<C> for Rec {
    fn on_event(&self, _: &Event<'_>, _: Context<'_, C>) { RECV.with(|r| r.borrow_mut().push(self.0)); }
    fn on_new_span(&self, _: &span::Attributes<'_>, _: &span::Id, _: Context<'_, C>) { RECV.with(|r| r.borrow_mut().push(self.0)); }
    fn on_enter(&self, _: &span::Id, _: Context<'_, C>) { RECV.with(|r| r.borrow_mut().push(self.0)); }
    fn on_exit(&self, _: &span::Id, _: Context<'_, C>) { RECV.with(|r| r.borrow_mut().push(self.0)); }
    fn on_record(&self, _: &span::Id, _: &span::Record<'_>, _: Context<'_, C>) { RECV.with(|r| r.borrow_mut().push(self.0)); }
    fn on_close(&self, _: span::Id, _: Context<'_, C>) { RECV.with(|r| r.borrow_mut().push(self.0)); }
}

fn take_recv() -> String {
    RECV.with(|r| {
        let v: Vec<String> = r.borrow().iter().map(|n| n.to_string()).collect();
        r.borrow_mut().clear();
        v.join(".")
    })
}

/// `registry().with(l0.and_then(l1).and_then(l2)…)`: the way stacks whose shape is only known at run
/// time are built (every element boxed as `dyn Subscribe<Registry>`)
fn build_stack(toks: &[&str]) -> Dispatch {
    let mut it = parse_layers(toks).into_iter();
    let mut acc: BoxS = it.next().expect("at least one layer");
    for l in it {
        acc = Box::new(acc.and_then(l));
    }
    Dispatch::new(tracing_subscriber::registry().with(acc))
}

fn parse_layers(toks: &[&str]) -> Vec<BoxS> {
    let mut layers: Vec<BoxS> = Vec::new();
    let mut i = 0;
    while i < toks.len() {
        let t = toks[i];
        match t.as_bytes()[0] {
            b'P' => { layers.push(Box::new(Rec(t[1..].parse().unwrap()))); i += 1; }
            b'G' => { layers.push(build_global(&t[1..])); i += 1; }
            b'F' => {
                let n: usize = t[1..].parse().unwrap();
                let end = i + 1 + toks[i + 1..].iter().position(|x| *x == ".").expect("terminator");
                let mut p = 0;
                let f = build(&toks[i + 1..end], &mut p);
                layers.push(Box::new(Rec(n).with_filter(f)));
                i = end + 1;
            }
            _ => panic!("bad stack token {}", t),
        }
    }
    layers
}

fn run_case(line: &[&str], uni: &[&'static Metadata<'static>]) -> String {
    let sep = line.iter().position(|t| *t == ";;").expect(";;");
    let d = build_stack(&line[..sep]);
    let dd = d.clone();
    tracing::dispatch::with_default(&dd, || run_ops(&d, &line[sep + 1..], uni))
}

fn run_ops(d: &Dispatch, ops: &[&str], uni: &[&'static Metadata<'static>]) -> String {
    let mut interest: HashMap<usize, Interest> = HashMap::new();
    let mut spans: HashMap<usize, span::Id> = HashMap::new();
    let mut outs: Vec<String> = Vec::new();
    RECV.with(|r| r.borrow_mut().clear());
    for op in ops.split(|t| *t == ";") {
        if op.is_empty() { continue; }
        match op[0] {
            "ev" | "sp" | "pr" => {
                // `sp <k> <mi> <ctx>` names the span; `ev <mi> <ctx>` / `pr <mi> <ctx>`
                let kind = op[0];
                let (name, op): (usize, &[&str]) = if kind == "sp" { (op[1].parse().unwrap(), &op[1..]) } else { (0, op) };
                let mi: usize = op[1].parse().unwrap();
                let m = uni[mi];
                FLAG.with(|f| f.set(op[2] == "1"));
                let i = interest.entry(mi).or_insert_with(|| d.register_callsite(m)).clone();
                let enabled = !i.is_never() && (i.is_always() || d.enabled(m));
                match kind {
                    "pr" => outs.push(format!("p:{}", if enabled { 1 } else { 0 })),
                    "ev" => {
                        if enabled { let vs = m.fields().value_set(&[]); d.event(&Event::new(m, &vs)); }
                        outs.push(format!("e:{}", take_recv()));
                    }
                    _ => {
                        if enabled {
                            let vs = m.fields().value_set(&[]);
                            let id = d.new_span(&span::Attributes::new_root(m, &vs));
                            spans.insert(name, id);
                            outs.push(format!("s:{}", take_recv()));
                        } else {
                            outs.push("s:".into());
                        }
                    }
                }
                FLAG.with(|f| f.set(false));
            }
            "en" | "ex" | "rc" | "cl" => {
                let k: usize = op[1].parse().unwrap();
                if let Some(id) = spans.get(&k) {
                    match op[0] {
                        "en" => d.enter(id),
                        "ex" => d.exit(id),
                        "rc" => { let m = d.downcast_ref::<tracing_subscriber::Registry>().and_then(|r| { use tracing_subscriber::registry::LookupSpan; r.span(id).map(|s| s.metadata()) }); if let Some(m) = m { let vs = m.fields().value_set(&[]); d.record(id, &span::Record::new(&vs)); } }
                        _ => { d.try_close(id.clone()); }
                    }
                    outs.push(format!("l:{}", take_recv()));
                } else {
                    outs.push("l:".into());
                }
            }
            _ => outs.push("bad-op".into()),
        }
    }
    outs.join(" ")
}

fn main() {
    if std::env::var("TV_QUIET_PANIC").is_ok() { std::panic::set_hook(Box::new(|_| {})); }
    let uni = universe();
    // every case runs on a fresh thread: the per-layer-filter state is thread-local, and a case may
    // legitimately leave it dirty (that is finding F3) — it must not leak into the next case
    let uni: &'static Vec<&'static Metadata<'static>> = Box::leak(Box::new(uni));
    tv_harness::serve(|toks| {
        let owned: Vec<String> = toks.iter().map(|s| s.to_string()).collect();
        let h = std::thread::spawn(move || {
            let t: Vec<&str> = owned.iter().map(|s| s.as_str()).collect();
            run_case(&t, uni)
        });
        match h.join() { Ok(s) => s, Err(_) => "PANIC".into() }
    });
}
