//! C07 (and C09/C12 later) executor: a real layer stack over the Registry, built from a description,
//! driven through the Dispatch API with synthetic metadata exactly as the macros would
//! (interest cached per callsite; `never` skips, `always` skips the `enabled` call).
//!   <stack> ;; op ; op ; …
//!   stack: `P<n>` | `G<leaf>` | `F<n> <expr…> .`      (innermost first)
//!   ops:   ev <mi> <ctx> | sp <mi> <ctx> | en k | ex k | rc k | cl k | pr <mi> <ctx>
use std::cell::RefCell;
use std::collections::HashMap;
use tracing::{Dispatch, Event};
use tracing_core::{collect::Interest, span, Metadata};
use tracing_subscriber::subscribe::{CollectExt, Context, Subscribe};
use tv_harness::fexpr::*;

thread_local! {
    static RECV: RefCell<Vec<usize>> = const { RefCell::new(Vec::new()) };
    /// every notification kind, for the wrapper-transparency stream (C09): "<layer>:<kind>"
    static FULL: RefCell<Vec<String>> = const { RefCell::new(Vec::new()) };
}
fn full(n: usize, k: &str) { FULL.with(|f| f.borrow_mut().push(format!("{}:{}", n, k))); }
thread_local! {
    /// pair mode (`W`): the notification's payload (span ids, the event's callsite) is logged too, so that a wrapper
    /// that forwards the right call with the wrong arguments is seen
    static PAYLOAD: std::cell::Cell<bool> = const { std::cell::Cell::new(false) };
}
fn fullp(n: usize, k: &str, payload: impl FnOnce() -> String) {
    if PAYLOAD.with(|p| p.get()) { full(n, &format!("{}[{}]", k, payload())) } else { full(n, k) }
}

#[derive(Clone, Copy)]
enum RecKind { Plain, MetaVeto(usize), EventVeto(usize), Never(usize) }
struct Rec(usize, RecKind);
fn rec(n: usize) -> Rec { Rec(n, RecKind::Plain) }
fn rank(l: &tracing::Level) -> usize {
    match *l { tracing::Level::ERROR => 1, tracing::Level::WARN => 2, tracing::Level::INFO => 3, tracing::Level::DEBUG => 4, _ => 5 }
}
impl<C: tracing::Collect + for<'a> tracing_subscriber::registry::LookupSpan<'a>> Subscribe<C> for Rec {
    fn on_register_dispatch(&self, _: &Dispatch) { full(self.0, "dispatch"); }
    fn on_subscribe(&mut self, _: &mut C) { full(self.0, "subscribe"); }
    fn register_callsite(&self, m: &'static Metadata<'static>) -> Interest {
        fullp(self.0, "callsite", || format!("{}@{}", m.name(), m.target()));
        match self.1 {
            RecKind::MetaVeto(_) => Interest::sometimes(),
            RecKind::Never(k) if rank(m.level()) > k => Interest::never(),
            _ => Interest::always(),
        }
    }
    fn enabled(&self, m: &Metadata<'_>, _: Context<'_, C>) -> bool {
        fullp(self.0, "enabled", || format!("{}@{}", m.name(), m.target()));
        match self.1 { RecKind::MetaVeto(k) | RecKind::Never(k) => rank(m.level()) <= k, _ => true }
    }
    fn event_enabled(&self, e: &Event<'_>, _: Context<'_, C>) -> bool {
        fullp(self.0, "event_enabled", || format!("{}@{}", e.metadata().name(), e.metadata().target()));
        match self.1 { RecKind::EventVeto(k) => rank(e.metadata().level()) <= k, _ => true }
    }
    fn on_follows_from(&self, a: &span::Id, b: &span::Id, _: Context<'_, C>) { fullp(self.0, "follows", || format!("{}<{}", a.into_u64(), b.into_u64())); }
    fn on_event(&self, e: &Event<'_>, _: Context<'_, C>) { fullp(self.0, "event", || format!("{}@{}", e.metadata().name(), e.metadata().target())); RECV.with(|r| r.borrow_mut().push(self.0)); }
    fn on_new_span(&self, a: &span::Attributes<'_>, id: &span::Id, _: Context<'_, C>) { fullp(self.0, "new_span", || format!("{}={}@{}", id.into_u64(), a.metadata().name(), a.metadata().target())); RECV.with(|r| r.borrow_mut().push(self.0)); }
    fn on_enter(&self, id: &span::Id, _: Context<'_, C>) { fullp(self.0, "enter", || id.into_u64().to_string()); RECV.with(|r| r.borrow_mut().push(self.0)); }
    fn on_exit(&self, id: &span::Id, _: Context<'_, C>) { fullp(self.0, "exit", || id.into_u64().to_string()); RECV.with(|r| r.borrow_mut().push(self.0)); }
    fn on_record(&self, id: &span::Id, _: &span::Record<'_>, _: Context<'_, C>) { fullp(self.0, "record", || id.into_u64().to_string()); RECV.with(|r| r.borrow_mut().push(self.0)); }
    fn on_close(&self, id: span::Id, _: Context<'_, C>) { fullp(self.0, "close", || id.into_u64().to_string()); RECV.with(|r| r.borrow_mut().push(self.0)); }
}

/// a per-layer FILTER that logs every callback it receives ("f<n>:<kind>[payload]"); it lets through what is at or below level k
struct RecFilter(usize, usize);
type BoxF = Box<dyn tracing_subscriber::subscribe::Filter<tracing_subscriber::Registry> + Send + Sync>;
impl tracing_subscriber::subscribe::Filter<tracing_subscriber::Registry> for RecFilter {
    fn enabled(&self, m: &Metadata<'_>, _: &Context<'_, tracing_subscriber::Registry>) -> bool {
        fullp(1000 + self.0, "f_enabled", || format!("{}@{}", m.name(), m.target()));
        rank(m.level()) <= self.1
    }
    fn callsite_enabled(&self, m: &'static Metadata<'static>) -> Interest {
        fullp(1000 + self.0, "f_callsite", || format!("{}@{}", m.name(), m.target()));
        Interest::sometimes()
    }
    fn max_level_hint(&self) -> Option<tracing_core::LevelFilter> { None }
    fn event_enabled(&self, e: &Event<'_>, _: &Context<'_, tracing_subscriber::Registry>) -> bool {
        fullp(1000 + self.0, "f_event_enabled", || format!("{}@{}", e.metadata().name(), e.metadata().target()));
        true
    }
    fn on_new_span(&self, a: &span::Attributes<'_>, id: &span::Id, _: Context<'_, tracing_subscriber::Registry>) { fullp(1000 + self.0, "f_new_span", || format!("{}={}", id.into_u64(), a.metadata().name())); }
    fn on_record(&self, id: &span::Id, _: &span::Record<'_>, _: Context<'_, tracing_subscriber::Registry>) { fullp(1000 + self.0, "f_record", || id.into_u64().to_string()); }
    fn on_enter(&self, id: &span::Id, _: Context<'_, tracing_subscriber::Registry>) { fullp(1000 + self.0, "f_enter", || id.into_u64().to_string()); }
    fn on_exit(&self, id: &span::Id, _: Context<'_, tracing_subscriber::Registry>) { fullp(1000 + self.0, "f_exit", || id.into_u64().to_string()); }
    fn on_close(&self, id: span::Id, _: Context<'_, tracing_subscriber::Registry>) { fullp(1000 + self.0, "f_close", || id.into_u64().to_string()); }
}
/// pass-through wrappers of a FILTER, named by the letters after `~`: `x` Box<dyn Filter> again, `a` Arc<dyn Filter>, `s` Some(_),
/// `r` reload::Subscriber used as a filter
fn wrap_filter(letters: &str, f: BoxF) -> BoxF {
    let mut f = f;
    for c in letters.chars().rev() {
        f = match c {
            'x' => Box::new(f),
            'a' => { let a: std::sync::Arc<dyn tracing_subscriber::subscribe::Filter<tracing_subscriber::Registry> + Send + Sync> = std::sync::Arc::new(f); Box::new(a) }
            's' => Box::new(Some(f)),
            'r' => { let (s, h) = tracing_subscriber::reload::Subscriber::new(f); std::mem::forget(h); Box::new(s) }
            _ => panic!("bad filter wrapper {}", c),
        };
    }
    f
}

fn take_recv() -> String {
    RECV.with(|r| {
        let v: Vec<String> = r.borrow().iter().map(|n| n.to_string()).collect();
        r.borrow_mut().clear();
        v.join(".")
    })
}

/// `registry().with(l0.and_then(l1).and_then(l2)…)`: the way stacks whose shape is only known at run
/// time are built (every element boxed as `dyn Subscribe<Registry>`)
fn build_stack(toks: &[&str]) -> Dispatch {
    let (cw, toks) = match toks.first() { Some(&"@box") => (1, &toks[1..]), Some(&"@arc") => (2, &toks[1..]), _ => (0, toks) };
    let mut i = 0;
    let acc = parse_group(toks, &mut i).expect("at least one layer");
    let c = tracing_subscriber::registry().with(acc);
    match cw {
        1 => Dispatch::new(Box::new(c) as Box<dyn tracing::Collect + Send + Sync>),
        2 => Dispatch::new(std::sync::Arc::new(c)),
        _ => Dispatch::new(c),
    }
}

/// items up to a closing `)` or the end, composed left to right with `and_then`
fn parse_group(toks: &[&str], i: &mut usize) -> Option<BoxS> {
    let mut acc: Option<BoxS> = None;
    while *i < toks.len() {
        if toks[*i] == ")" { *i += 1; break; }
        let l: BoxS = if toks[*i] == "(" {
            *i += 1;
            match parse_group(toks, i) { Some(g) => g, None => continue }
        } else if toks[*i] == "[" {
            // `[ l0 l1 … ]`: ONE subscriber, a Vec of the member layers (innermost first, the order they are notified in)
            *i += 1;
            let mut members: Vec<BoxS> = Vec::new();
            while *i < toks.len() && toks[*i] != "]" { members.push(parse_layer(toks, i)); }
            *i += 1;
            Box::new(members)
        } else {
            parse_layer(toks, i)
        };
        acc = Some(match acc { None => l, Some(a) => Box::new(a.and_then(l)) });
    }
    acc
}

/// pass-through wrappers named by prefixes of a layer token: `b:` Box again, `o:` Some(_), `v:` vec![_],
/// `r:` reload::Subscriber, `i:` and_then(Identity); a token `none` is `None::<layer>`, `empty` is `Vec::new()`
fn wrap(prefixes: &[&str], l: BoxS) -> BoxS {
    let mut l = l;
    for p in prefixes.iter().rev() {
        l = match *p {
            "b" => Box::new(l),
            "o" => Box::new(Some(l)),
            "v" => Box::new(vec![l]),
            "r" => { let (s, h) = tracing_subscriber::reload::Subscriber::new(l); std::mem::forget(h); Box::new(s) }
            "i" => Box::new(l.and_then(tracing_subscriber::subscribe::Identity::new())),
            _ => panic!("bad wrapper prefix {}", p),
        };
    }
    l
}

fn parse_layer(toks: &[&str], ip: &mut usize) -> BoxS {
    let i = *ip;
    let full_tok = toks[i];
    if full_tok == "none" { *ip += 1; return Box::new(None::<BoxS>); }
    if full_tok == "empty" { *ip += 1; return Box::new(Vec::<BoxS>::new()); }
    let parts: Vec<&str> = full_tok.split(':').collect();
    let (prefixes, t) = (&parts[..parts.len() - 1], parts[parts.len() - 1]);
    let veto = |t: &str| -> (usize, usize) { let mut it = t[1..].split('l'); (it.next().unwrap().parse().unwrap(), it.next().unwrap().parse().unwrap()) };
    match t.as_bytes()[0] {
        b'P' => { *ip += 1; wrap(prefixes, Box::new(rec(t[1..].parse().unwrap()))) }
        b'M' => { *ip += 1; let (n, k) = veto(t); wrap(prefixes, Box::new(Rec(n, RecKind::MetaVeto(k)))) }
        b'E' => { *ip += 1; let (n, k) = veto(t); wrap(prefixes, Box::new(Rec(n, RecKind::EventVeto(k)))) }
        b'N' => { *ip += 1; let (n, k) = veto(t); wrap(prefixes, Box::new(Rec(n, RecKind::Never(k)))) }
        b'G' => { *ip += 1; wrap(prefixes, build_global(&t[1..])) }
        b'R' => {
            // `R<n>l<k>[~<filter wrappers>]`: recording layer n behind the recording filter n (lets through levels <= k)
            *ip += 1;
            let (body, letters) = match t.split_once('~') { Some((b, l)) => (b, l), None => (t, "") };
            let (n, k) = veto(body);
            if letters.is_empty() {
                // bare: the concrete filter type, no wrapper of any kind
                wrap(prefixes, Box::new(rec(n).with_filter(RecFilter(n, k))))
            } else {
                let f = wrap_filter(letters, Box::new(RecFilter(n, k)));
                wrap(prefixes, Box::new(rec(n).with_filter(f)))
            }
        }
        b'F' => {
            let n: usize = t[1..].parse().unwrap();
            let end = i + 1 + toks[i + 1..].iter().position(|x| *x == ".").expect("terminator");
            let mut p = 0;
            let f = build(&toks[i + 1..end], &mut p);
            *ip = end + 1;
            wrap(prefixes, Box::new(rec(n).with_filter(f)))
        }
        _ => panic!("bad stack token {}", t),
    }
}

fn full_take() -> String {
    FULL.with(|f| { let v = f.borrow().join(","); f.borrow_mut().clear(); if v.is_empty() { "-".into() } else { v } })
}

/// `W <stackA> ;; <stackB> ;; ops`: the same workload through both stacks; prints both full notification logs
fn run_pair(line: &[&str], uni: &[&'static Metadata<'static>]) -> String {
    let s1 = line.iter().position(|t| *t == ";;").expect(";;");
    let s2 = s1 + 1 + line[s1 + 1..].iter().position(|t| *t == ";;").expect("second ;;");
    let mut logs = Vec::new();
    PAYLOAD.with(|p| p.set(true));
    for stack in [&line[1..s1], &line[s1 + 1..s2]] {
        FULL.with(|f| f.borrow_mut().clear());
        if stack.iter().all(|t| ["none", "empty", "(", ")", "@box", "@arc"].contains(t)) { logs.push("-".to_string()); continue; }
        let d = build_stack(stack);
        let dd = d.clone();
        tracing::dispatch::with_default(&dd, || run_ops(&d, &line[s2 + 1..], uni));
        drop(dd);
        logs.push(full_take());
    }
    format!("{} || {}", logs[0], logs[1])
}

fn run_case(line: &[&str], uni: &[&'static Metadata<'static>]) -> String {
    if line[0] == "W" { return run_pair(line, uni); }
    if line[0] == "H" {
        // `H <stack>`: the max level the stack publishes (as the macros read it: LevelFilter::current(), this dispatcher being the
        // only live one), rank 0 (OFF) … 5 (TRACE; also "no hint")
        if line[1..].iter().all(|t| ["none", "empty", "(", ")", "@box", "@arc"].contains(t)) { return "-".into(); }
        let d = build_stack(&line[1..]);
        let r = match tracing_core::LevelFilter::current().into_level() { None => 0, Some(l) => rank(&l) };
        drop(d);
        return format!("h:{}", r);
    }
    if line[0] == "N" {
        // `N <stack> ;; ops`: the full notification log of one stack
        let sep = line.iter().position(|t| *t == ";;").expect(";;");
        FULL.with(|f| f.borrow_mut().clear());
        if line[1..sep].iter().all(|t| ["none", "empty", "(", ")", "@box", "@arc"].contains(t)) { return "-".into(); }
        let d = build_stack(&line[1..sep]);
        let dd = d.clone();
        tracing::dispatch::with_default(&dd, || run_ops(&d, &line[sep + 1..], uni));
        drop(dd);
        return full_take();
    }
    let sep = line.iter().position(|t| *t == ";;").expect(";;");
    let d = build_stack(&line[..sep]);
    let dd = d.clone();
    tracing::dispatch::with_default(&dd, || run_ops(&d, &line[sep + 1..], uni))
}

fn run_ops(d: &Dispatch, ops: &[&str], uni: &[&'static Metadata<'static>]) -> String {
    let mut interest: HashMap<usize, Interest> = HashMap::new();
    let hint_gate = if std::env::var("TV_HINT_GATE").is_ok() { let _ = d; Some(tracing_core::LevelFilter::current()) } else { None };
    let mut spans: HashMap<usize, span::Id> = HashMap::new();
    let mut outs: Vec<String> = Vec::new();
    RECV.with(|r| r.borrow_mut().clear());
    for op in ops.split(|t| *t == ";") {
        if op.is_empty() { continue; }
        match op[0] {
            "ev" | "sp" | "pr" => {
                // `sp <k> <mi> <ctx>` names the span; `ev <mi> <ctx>` / `pr <mi> <ctx>`
                let kind = op[0];
                let (name, op): (usize, &[&str]) = if kind == "sp" { (op[1].parse().unwrap(), &op[1..]) } else { (0, op) };
                let mi: usize = op[1].parse().unwrap();
                let m = uni[mi];
                FLAG.with(|f| f.set(op[2] == "1"));
                // the macros' first gate: the level against the stack's max-level hint (as published when the
                // dispatcher was built); only with TV_HINT_GATE, so that streams which log the callbacks are unaffected
                let enabled = if hint_gate.map(|h| *m.level() > h).unwrap_or(false) { false } else {
                    let i = interest.entry(mi).or_insert_with(|| d.register_callsite(m)).clone();
                    !i.is_never() && (i.is_always() || d.enabled(m))
                };
                match kind {
                    "pr" => outs.push(format!("p:{}", if enabled { 1 } else { 0 })),
                    "ev" => {
                        if enabled { let vs = m.fields().value_set(&[]); d.event(&Event::new(m, &vs)); }
                        outs.push(format!("e:{}", take_recv()));
                    }
                    _ => {
                        if enabled {
                            let vs = m.fields().value_set(&[]);
                            let id = d.new_span(&span::Attributes::new_root(m, &vs));
                            spans.insert(name, id);
                            outs.push(format!("s:{}", take_recv()));
                        } else {
                            outs.push("s:".into());
                        }
                    }
                }
                FLAG.with(|f| f.set(false));
            }
            "en" | "ex" | "rc" | "cl" => {
                let k: usize = op[1].parse().unwrap();
                if let Some(id) = spans.get(&k) {
                    match op[0] {
                        "en" => d.enter(id),
                        "ex" => d.exit(id),
                        "rc" => { let m = d.downcast_ref::<tracing_subscriber::Registry>().and_then(|r| { use tracing_subscriber::registry::LookupSpan; r.span(id).map(|s| s.metadata()) }); if let Some(m) = m { let vs = m.fields().value_set(&[]); d.record(id, &span::Record::new(&vs)); } }
                        _ => { d.try_close(id.clone()); }
                    }
                    outs.push(format!("l:{}", take_recv()));
                    if op[0] == "cl" { spans.remove(&k); }
                } else {
                    outs.push("l:".into());
                }
            }
            "ff" => {
                let (k, j): (usize, usize) = (op[1].parse().unwrap(), op[2].parse().unwrap());
                if let (Some(a), Some(b)) = (spans.get(&k), spans.get(&j)) { d.record_follows_from(a, b); }
                outs.push(format!("l:{}", take_recv()));
            }
            _ => outs.push("bad-op".into()),
        }
    }
    outs.join(" ")
}

fn main() {
    if std::env::var("TV_QUIET_PANIC").is_ok() { std::panic::set_hook(Box::new(|_| {})); }
    let uni = universe();
    // every case runs on a fresh thread: the per-layer-filter state is thread-local, and a case may
    // legitimately leave it dirty (that is finding F3) — it must not leak into the next case
    let uni: &'static Vec<&'static Metadata<'static>> = Box::leak(Box::new(uni));
    tv_harness::serve(|toks| {
        let owned: Vec<String> = toks.iter().map(|s| s.to_string()).collect();
        let h = std::thread::spawn(move || {
            let t: Vec<&str> = owned.iter().map(|s| s.as_str()).collect();
            run_case(&t, uni)
        });
        match h.join() { Ok(s) => s, Err(_) => "PANIC".into() }
    });
}
