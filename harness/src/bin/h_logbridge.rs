//! C18 executor (log → tracing): the real `LogTracer` (installed as the process's logger, with an ignore list) and
//! collectors that filter on level × target; records are built with `log::Record::builder`.  One case per process.
//!   ign=<hex,hex|-> ;; op ; op ; …
//!   ops: col <cap|-> <hex prefix,hex prefix|->   (install a collector: accepts level <= cap and targets with one of the prefixes)
//!        rec <lvl> <hex target> <hex msg> <hex module|-> <hex file|-> <line|->
use std::sync::Mutex;
use tracing_core::{field::{Field, Visit}, span, Collect, Event, LevelFilter, Metadata};
use tracing_log::NormalizeEvent;
use tv_harness::{hex, unhex_str};

static EVENTS: Mutex<Vec<String>> = Mutex::new(Vec::new());

struct Msg(String);
impl Visit for Msg {
    fn record_debug(&mut self, f: &Field, v: &dyn std::fmt::Debug) { if f.name() == "message" { self.0 = format!("{:?}", v); } }
}

struct Col { cap: Option<usize>, allow: Vec<String> }
fn rank(l: &tracing_core::Level) -> usize {
    if *l == tracing_core::Level::ERROR { 1 } else if *l == tracing_core::Level::WARN { 2 } else if *l == tracing_core::Level::INFO { 3 } else if *l == tracing_core::Level::DEBUG { 4 } else { 5 }
}
impl Collect for Col {
    fn enabled(&self, m: &Metadata<'_>) -> bool {
        self.cap.map(|c| rank(m.level()) <= c).unwrap_or(true) && (self.allow.is_empty() || self.allow.iter().any(|p| m.target().starts_with(p.as_str())))
    }
    fn max_level_hint(&self) -> Option<LevelFilter> { self.cap.map(tv_harness::fexpr::lf) }
    fn new_span(&self, _: &span::Attributes<'_>) -> span::Id { span::Id::from_u64(1) }
    fn record(&self, _: &span::Id, _: &span::Record<'_>) {}
    fn record_follows_from(&self, _: &span::Id, _: &span::Id) {}
    fn event(&self, e: &Event<'_>) {
        let mut m = Msg(String::new());
        e.record(&mut m);
        let nm = e.normalized_metadata();
        let meta = nm.as_ref().unwrap_or_else(|| e.metadata());
        let o = |s: Option<&str>| s.map(|x| hex(x.as_bytes())).unwrap_or_else(|| "-".into());
        EVENTS.lock().unwrap().push(format!("{}:{}:{}:{}:{}:{}:{}", if e.is_log() { "log" } else { "native" }, rank(meta.level()), hex(meta.target().as_bytes()),
            hex(m.0.as_bytes()), o(meta.module_path()), o(meta.file()), meta.line().map(|l| l.to_string()).unwrap_or_else(|| "-".into())));
    }
    fn enter(&self, _: &span::Id) {}
    fn exit(&self, _: &span::Id) {}
    fn current_span(&self) -> span::Current { span::Current::unknown() }
}

fn main() {
    let mut line = String::new();
    std::io::stdin().read_line(&mut line).unwrap();
    let toks: Vec<&str> = line.split_whitespace().collect();
    let sep = toks.iter().position(|t| *t == ";;").expect(";;");
    let ign = toks[0].trim_start_matches("ign=");
    let mut b = tracing_log::LogTracer::builder();
    if ign != "-" { for p in ign.split(',') { b = b.ignore_crate(unhex_str(p)); } }
    b.init().expect("logger");
    let mut guard: Option<tracing_core::dispatch::DefaultGuard> = None;
    let mut outs = Vec::new();
    for op in toks[sep + 1..].split(|t| *t == ";") {
        if op.is_empty() { continue; }
        match op[0] {
            "col" => {
                guard.take();      // the previous collector dies before the new one is registered: MAX_LEVEL is recomputed from the new one alone
                let cap = if op[1] == "-" { None } else { Some(op[1].parse().unwrap()) };
                let allow = if op[2] == "-" { Vec::new() } else { op[2].split(',').map(unhex_str).collect() };
                guard = Some(tracing_core::dispatch::set_default(&tracing_core::Dispatch::new(Col { cap, allow })));
                outs.push("-".to_string());
            }
            "rec" => {
                let lvl = match op[1] { "1" => log::Level::Error, "2" => log::Level::Warn, "3" => log::Level::Info, "4" => log::Level::Debug, _ => log::Level::Trace };
                let target = unhex_str(op[2]); let msg = unhex_str(op[3]);
                let module = if op[4] == "-" { None } else { Some(unhex_str(op[4])) };
                let file = if op[5] == "-" { None } else { Some(unhex_str(op[5])) };
                let lineno: Option<u32> = if op[6] == "-" { None } else { Some(op[6].parse().unwrap()) };
                log::logger().log(&log::Record::builder().level(lvl).target(&target).args(format_args!("{}", msg))
                    .module_path(module.as_deref()).file(file.as_deref()).line(lineno).build());
                let mut e = EVENTS.lock().unwrap();
                outs.push(if e.is_empty() { "0".into() } else { let v = e.join(","); e.clear(); v });
            }
            _ => outs.push("bad-op".into()),
        }
    }
    println!("{}", outs.join(" "));
}
