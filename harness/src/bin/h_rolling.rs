//! C16 executor: the real rolling file appender under a scripted clock, over a scratch directory.
//!   rot=<m|h|d|n> pre=<hex|-> suf=<hex|-> max=<n|-> t0=<unix> ;; op ; op ; …
//!   ops: t <unix> (set the clock) | w <hex> (io::Write::write_all) | mw <hex> (make_writer().write_all)
//!        | par <n> (n threads, released together, each make_writer + one line "P<i>\n") | ls
//!        | hold <hex> (a thread takes a writer with make_writer(), writes, and KEEPS the writer alive)
//!        | mwb <hex> (a thread does make_writer().write_all — it may have to wait for a held writer) | rel (the held writer is
//!          dropped; both threads are joined)
//! `ls` prints `name=<hex content>` for every file, sorted by name (content lines of a `par` step sorted).
//! One case per process.
use std::io::Write;
use std::sync::{Arc, Barrier};
use tracing_appender::rolling::{RollingFileAppender, Rotation};
use tracing_subscriber::fmt::writer::MakeWriter;
use tv_harness::{hex, unhex, unhex_str};

fn listing(dir: &std::path::Path, sort_lines: bool) -> String {
    let mut v: Vec<(String, Vec<u8>)> = std::fs::read_dir(dir).unwrap().filter_map(|e| {
        let e = e.ok()?;
        let name = e.file_name().to_str()?.to_string();
        let mut data = std::fs::read(e.path()).ok()?;
        if sort_lines {
            let mut lines: Vec<&[u8]> = data.split_inclusive(|b| *b == b'\n').collect();
            lines.sort();
            data = lines.concat();
        }
        Some((name, data))
    }).collect();
    v.sort();
    if v.is_empty() { "-".into() } else { v.iter().map(|(n, d)| format!("{}={}", hex(n.as_bytes()), hex(d))).collect::<Vec<_>>().join(",") }
}

fn main() {
    let mut line = String::new();
    std::io::stdin().read_line(&mut line).unwrap();
    let toks: Vec<&str> = line.split_whitespace().collect();
    let sep = toks.iter().position(|t| *t == ";;").expect(";;");
    let get = |k: &str| toks[..sep].iter().find(|t| t.starts_with(k)).map(|t| &t[k.len()..]).unwrap();
    let rot = match get("rot=") { "m" => Rotation::MINUTELY, "h" => Rotation::HOURLY, "d" => Rotation::DAILY, _ => Rotation::NEVER };
    let dir = std::path::PathBuf::from(format!("/verif/.build/rolling/{}", std::process::id()));
    let _ = std::fs::remove_dir_all(&dir);
    std::fs::create_dir_all(&dir).unwrap();
    tracing_appender::rolling::__verif::set_unix_time(Some(get("t0=").parse().unwrap()));
    let mut b = RollingFileAppender::builder().rotation(rot);
    if get("pre=") != "-" { b = b.filename_prefix(unhex_str(get("pre="))); }
    if get("suf=") != "-" { b = b.filename_suffix(unhex_str(get("suf="))); }
    if get("max=") != "-" { b = b.max_log_files(get("max=").parse().unwrap()); }
    let mut app = Arc::new(b.build(&dir).expect("build"));
    let mut holder: Option<(std::sync::mpsc::Sender<()>, std::thread::JoinHandle<()>)> = None;
    let mut waiters: Vec<std::thread::JoinHandle<()>> = Vec::new();
    let mut outs: Vec<String> = Vec::new();
    let mut sort_lines = false;
    for op in toks[sep + 1..].split(|t| *t == ";") {
        if op.is_empty() { continue; }
        // file creation times are what pruning sorts by, and the file system stamps them with the kernel's coarse clock (a tick,
        // up to 10 ms): operations that can create a file are spaced by more than a tick so that creation order = stamp order
        std::thread::sleep(std::time::Duration::from_millis(if matches!(op[0], "w" | "mw" | "par" | "hold" | "mwb") { 12 } else { 1 }));
        let o = match op[0] {
            "t" => { tracing_appender::rolling::__verif::set_unix_time(Some(op[1].parse().unwrap())); "-".to_string() }
            "w" => match Arc::get_mut(&mut app) {
                Some(a) => { let r = a.write_all(&unhex(op[1])); let _ = a.flush(); if r.is_ok() { "ok".into() } else { "err".into() } }
                None => "bad-op".into(),       // the exclusive interface cannot be used while another thread shares the appender
            },
            "hold" => {
                let a = app.clone(); let data = unhex(op[1]);
                let (tx, rx) = std::sync::mpsc::channel::<()>();
                let (rtx, rrx) = std::sync::mpsc::channel::<()>();
                let h = std::thread::spawn(move || { let mut w = a.make_writer(); let _ = w.write_all(&data); let _ = rtx.send(()); let _ = rx.recv(); drop(w); });
                let _ = rrx.recv();
                holder = Some((tx, h));
                "ok".into()
            }
            "mwb" => {
                let a = app.clone(); let data = unhex(op[1]);
                let (etx, erx) = std::sync::mpsc::channel::<()>();
                waiters.push(std::thread::spawn(move || { let _ = etx.send(()); let mut w = a.make_writer(); let _ = w.write_all(&data); let _ = w.flush(); }));
                let _ = erx.recv();
                std::thread::sleep(std::time::Duration::from_millis(30));     // let it reach the lock it may have to wait for
                "ok".into()
            }
            "rel" => {
                if let Some((tx, h)) = holder.take() { let _ = tx.send(()); let _ = h.join(); }
                for w in waiters.drain(..) { let _ = w.join(); }
                "ok".into()
            }
            "mw" => { let mut w = app.make_writer(); let r = w.write_all(&unhex(op[1])); let _ = w.flush(); if r.is_ok() { "ok".into() } else { "err".into() } }
            "par" => {
                let n: usize = op[1].parse().unwrap();
                sort_lines = true;
                let barrier = Arc::new(Barrier::new(n));
                let appr = &*app;
                std::thread::scope(|s| {
                    for i in 0..n {
                        let bar = barrier.clone();
                        s.spawn(move || { bar.wait(); let mut w = appr.make_writer(); let _ = w.write_all(format!("P{}\n", i).as_bytes()); });
                    }
                });
                "ok".into()
            }
            "ls" => listing(&dir, sort_lines),
            _ => "bad-op".into(),
        };
        outs.push(o);
    }
    if let Some((tx, h)) = holder.take() { let _ = tx.send(()); let _ = h.join(); }
    for w in waiters.drain(..) { let _ = w.join(); }
    drop(app);
    let _ = std::fs::remove_dir_all(&dir);
    println!("{}", outs.join(" "));
}
