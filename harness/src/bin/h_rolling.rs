//! C16 executor: the real rolling file appender under a scripted clock, over a scratch directory.
//!   rot=<m|h|d|n> pre=<hex|-> suf=<hex|-> max=<n|-> t0=<unix> ;; op ; op ; …
//!   ops: t <unix> (set the clock) | w <hex> (io::Write::write_all) | mw <hex> (make_writer().write_all)
//!        | par <n> (n threads, released together, each make_writer + one line "P<i>\n") | ls
//! `ls` prints `name=<hex content>` for every file, sorted by name (content lines of a `par` step sorted).
//! One case per process.
use std::io::Write;
use std::sync::{Arc, Barrier};
use tracing_appender::rolling::{RollingFileAppender, Rotation};
use tracing_subscriber::fmt::writer::MakeWriter;
use tv_harness::{hex, unhex, unhex_str};

fn listing(dir: &std::path::Path, sort_lines: bool) -> String {
    let mut v: Vec<(String, Vec<u8>)> = std::fs::read_dir(dir).unwrap().filter_map(|e| {
        let e = e.ok()?;
        let name = e.file_name().to_str()?.to_string();
        let mut data = std::fs::read(e.path()).ok()?;
        if sort_lines {
            let mut lines: Vec<&[u8]> = data.split_inclusive(|b| *b == b'\n').collect();
            lines.sort();
            data = lines.concat();
        }
        Some((name, data))
    }).collect();
    v.sort();
    if v.is_empty() { "-".into() } else { v.iter().map(|(n, d)| format!("{}={}", hex(n.as_bytes()), hex(d))).collect::<Vec<_>>().join(",") }
}

fn main() {
    let mut line = String::new();
    std::io::stdin().read_line(&mut line).unwrap();
    let toks: Vec<&str> = line.split_whitespace().collect();
    let sep = toks.iter().position(|t| *t == ";;").expect(";;");
    let get = |k: &str| toks[..sep].iter().find(|t| t.starts_with(k)).map(|t| &t[k.len()..]).unwrap();
    let rot = match get("rot=") { "m" => Rotation::MINUTELY, "h" => Rotation::HOURLY, "d" => Rotation::DAILY, _ => Rotation::NEVER };
    let dir = std::path::PathBuf::from(format!("/verif/.build/rolling/{}", std::process::id()));
    let _ = std::fs::remove_dir_all(&dir);
    std::fs::create_dir_all(&dir).unwrap();
    tracing_appender::rolling::__verif::set_unix_time(Some(get("t0=").parse().unwrap()));
    let mut b = RollingFileAppender::builder().rotation(rot);
    if get("pre=") != "-" { b = b.filename_prefix(unhex_str(get("pre="))); }
    if get("suf=") != "-" { b = b.filename_suffix(unhex_str(get("suf="))); }
    if get("max=") != "-" { b = b.max_log_files(get("max=").parse().unwrap()); }
    let mut app = b.build(&dir).expect("build");
    let mut outs: Vec<String> = Vec::new();
    let mut sort_lines = false;
    for op in toks[sep + 1..].split(|t| *t == ";") {
        if op.is_empty() { continue; }
        // file creation times are what pruning sorts by: keep them strictly increasing
        std::thread::sleep(std::time::Duration::from_millis(2));
        let o = match op[0] {
            "t" => { tracing_appender::rolling::__verif::set_unix_time(Some(op[1].parse().unwrap())); "-".to_string() }
            "w" => { let r = app.write_all(&unhex(op[1])); let _ = app.flush(); if r.is_ok() { "ok".into() } else { "err".into() } }
            "mw" => { let mut w = app.make_writer(); let r = w.write_all(&unhex(op[1])); let _ = w.flush(); if r.is_ok() { "ok".into() } else { "err".into() } }
            "par" => {
                let n: usize = op[1].parse().unwrap();
                sort_lines = true;
                let barrier = Arc::new(Barrier::new(n));
                let appr = &app;
                std::thread::scope(|s| {
                    for i in 0..n {
                        let bar = barrier.clone();
                        s.spawn(move || { bar.wait(); let mut w = appr.make_writer(); let _ = w.write_all(format!("P{}\n", i).as_bytes()); });
                    }
                });
                "ok".into()
            }
            "ls" => listing(&dir, sort_lines),
            _ => "bad-op".into(),
        };
        outs.push(o);
    }
    drop(app);
    let _ = std::fs::remove_dir_all(&dir);
    println!("{}", outs.join(" "));
}
