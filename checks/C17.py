"""C17 — #[instrument] preserves behaviour exactly and adds one well-formed span per call."""
import os
from checklib.main import Stream, VERIF

def hx(s): return (s if isinstance(s, bytes) else s.encode('utf-8')).hex()
LVL = {'error': 1, 'warn': 2, 'info': 3, 'debug': 4, 'trace': 5}

class P:
    """a parameter: declaration, call argument, auto-field rendering, and how its value shows up in Python expressions"""
    def __init__(self, name, decl, arg, tyname, valrender, dbg, num=None, pre=''):
        self.name, self.decl, self.arg, self.tyname, self.valrender, self.dbg, self.num, self.pre = name, decl, arg, tyname, valrender, dbg, num, pre

def gen_params(rng, is_async):
    ps = []; used = set()
    for _ in range(rng.choice([0, 1, 2, 3, 4])):
        k = rng.choice(['u32', 'str', 'string', 'bool', 'droppy', 'refdroppy', 'tuple', 'generic', 'vec', 'wrapping', 'mutref', 'i64'])
        n = rng.choice(['a', 'b', 'c', 'n', 'id', 'flag', 'd', 's', 'x', 'y'])
        if n in used or (k == 'tuple' and ('x' in used or 'y' in used)): continue
        v = rng.randrange(0, 1000)
        if k == 'u32': ps.append(P(n, '%s: u32' % n, '%du32' % v, 'u32', 'u64:%d' % v, str(v), v))
        elif k == 'i64': ps.append(P(n, '%s: i64' % n, '%di64' % -v, 'i64', 'i64:%d' % -v, '%d' % -v, -v))      # (-0 is 0)
        elif k == 'str':
            s = rng.choice(['hello', 'a b', 'GET', 'x"y']); ps.append(P(n, "%s: &str" % n, '"%s"' % s.replace('"', '\\"'), 'str', 'str:' + hx(s), '"%s"' % s.replace('"', '\\"')))
        elif k == 'string':
            s = rng.choice(['owned', 'v 1']); ps.append(P(n, '%s: String' % n, 'String::from("%s")' % s, 'String', 'str:' + hx(s), '"%s"' % s))
        elif k == 'bool':
            b = rng.random() < 0.5; ps.append(P(n, '%s: bool' % n, 'true' if b else 'false', 'bool', 'bool:%d' % b, 'true' if b else 'false'))
        elif k == 'droppy': ps.append(P(n, '%s: Droppy' % n, 'Droppy(%d)' % v, 'Droppy', None, 'Droppy(%d)' % v))
        elif k == 'refdroppy': ps.append(P(n, '%s: &Droppy' % n, '&Droppy(%d)' % v, 'Droppy', None, 'Droppy(%d)' % v))
        elif k == 'tuple':
            w = rng.randrange(0, 50); used.update(['x', 'y'])
            q = P('x', '(x, y): (u32, u32)', '(%du32, %du32)' % (v, w), '(tuple)', None, str(v), v); q.extra = P('y', None, None, '(tuple)', None, str(w), w); ps.append(q)
        elif k == 'generic' and not any(p.tyname == 'T' for p in ps): ps.append(P(n, '%s: T' % n, '%du16' % (v % 100), 'T', None, str(v % 100), v % 100))
        elif k == 'vec': ps.append(P(n, '%s: Vec<u8>' % n, 'vec![%du8, 2u8]' % (v % 200), 'Vec', None, '[%d, 2]' % (v % 200)))
        elif k == 'wrapping': ps.append(P(n, '%s: std::num::Wrapping<u8>' % n, 'std::num::Wrapping(%du8)' % (v % 256), 'Wrapping', 'u64:%d' % (v % 256), str(v % 256)))       # (Debug of Wrapping<T> is T's)
        elif k == 'mutref' and not is_async: ps.append(P(n, '%s: &mut u32' % n, '&mut m_%s' % n, 'u32', 'u64:%d' % v, str(v), v, pre='let mut m_%s = %du32;' % (n, v)))
        else: continue
        used.add(n)
    return ps

def flat(ps):
    out = []
    for p in ps:
        out.append(p)
        if hasattr(p, 'extra'): out.append(p.extra)
    return out

def gen_case(rng, idx):
    # (return shape, sync / async and the presence of `ret` cycle with the case's index — period 48 — so that every combination is in
    #  every corpus, whatever the seed)
    is_async = (idx // 8) % 3 == 2
    ps = gen_params(rng, is_async)
    while idx == 3 and not ps: ps = gen_params(rng, is_async)      # case 3 is the standing witness of F27 (skip_all)
    fps = flat(ps)
    generic = any(p.tyname == 'T' for p in fps)
    nums = [p for p in fps if p.num is not None and p.tyname in ('u32',) and not p.decl.startswith(p.name + ': &mut') ] if False else [p for p in fps if p.num is not None and p.tyname == 'u32' and (p.decl is None or '&mut' not in p.decl)]
    # ---- attribute
    attrs = []; name = 'f_inst'; level = 'info'; target = None
    if rng.random() < 0.3: name = rng.choice(['custom', 'my span', 'op.name']); attrs.append('name = "%s"' % name)
    if rng.random() < 0.5: level = rng.choice(list(LVL)); attrs.append('level = "%s"' % level)
    if rng.random() < 0.3: target = rng.choice(['tgt', 'app::x']); attrs.append('target = "%s"' % target)
    parent_root = rng.random() < 0.2
    if parent_root: attrs.append('parent = None')
    skip_all = rng.random() < 0.04 or idx == 3      # not recognised by this version of tracing-attributes (finding F27)
    skips = []
    if skip_all: attrs.append('skip_all')
    else:
        cand = [p.name for p in fps]
        skips = [n for n in cand if rng.random() < 0.25]
        if skips: attrs.append('skip(%s)' % ', '.join(skips))
    custom = []     # (source name text, field name, rust expr, rendered)
    if rng.random() < 0.45:
        for _ in range(rng.choice([1, 2])):
            r = rng.random()
            if nums and r < 0.4:
                p = rng.choice(nums); fn = rng.choice(['k', 'sum', p.name, 'http.' + p.name, 'req.id'])
                custom.append((fn, fn, '%s + 1' % p.name, 'u64:%d' % (p.num + 1)))
            elif r < 0.6: fn = rng.choice(['lit', 'k2', 'a.b']); custom.append((fn, fn, '"const"', 'str:' + hx('const')))
            elif r < 0.8 and fps:
                p = rng.choice(fps)
                if rng.random() < 0.4:
                    # the value-less shorthand `?param`: a field named like the parameter, holding its Debug rendering
                    custom.append(('?' + p.name, p.name, None, 'debug:' + hx(p.dbg)))
                else:
                    fn = rng.choice(['dbg', 'shown', 'x.' + p.name]); custom.append((fn, fn, '?%s' % p.name, 'debug:' + hx(p.dbg)))
            else: fn = rng.choice(['flagged', 'k3']); custom.append((fn, fn, 'true', 'bool:1'))
        seen = set(); custom = [c for c in custom if not (c[1] in seen or seen.add(c[1]))]
        if custom: attrs.append('fields(%s)' % ', '.join(('%s = %s' % (c[0], c[2])) if c[2] is not None else c[0] for c in custom))
    # async-trait style: a plain fn whose tail is `Box::pin(async move { … })`, with a statement before the tail — the attribute
    # must recognise the shape and instrument the async block (only by-value parameters: no lifetimes in the boxed future's type;
    # no ret / err, so that the pair still compiles if the shape is NOT recognised and the difference shows in the log)
    boxed = is_async and not generic and not any(('&' in (p.decl or '')) for p in ps) and rng.random() < 0.4
    # an `async fn` that RETURNS a future (its tail expression is `Box::pin(async move { … })`): an ordinary async fn to the
    # attribute — one span around the async fn's own body; the returned future is the caller's business and runs outside it
    # (systematic: every second block of async cases takes this shape whenever its parameters allow — regression pass after round 9:
    #  seeded6/C17 needs it and a 0.2 draw left some corpora without one)
    retfut = is_async and not boxed and not generic and not any(('&' in (p.decl or '')) for p in ps) and (rng.random() < 0.1 or (idx // 8) % 6 == 5)
    # ---- return shape
    shape = ['unit', 'value', 'ok', 'err', 'question', 'panic', 'early', 'impl'][idx % 8]
    if is_async and shape == 'impl': shape = 'early'
    base = nums[0].name if nums else None
    val = (nums[0].num + 1) if nums else 41
    valexpr = ('%s + 1' % base) if base else '41u32'
    ret_ty = {'unit': '()', 'value': 'u32', 'ok': 'Result<u32, MyErr>', 'err': 'Result<u32, MyErr>', 'question': 'Result<u32, MyErr>', 'panic': 'u32', 'early': 'u32', 'impl': 'impl std::fmt::Debug'}[shape]
    tail = {'unit': '', 'value': valexpr, 'ok': 'Ok(%s)' % valexpr, 'err': 'Err(MyErr(%d))' % (val % 97), 'question': 'let v = helper(%s)?; Ok(v + 1)' % valexpr,
            'panic': 'panic!("boom %d")' % (val % 13), 'early': 'if %s > 0 { return 7; } %s' % (valexpr, valexpr), 'impl': valexpr}[shape]
    ret = err = None
    if shape != 'panic' and (idx // 24) % 2 == 0 and not boxed and not retfut:
        mode = rng.choice(['', 'Display', 'Debug']) if shape in ('value', 'ok', 'question', 'early', 'err') else rng.choice(['', 'Debug'])
        if shape == 'impl': mode = rng.choice(['', 'Debug'])
        if shape == 'unit': mode = rng.choice(['', 'Debug'])
        lv = rng.choice([None, None, 'warn', 'trace'])
        inner = ', '.join(x for x in [mode, ('level = "%s"' % lv) if lv else ''] if x)
        attrs.append('ret(%s)' % inner if inner else 'ret'); ret = (mode or 'Debug', lv)
    need_err = ret is not None and ret[0] == 'Display' and shape in ('ok', 'err', 'question')     # Display of a whole Result does not exist
    if shape in ('ok', 'err', 'question') and (need_err or rng.random() < 0.6) and not boxed and not retfut:
        mode = rng.choice(['', 'Display', 'Debug']); lv = rng.choice([None, None, 'info'])
        inner = ', '.join(x for x in [mode, ('level = "%s"' % lv) if lv else ''] if x)
        attrs.append('err(%s)' % inner if inner else 'err'); err = (mode or 'Display', lv)
    # the attribute's arguments in any order (what they mean does not depend on it)
    if rng.random() < 0.5: rng.shuffle(attrs)
    # (a `ret` that takes its level from the span, written BEFORE the span's level: the dependency runs against the order)
    if ret is not None and ret[1] is None and level != 'info' and rng.random() < 0.7:
        attrs.sort(key=lambda a: 0 if a.startswith('ret') else 1)
    yields = rng.choice([0, 1, 2]) if is_async else 0
    # ---- body
    body = ['fx("start");', 'tracing::info!("body");']
    for p in ps:
        if p.decl and '&mut' in p.decl: body.append('*%s += 1;' % p.name)
    if is_async and yields: body += ['Yield(%d).await;' % yields, 'tracing::info!("after");']
    body.append('fx("mid");')
    body.append(tail)
    kw = 'async fn' if is_async else 'fn'
    gen = '<T: std::fmt::Debug>' if generic else ''
    decls = ', '.join(p.decl for p in ps)
    # async-trait style: a plain fn whose tail is `Box::pin(async move { … })`, with a statement before the tail — the attribute
    # must recognise the shape and instrument the async block (only by-value parameters: no lifetimes in the boxed future's type)

    pre = ' '.join(p.pre for p in ps if p.pre)
    args = ', '.join(p.arg for p in ps)
    call_i = 'f_inst(%s)' % args; call_p = 'f_plain(%s)' % args
    if is_async: call_i = 'drive(%s)' % call_i; call_p = 'drive(%s)' % call_p
    if retfut:
        body[-1] = 'Box::pin(async move { %s })' % tail
        call_i = 'drive_returned(%s)' % call_i; call_p = 'drive_returned(%s)' % call_p
    body_src = '\n        '.join(body)
    if retfut: ret_ty = 'std::pin::Pin<Box<dyn std::future::Future<Output = %s>>>' % ret_ty
    if boxed:
        kw = 'fn'
        if rng.random() < 0.35 and shape != 'impl' and all((p.decl or '').startswith(p.name + ':') or (p.decl or '').startswith('mut ' + p.name + ':') for p in ps):
            # the OLD async-trait shape: an inner `async fn` declared in the body, invoked at once and boxed — the attribute
            # instruments the inner function, under the OUTER function's name
            body_src = 'fx("pre");\n        async fn __f_inner(%s) -> %s {\n        %s\n        }\n        Box::pin(__f_inner(%s))' % (
                decls, ret_ty, body_src, ', '.join(p.name for p in ps))
        else:
            body_src = 'fx("pre");\n        Box::pin(async move {\n        ' + body_src + '\n        })'
        ret_ty = 'std::pin::Pin<Box<dyn std::future::Future<Output = %s>>>' % ret_ty
    src = '''mod case_%d {
    #![allow(unused_variables, unused_mut, unreachable_code, clippy::all)]
    use super::c17_rt::*;
    fn helper(v: u32) -> Result<u32, MyErr> { if v %% 2 == 0 { Ok(v) } else { Err(MyErr(v)) } }
    #[tracing::instrument(%s)]
    %s f_inst%s(%s) -> %s {
        %s
    }
    %s f_plain%s(%s) -> %s {
        %s
    }
    pub fn inst() -> String { %s outcome(|| %s) }
    pub fn plain() -> String { %s outcome(|| %s) }
}
''' % (idx, ', '.join(attrs), kw, gen, decls, ret_ty, body_src, kw, gen, decls, ret_ty, body_src, pre, call_i, pre, call_p)
    # ---- descriptor for the model
    final_ok = shape in ('unit', 'value', 'ok', 'early', 'impl') or (shape == 'question' and val % 2 == 0)
    if shape == 'unit': out = ('val', '()', None)
    elif shape in ('value', 'impl'): out = ('val', str(val), str(val))
    elif shape == 'early': out = ('val', '7' if val > 0 else str(val), '7' if val > 0 else str(val))
    elif shape == 'ok': out = ('ok', str(val), str(val))
    elif shape == 'err': out = ('err', 'MyErr(%d)' % (val % 97), 'my error %d' % (val % 97))
    elif shape == 'question': out = ('ok', str(val + 1), str(val + 1)) if val % 2 == 0 else ('err', 'MyErr(%d)' % val, 'my error %d' % val)
    else: out = ('panic', 'boom %d' % (val % 13), None)
    pdesc = ' , '.join('%s %s %s %s' % (hx(p.name), p.tyname, p.valrender or '-', hx(p.dbg)) for p in fps) or '-'
    cdesc = ' , '.join('%s %s' % (hx(c[1]), c[3]) for c in custom) or '-'
    line = 'F %s name=%s level=%d target=%s mod=%s parent=%s skipall=%d skips=%s ret=%s err=%s yields=%d ;; %s ;; %s ;; %s %s %s' % (
        'async' if is_async else 'sync', hx(name), LVL[level], hx(target) if target else hx('c17_corpus::case_%d' % idx), hx('c17_corpus::case_%d' % idx), 'root' if parent_root else 'ctx',
        1 if skip_all else 0, ','.join(hx(s) for s in skips) or '-',
        ('%s@%s' % (ret[0], LVL[ret[1]] if ret[1] else LVL[level])) if ret else '-', ('%s@%s' % (err[0], LVL[err[1]] if err[1] else 1)) if err else '-', yields,
        pdesc, cdesc, out[0], hx(out[1]), hx(out[2]) if out[2] is not None else '-')
    return src, line

def build_corpus(rng, n):
    mods = []; lines = []; table = []
    for i in range(n):
        src, line = gen_case(rng, i)
        mods.append(src); lines.append(line); table.append('(case_%d::inst as fn() -> String, case_%d::plain as fn() -> String)' % (i, i))
    src = '// GENERATED by checks/C17.py from the run\'s seed — do not edit\nmod c17_rt;\n\n' + '\n'.join(mods) + '\nfn main() {\n    c17_rt::run(&[\n        %s\n    ]);\n}\n' % ',\n        '.join(table)
    return src, lines

def prebuild(tier, seed, rng):
    n = 120 if tier == 'quick' else 1200
    src, lines = build_corpus(rng, n)
    with open(os.path.join(VERIF, 'harness-corpus', 'src', 'c17_main.rs'), 'w') as f: f.write(src)
    open(os.path.join(VERIF, 'harness-corpus', 'src', 'c17_lines.txt'), 'w').write('\n'.join(lines) + '\n')

def gen(rng, tier):
    for l in open(os.path.join(VERIF, 'harness-corpus', 'src', 'c17_lines.txt')):
        l = l.strip()
        if l: yield l

def canon(out):
    # the model predicts the collector's log; the twins' outcomes are judged against each other
    return out.split(' ;; ')[-1] if ' ;; ' in out else out

def judge(case, out):
    """the instrumented function under a collector, the instrumented function with no collector and the plain twin have the same
    result / panic payload and the same side effects (incl. how often arguments are dropped); skipped arguments are absent from the span"""
    parts = out.split(' ;; ')
    if len(parts) != 4: return 'bad shape ' + out[:60]
    a, b, c, log = parts
    def norm(x):
        o, fx = x.split('|fx=')
        return o, sorted(fx.split(','))          # the order of drops relative to other effects is not asserted, their number is
    if norm(a) != norm(c): return 'bad instrumented-differs-from-plain %s vs %s' % (a[:80], c[:80])
    if norm(b) != norm(c): return 'bad instrumented-without-collector-differs %s vs %s' % (b[:80], c[:80])
    hd = dict(x.split('=', 1) for x in case.split(' ;; ')[0].split()[2:])
    new = [e for e in log.split(',new:')[0:]]
    if log.count('new:') != 1: return 'bad span-count %d' % log.count('new:')
    fields = log.split('[', 1)[1].split(']', 1)[0]
    names = [f.split('=')[0] for f in fields.split(',') if f]
    skipped = [] if hd['skips'] == '-' else hd['skips'].split(',')
    customs = [c.split()[0] for c in case.split(' ;; ')[2].split(' , ')] if case.split(' ;; ')[2] != '-' else []
    if any(s in names and s not in customs for s in skipped): return 'bad skipped-argument-present'
    if hd['skipall'] == '1':
        pnames = [p.split()[0] for p in case.split(' ;; ')[1].split(' , ')] if case.split(' ;; ')[1] != '-' else []
        if any(n in names for n in pnames): return 'bad skip_all-ignored'
    if log.count('enter') != log.count('exit'): return 'bad unbalanced-enter-exit'
    # everything the body emitted happened inside the span
    if ':in0:' in log: return 'bad event-outside-span'
    return 'ok'

def attribute(stream, case, impl, model, why):
    if 'skip_all-ignored' in why and 'skipall=1' in case: return 'F27'
    return None

def nontrivial(case, out):
    return ('ret=-' not in case or 'err=-' not in case) and (' , ' in case.split(' ;; ')[1])

def classify(stream, case, out):
    t = case.split()
    return '%s ret=%s err=%s skips=%s custom=%s outcome=%s' % (t[1], 'y' if 'ret=-' not in case else 'n', 'y' if 'err=-' not in case else 'n', 'y' if 'skips=-' not in case else 'n',
                                                             'y' if case.split(' ;; ')[2] != '-' else 'n', case.split(' ;; ')[3].split()[0])

_s = Stream('twins', 'c17_corpus', gen=gen, nontrivial=nontrivial, crate='harness-corpus', canon=canon)
_s.py_judge = judge

PROPERTY = {
    'manifest': {
        'text': "Lean 4 theorems over a model of the #[instrument] expansion whose type table (RecordType::TYPES_FOR_VALUE), field-override rule, skip filter, field order, ret/err default modes and levels and sync/async shapes are facts "
                "EXTRACTED from expand.rs on every run: one_span (exactly one span per call, with the configured name/level/target/parent), fields_spec (a parameter's automatic field is present iff it is not skipped and no "
                "single-segment custom field has its name; custom fields follow; Value vs Debug by the type table), body_inside_span (sync: everything between enter and exit; async: every poll bracketed, plus the drop), "
                "ret_err_events (the configured mode and level, before the final exit; a Result without err is shown whole). A corpus of twin functions (instrumented / plain) is GENERATED from the seed and COMPILED on every "
                "run: sync and async (polled with 0-2 pending points), by-value / reference / &mut / destructured / generic / Vec / Wrapping / drop-counting arguments, unit / value / Result / ? / early return / panic / impl Trait, "
                "name, level, target, parent, skip, fields with expressions over arguments, ret/err with modes and levels; the collector's log is diffed against the model and the twins are judged equal in result, panic payload and "
                "side effects under a collector and under none.",
        'note': "Trusted: Lean kernel; propext/Classical.choice/Quot.sound; the behaviour-preservation clause is judged on the compiled twins (result, payload, effect multiset incl. drop counts), it is not a theorem about Rust "
                "semantics; follows_from and self receivers are not generated; async-trait style functions (`Box::pin(async move { … })` tail after a statement) are. Known finding F27: skip_all is not recognised by this version (compile warning; every argument is recorded). "
                "Repaired: the duplicate-argument checks of parent / follows_from tested args.target (a3634c9).",
        'technique': 'Lean 4 proof (list reasoning over extracted expansion facts) + generated, compiled corpus of instrumented/plain twins diffed against the model and against each other',
    },
    'lean_module': 'TracingModel.Props.C17',
    'namespace': 'C17',
    'units': ['InstrumentFacts'],
    'required_theorems': ['C17.code_facts', 'C17.attr_parse_facts', 'C17.one_span', 'C17.fields_spec', 'C17.body_inside_span', 'C17.ret_err_events',
                          'C17.closed_once_at_the_end', 'C17.entered_once_per_poll', 'C17.at_most_one_tail_event'],
    'streams': [_s],
    'rule': 'one case = one generated pair of functions with the same signature and body, one carrying #[instrument(...)]: sync or async, 0-4 parameters of 12 kinds, 8 return shapes, attribute arguments name / level / target / '
            'parent = None / skip / (rarely) skip_all / fields (expressions over arguments, Debug sigil, dotted names, a name equal to a parameter) / ret and err with Display|Debug and level; each is run under a recording collector, '
            'with no collector, and plain. compared = the collector log; judged = twins equal, one span, skipped arguments absent, balanced enter/exit, events inside the span. non-trivial = ret or err configured and two or more parameters',
    'trusted_base': ['translator unit InstrumentFacts', 'hand-written model Core/Instrument.lean', 'generated corpus crate harness-corpus (fixed runtime c17_rt.rs)'],
    'assumptions': ['default features'],
}
