"""Real-thread stress of one shared counter (executor h_stress): the search for a failing input behind the interleaving
theorems of Lemmas/AtomicCount.lean — an atomic instruction has no yield point, so no enumerated schedule can split it; what
CAN be observed is the effect of a split update when real threads are released together.  Every scenario has an exact oracle:
on code whose counter updates are single atomic operations it cannot fail."""
import checklib.main as M

def stress_phase(scenario, tier, res, broken, seed=0):
    deep = bool(broken) or tier == 'thorough'
    params = {
        'scopes':      [(2, 2000), (4, 2000), (8, 500)] + ([(2, 40000), (3, 40000), (4, 40000), (16, 4000)] if deep else []),
        'closeonce':   [(2, 150, 32), (4, 150, 32)] + ([(2, 4000, 64), (3, 3000, 64), (4, 3000, 64), (8, 1000, 32)] if deep else []),
        'cloneshared': [(2, 150, 50), (4, 150, 50)] + ([(2, 4000, 100), (3, 3000, 100), (4, 3000, 100), (8, 1000, 50)] if deep else []),
        'recordshared': [(2, 60), (4, 60)] + ([(2, 1500), (3, 1500), (4, 1500), (8, 500)] if deep else []),
        'reloadbusy': [(40,)] + ([(1500,)] if deep else []),
        'lossycount': [(4, 4000), (8, 2000)] + ([(2, 200000), (4, 100000), (8, 50000), (16, 20000)] if deep else []),
    }[scenario]
    cases = ['%s %s' % (scenario, ' '.join(str(x) for x in p)) for p in params]
    outs, err = M.run_per_process([M.bin_path('h_stress')], cases, timeout=300)
    if err:
        res.errors.append('stress %s: %s' % (scenario, err)); return
    for c, o in zip(cases, outs):
        res.evaluations += 1
        k = 'stress %s %s=%s' % (scenario, 'rounds' if scenario == 'reloadbusy' else 'threads', c.split()[1])
        res.hist[k] = res.hist.get(k, 0) + 1
        if o.startswith('ok '):
            res.nontrivial.add('stress ' + c)
        else:
            res.spec_failures.append(('stress', c, o, 'oracle: ' + (o or 'no output (crash)')))
