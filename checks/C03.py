"""C03 — span handles drive their collector through a well-formed, balanced protocol."""
from checklib.main import Stream

def gen_program(rng, nops):
    nthreads = rng.choice([1, 2, 3])
    ops = []
    handles = []; guards = {}; futures = []
    nh = 0; ng = 0; nf = 0
    dflt = {}; held = {}
    for t in range(nthreads):
        c = rng.choice(['1', '2', '1', '-'])
        ops.append('sd %d %s' % (t, c)); dflt[t] = c
    while len(ops) < nops:
        r = rng.random(); t = rng.randrange(nthreads)
        if r < 0.16:
            nh += 1; ops.append('ns %d %d %d' % (t, nh, rng.choice([3, 3, 4]))); handles.append(nh)
        elif r < 0.24 and handles:
            nh += 1; ops.append('cl %d %d' % (rng.choice(handles), nh)); handles.append(nh)
        elif r < 0.36 and handles:
            if len(handles) >= 2 and rng.random() < 0.25:
                # one handle overwritten with a clone of another (`clone_from`): the old span loses a handle, the other gains one
                a, b = rng.sample(handles, 2); handles.remove(a); nh += 1; handles.append(nh); ops.append('cf %d %d %d %d' % (t, a, b, nh))
            else:
                h = rng.choice(handles); handles.remove(h); ops.append('%s %d %d' % ('drp' if rng.random() < 0.2 else 'dr', t, h))
        elif r < 0.50 and handles:
            h = rng.choice(handles); handles.remove(h); ng += 1; guards[ng] = t; ops.append('en %d %d %d' % (t, h, ng))
        elif r < 0.58 and guards:
            g = rng.choice(sorted(guards)); gt = guards.pop(g); nh += 1; ops.append('xt %d %d %d' % (gt, g, nh)); handles.append(nh)
        elif r < 0.66 and guards:
            # out-of-order guard drops: any guard, not just the newest
            g = rng.choice(sorted(guards)); gt = guards.pop(g); ops.append('dg %d %d' % (gt, g))
        elif r < 0.71 and handles:
            ops.append('%s %d %d' % ('isp' if rng.random() < 0.3 else 'is', t, rng.choice(handles)))
        elif r < 0.75 and handles:
            ops.append('rc %d %d' % (t, rng.choice(handles)))
        elif r < 0.77 and len(handles) >= 2:
            ops.append('ff %d %d %d' % (t, rng.choice(handles), rng.choice(handles)))
        elif r < 0.79 and guards:
            # an entered guard (not a Span) named as explicit parent / follows_from source, on the guard's own thread
            g = rng.choice(sorted(guards)); gt = guards[g]
            if handles and rng.random() < 0.5: ops.append('ffg %d %d %d' % (gt, rng.choice(handles), g))
            else: nh += 1; ops.append('nsg %d %d %d %d' % (gt, nh, rng.choice([3, 3, 4]), g)); handles.append(nh)
        elif r < 0.84:
            nh += 1; ops.append('cu %d %d' % (t, nh)); handles.append(nh)
        elif r < 0.88 and handles:
            h = rng.choice(handles); handles.remove(h); nh += 1; ops.append('oc %d %d %d' % (t, h, nh)); handles.append(nh)
        elif r < 0.93 and handles:
            h = rng.choice(handles); handles.remove(h); nf += 1
            if handles and rng.random() < 0.5:
                # the inner future owns a span handle of its own (released when the future is dropped)
                k = rng.choice(handles); handles.remove(k); held[nf] = k
                ops.append('in %d %d %d' % (h, nf, k))
            else:
                ops.append('in %d %d' % (h, nf))
            futures.append(nf)
        elif r < 0.955 and futures:
            ops.append('po %d %d' % (t, rng.choice(futures)))
        elif r < 0.985 and futures:
            f = rng.choice(futures); futures.remove(f)
            if rng.random() < 0.3:
                # `into_inner()` instead of dropping the wrapper
                ops.append('ii %d %d %d' % (t, f, held[f]) if f in held else 'ii %d %d' % (t, f))
            else:
                ops.append('df %d %d %d' % (t, f, held[f]) if f in held else 'df %d %d' % (t, f))
        else:
            c = rng.choice(['1', '2', '-']); ops.append('sd %d %s' % (t, c)); dflt[t] = c
    return ' ; '.join(ops)

import re
def model_case(case):
    """`ii t f k` (into_inner of a wrapper whose inner future owns handle k, the inner then dropped) = `ii t f ; dr t k`"""
    case = re.sub(r'drp (\d+) (\d+)', r'dr \1 \2', case)      # a handle dropped by unwinding is a dropped handle
    case = re.sub(r'cf (\d+) (\d+) (\d+) (\d+)', r'cl \3 \4 ; dr \1 \2', case)   # clone_from = a clone of the source, then the old handle dropped
    return re.sub(r'ii (\d+) (\d+) (\d+)', r'ii \1 \2 ; dr \1 \3', case)

def gen(rng, tier):
    n = 600 if tier == 'quick' else 12000
    for _ in range(n):
        yield gen_program(rng, rng.choice([15, 30, 60]))

def nontrivial(case, out):
    return out.count(':new:') >= 2 and ':enter:' in out and ':close:' in out and (' 2:' in (' ' + out) and ' 1:' in (' ' + out) or ':clone:' in out)

def classify(stream, case, out):
    return 'threads=%d futures=%s current=%s' % (1 + max(int(o.split()[1]) for o in case.split(' ; ') if o.split()[0] not in ('cl', 'in')),
                                                 'y' if ' in ' in case else 'n', 'y' if '; cu ' in case or '; oc ' in case else 'n')

def judge_log(case, out):
    """the five clauses of the property evaluated directly on the observed collector log (independent of the model)"""
    live = {}; seen_new = set(); depth = {}
    for tok in out.split():
        if tok == '-': continue
        c, kind, rest = tok.split(':', 2)
        if kind == 'new':
            if (c, rest) in seen_new: return 'bad duplicate-creation ' + tok
            seen_new.add((c, rest)); live[(c, rest)] = 1
        elif kind == 'clone':
            if live.get((c, rest), 0) <= 0: return 'bad clone-after-last-close ' + tok
            live[(c, rest)] += 1
        elif kind == 'close':
            if live.get((c, rest), 0) <= 0: return 'bad close-without-handle ' + tok
            live[(c, rest)] -= 1
        else:
            sid = rest.split('@')[0].split('<')[0]
            if (c, sid) not in seen_new: return 'bad call-for-unknown-span ' + tok
            if live.get((c, sid), 0) <= 0: return 'bad call-after-last-close ' + tok
            if kind in ('enter', 'exit'):
                t = rest.split('@')[1]
                k = (c, sid, t)
                depth[k] = depth.get(k, 0) + (1 if kind == 'enter' else -1)
                if depth[k] < 0: return 'bad exit-without-enter ' + tok
    return 'ok'

_prog = Stream('prog', 'h_span', gen=gen, nontrivial=nontrivial)
_prog.model_case = model_case

PROPERTY = {
    'manifest': {
        'text': "Lean 4 theorems over every finite program of the modelled Span API (new/clone/drop, entered/exit/guard drop in any order, in_scope, record, follows_from, "
                "Span::current, or_current, Instrumented polled and dropped anywhere, any thread, any default incl. a foreign one): for every span, "
                "#new + #clone_span - #try_close in the collector log equals the number of live owners (refcount, by an invariant through all 16 operations, including dropping an Instrumented future whose inner future owns a span handle: future_drop_releases_inner), the calls of drop/enter/exit/poll are a function of the handle alone "
                "(own_collector: the thread default does not occur), operations on a disabled span cause no call (disabled_silent). Enter/exit: for every span and thread, enters minus exits in the log = entered guards of that span living on that thread (enter_exit_balance, by a second invariant through all 16 operations), hence never an exit "
                "without its enter and exactly matched once no guard is left. Silence: every call a collector receives about a span other than its creation arrives while its own count for that span is at least one (silent_after_last_close, nothing_after_zero; by a third invariant tying each collector's entered list to the log). "
                "The hand-written model is compared call-for-call with the real tracing crate under recording collectors, and the observed log is judged by the clauses directly.",
        'note': "Trusted: Lean kernel; propext/Classical.choice/Quot.sound; the model of span.rs/instrument.rs is hand-written (tie = correspondence); programs use EnteredSpan-style guards (the borrowed "
                "Entered<'_> guard makes the same two calls); recording collectors return the same id from clone_span; tracing-futures 0.1 combinators are not driven (tracing::Instrument is).",
        'technique': 'Lean 4 proof (invariants over op sequences) of a hand-written model + call-for-call differential run against the real crate',
    },
    'lean_module': 'TracingModel.Props.C03S',
    'leanchecker_modules': ['TracingModel.Props.C03', 'TracingModel.Props.C03E'],
    'namespace': 'C03',
    'units': [],
    'required_theorems': ['C03.refcount', 'C03.step_rc', 'C03.closes_match_when_gone', 'C03.disabled_silent', 'C03.own_collector', 'C03.future_drop_releases_inner',
                          'C03.enter_exit_balance', 'C03.no_exit_without_enter', 'C03.enters_matched_when_no_guard', 'C03.step_eb',
                          'C03.silent_after_last_close', 'C03.nothing_after_zero', 'C03.step_sok', 'C03.step_ec'],
    'streams': [_prog],
    'rule': 'one case = one program of 15-60 ops over <=3 threads, two recording collectors (one rejecting DEBUG spans) or none as each thread\'s default, handles moved freely between threads; '
            'non-trivial = >=2 spans created, enters and closes present and either both collectors used or a clone_span observed',
    'trusted_base': ['hand-written model Core/SpanHandle.lean', 'executor h_span (real Span/EnteredSpan/Instrumented)'],
    'assumptions': [],
}

PROPERTY['streams'][0].py_judge = judge_log
