"""C01 — caches never change what a collector's own filter decides."""
import os
from checklib.main import Stream
from checks import coregen
import checklib.main as M

def extra(tier, seed, rng, res, broken):
    """first hits of a callsite on one thread while another creates a collector that answers differently (and a second thread's
    first hit of another callsite): real threads under every schedule with few preemptions (yield hooks), the scenarios and the
    judge being C04's — at quiescence every live collector receives exactly what its own filter accepts"""
    from checks import C04 as _c04
    # the process-wide count of live scopes is one of the shortcuts in front of the collector (it reads 0 => the thread's scoped
    # default is not even looked at): the search behind C02.fast_path_sound — real threads opening and closing scopes together
    from checks import stressgen
    stressgen.stress_phase('scopes', tier, res, broken, seed)
    N = 'n' * 30
    cases = []
    for cs in (0, 13):
        A = ''.join('a' if i == cs else 'n' for i in range(30))
        base = 'pre: new 20 %sh- | @20 hit %d | new 1 %sh%d' % (N, cs, A, _c04.LEVEL_OF(cs))
        cases += [base + ' ;; ' + s for s in _c04.preemption_schedules(2, [8, 4], 2 if (tier == 'quick' and not broken) else 3)]
    # two emitters, each with its own default collector that accepts the callsite, hit it for the first time together: the
    # one that finds the registration in progress must still deliver (every schedule with few preemptions)
    for cs, other in ((0, 'a'), (13, 't')):
        A = ''.join('a' if i == cs else 'n' for i in range(30)); B = ''.join(other if i == cs else 'n' for i in range(30))
        base = 'pre: new 20 %sh- , new 21 %sh- | @20 hit %d | @21 hit %d , hit %d' % (A, B, cs, cs, cs)
        cases += [base + ' ;; ' + s for s in _c04.preemption_schedules(2, [9, 9], 2 if (tier == 'quick' and not broken) else 3)]
    # two threads hit two DIFFERENT callsites for the first time together (both inside `register` under the shared read lock,
    # both pushing onto the lock-free callsite list), then a collector that wants both is created: a callsite that fell off the
    # list keeps its first verdict for ever.  Every schedule of the two pushes with few preemptions
    both = ''.join('a' if i in (0, 13) else 'n' for i in range(30))
    base2 = 'pre: new 20 %sh- | hit 0 | hit 13 | new 1 %sh-' % (N, both)
    cases += [base2 + ' ;; ' + s + '2222' for s in _c04.preemption_schedules(2, [8, 8], 2 if (tier == 'quick' and not broken) else 3)]
    cases += [_c04.gen_scenario(rng) for _ in range(40 if (tier == 'quick' and not broken) else 600)]
    outs, err = M.run_per_process([M.bin_path('h_race')], cases, timeout=30)
    if err:
        res.errors.append('race stream: %s' % err); return
    verdicts, err = M.driver('C04', 'judge', [c + ' => ' + o for c, o in zip(cases, outs)])
    if err:
        res.errors.append('race judge: %s' % err); return
    hard = []; soft = []
    for c, o, v in zip(cases, outs, verdicts):
        res.evaluations += 1
        res.hist['race first-hit'] = res.hist.get('race first-hit', 0) + 1
        if 'register:computed' in o and ('dispatch:enter' in o or 'rebuild:enter' in o): res.nontrivial.add('race ' + c)
        if v != 'ok':
            (hard if ('stranded' in v or 'wrong-delivery' in v or 'lost-delivery' in v or 'DEADLOCK' in v or 'PANIC' in v) else soft).append(('race', c, o, 'judge ' + v))
    res.spec_failures.extend(hard if hard else soft)
    static_phase(tier, res, broken)

def static_phase(tier, res, broken):
    """the compile-time maximum level: a tiny program built once per level feature of `tracing` (debug profile) reports the
    STATIC_MAX_LEVEL it got and which of error!…trace! reach a collector that accepts everything.  Oracle: `max_level_X` gives X,
    a `release_max_level_X` feature changes nothing in a debug build, no feature gives TRACE; delivered iff level <= that"""
    import subprocess
    RANK = {'off': 0, 'error': 1, 'warn': 2, 'info': 3, 'debug': 4, 'trace': 5}
    feats = [None, 'max_level_warn', 'release_max_level_info']
    if broken or tier == 'thorough':
        feats = [None] + ['max_level_' + k for k in RANK] + ['release_max_level_' + k for k in RANK]
    crate = os.path.join(M.VERIF, 'harness-static')
    env = dict(os.environ); env['CARGO_NET_OFFLINE'] = 'true'
    for f in feats:
        cmd = ['cargo', 'run', '--offline', '-q', '--bin', 'h_static'] + (['--features', f] if f else [])
        try:
            p = subprocess.run(cmd, cwd=crate, env=env, stdout=subprocess.PIPE, stderr=subprocess.PIPE, text=True, timeout=600)
        except subprocess.TimeoutExpired:
            res.errors.append('static phase: build with %s timed out' % f); continue
        out = p.stdout.strip().split('\n')[-1] if p.stdout.strip() else ''
        if p.returncode != 0 or not out.startswith('static='):
            res.errors.append('static phase: %s: exit=%s %s' % (f, p.returncode, p.stderr[-300:])); continue
        want = RANK[f[len('max_level_'):]] if (f and f.startswith('max_level_')) else 5
        exp = 'static=%d delivered=%s' % (want, ''.join('1' if l <= want else '0' for l in range(1, 6)))
        res.evaluations += 1
        res.hist['static feature=%s' % (f or 'none')] = res.hist.get('static feature=%s' % (f or 'none'), 0) + 1
        res.nontrivial.add('static ' + str(f))
        if out != exp:
            res.spec_failures.append(('static', 'debug build of tracing with feature %s' % (f or '(none)'), out, 'oracle ' + exp))

def gen(rng, tier):
    n = 150 if tier == 'quick' else 3000
    for k in range(n):
        yield coregen.gen_history(rng, rng.choice([40, 80, 160, 260]), style='cache')

def nontrivial(case, out):
    s = coregen.stats(case, out)
    # the cache mechanism is exercised: several collectors, both outcomes observed
    return s['collectors'] >= 2 and s['delivered'] >= 1 and s['suppressed'] >= 1

def classify(stream, case, out):
    s = coregen.stats(case, out)
    return 'collectors=%d drops=%s flips=%s' % (min(s['collectors'], 6), 'y' if s['drops'] else 'n', 'y' if s['flips'] else 'n')

PROPERTY = {
    'manifest': {
        'text': 'Lean 4 theorem C01.delivery_iff: in every reachable state of the modelled registry (any finite history of collector creation/drop, '
                'scoped and global default changes on any threads, first hits, rebuilds, dynamic flips) the macro guard lets an emission through to the '
                'emitting thread\'s current collector iff level <= STATIC and that collector\'s own filter accepts the callsite — proved from an invariant '
                '(every cached interest is the Interest::and fold over a basis containing every live collector; MAX_LEVEL bounds every live hint). '
                'The model is hand-written from callsite.rs/lib.rs/macros.rs and tied to the code by running generated histories on the real crates '
                '(one process per history) against the compiled model and against the cache-free specification. Several threads: the soundness of a cached interest while first hits race with collector creation rests on '
                'the lock discipline of callsite::register — extracted on every run (registration_lock_discipline) — and is C04\'s transition-system theorem restated (racing_first_hit_sound); real threads run the first-hit-vs-new-collector '
                'scenario under every schedule with few preemptions and generated race scenarios, judged at quiescence.',
        'note': 'Trusted: Lean kernel; axioms propext/Classical.choice/Quot.sound; the model is sequential (one op at a time; races are C04); '
                'collectors are self-consistent by construction (hint bounds every not-never callsite); emissions from inside collector callbacks are '
                'outside the quantifier; Arc/Weak modelled as "handle held or referenced by a scope/global".',
        'technique': 'Lean 4 proof (state invariant + induction over histories) of a hand-written model, correspondence-checked against the real crates',
    },
    'lean_module': 'TracingModel.Props.C01S',
    'leanchecker_modules': ['TracingModel.Props.C01', 'TracingModel.Props.C01R'],
    'extra_bins': ['h_race', 'h_stress'],
    'namespace': 'C01',
    'units': ['MacroGuards', 'RegistryLocks', 'StaticMaxLevel', 'AtomicCounts'],
    'required_theorems': ['C01.scope_count_is_atomic', 'C01.scope_count_zero_means_no_scope', 'C01.static_level_table', 'C01.static_level_of_feature', 'C01.static_level_strictest', 'C01.delivery_iff', 'C01.inv_reachable', 'C01.never_suppresses', 'C01.never_causes', 'C01.macro_guard_shape',
                          'C01.registration_lock_discipline', 'C01.racing_first_hit_sound'],
    'streams': [Stream('hist', 'h_core', gen=gen, per_process=True, nontrivial=nontrivial, spec_mode='spec',
                       canon=lambda s: s)],
    'rule': 'one case = one history (40-260 ops) run in a fresh process: <=6 collectors with generated self-consistent filters (static/dynamic/mixed, '
            'optional hint), <=4 threads, scoped/global defaults, drops without rebuild, rebuild_interest_cache, dynamic flips, emissions at a pool of 30 '
            'real macro callsites covering every event!/span! arm; non-trivial = >=2 collectors and both a delivery and a suppression observed; distinct = distinct history lines',
    'trusted_base': ['hand-written model Core/Callsite.lean + Core/Dispatch.lean', 'translator unit MacroGuards: all 9 copies of the macro guard have the canonical shape',
                     'executor h_core (real threads commanded one op at a time, recording Collect whose filter is data)'],
    'assumptions': ['sequential consistency at op granularity (concurrent registration is C04)', 'STATIC_MAX_LEVEL = TRACE (default features, debug build)'],
}

def spec_canon(s):
    return s

# the specification leaves `cur` (max level) unspecified: compare modulo '*'
def _match(spec, impl):
    a = spec.split(); b = impl.split()
    return len(a) == len(b) and all(x == '*' or x == y for x, y in zip(a, b))
PROPERTY['streams'][0].spec_match = _match
