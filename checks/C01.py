"""C01 — caches never change what a collector's own filter decides."""
from checklib.main import Stream
from checks import coregen

def gen(rng, tier):
    n = 150 if tier == 'quick' else 3000
    for k in range(n):
        yield coregen.gen_history(rng, rng.choice([40, 80, 160, 260]), style='cache')

def nontrivial(case, out):
    s = coregen.stats(case, out)
    # the cache mechanism is exercised: several collectors, both outcomes observed
    return s['collectors'] >= 2 and s['delivered'] >= 1 and s['suppressed'] >= 1

def classify(stream, case, out):
    s = coregen.stats(case, out)
    return 'collectors=%d drops=%s flips=%s' % (min(s['collectors'], 6), 'y' if s['drops'] else 'n', 'y' if s['flips'] else 'n')

PROPERTY = {
    'manifest': {
        'text': 'Lean 4 theorem C01.delivery_iff: in every reachable state of the modelled registry (any finite history of collector creation/drop, '
                'scoped and global default changes on any threads, first hits, rebuilds, dynamic flips) the macro guard lets an emission through to the '
                'emitting thread\'s current collector iff level <= STATIC and that collector\'s own filter accepts the callsite — proved from an invariant '
                '(every cached interest is the Interest::and fold over a basis containing every live collector; MAX_LEVEL bounds every live hint). '
                'The model is hand-written from callsite.rs/lib.rs/macros.rs and tied to the code by running generated histories on the real crates '
                '(one process per history) against the compiled model and against the cache-free specification.',
        'note': 'Trusted: Lean kernel; axioms propext/Classical.choice/Quot.sound; the model is sequential (one op at a time; races are C04); '
                'collectors are self-consistent by construction (hint bounds every not-never callsite); emissions from inside collector callbacks are '
                'outside the quantifier; Arc/Weak modelled as "handle held or referenced by a scope/global".',
        'technique': 'Lean 4 proof (state invariant + induction over histories) of a hand-written model, correspondence-checked against the real crates',
    },
    'lean_module': 'TracingModel.Props.C01',
    'namespace': 'C01',
    'units': ['MacroGuards'],
    'required_theorems': ['C01.delivery_iff', 'C01.inv_reachable', 'C01.never_suppresses', 'C01.never_causes', 'C01.macro_guard_shape'],
    'streams': [Stream('hist', 'h_core', gen=gen, per_process=True, nontrivial=nontrivial, spec_mode='spec',
                       canon=lambda s: s)],
    'rule': 'one case = one history (40-260 ops) run in a fresh process: <=6 collectors with generated self-consistent filters (static/dynamic/mixed, '
            'optional hint), <=4 threads, scoped/global defaults, drops without rebuild, rebuild_interest_cache, dynamic flips, emissions at a pool of 30 '
            'real macro callsites covering every event!/span! arm; non-trivial = >=2 collectors and both a delivery and a suppression observed; distinct = distinct history lines',
    'trusted_base': ['hand-written model Core/Callsite.lean + Core/Dispatch.lean', 'translator unit MacroGuards: all 9 copies of the macro guard have the canonical shape',
                     'executor h_core (real threads commanded one op at a time, recording Collect whose filter is data)'],
    'assumptions': ['sequential consistency at op granularity (concurrent registration is C04)', 'STATIC_MAX_LEVEL = TRACE (default features, debug build)'],
}

def spec_canon(s):
    return s

# the specification leaves `cur` (max level) unspecified: compare modulo '*'
def _match(spec, impl):
    a = spec.split(); b = impl.split()
    return len(a) == len(b) and all(x == '*' or x == y for x, y in zip(a, b))
PROPERTY['streams'][0].spec_match = _match
