"""C14 — JSON output is always one valid JSON object per line and faithful to the data."""
import json, re
from checklib.main import Stream

def hx(s): return s.encode('utf-8').hex()

HOSTILE = ['"', '\\', '\n', '\r', '\t', '\b', '\f', '\x00', '\x01', '\x1b', '\x1f', '\x7f', ' ', ' ', 'é', '�', '\U0001F600', '\U0010FFFF', '/', '\u0085', ' ']
PLAIN = list('abcXYZ019 _-:{}[],')
NAMES = ['a', 'b', 'c', 'message', 'we"ird', 'back\\slash', 'tab\tname', 'r#type', 'uni x', 'emoji\U0001F600', 'new\nline', 'type', 'A', 'nul\x00l', 'log', 'sp ace']
FLOATS = ['0.5', '2.5', '-2.25', '1e+300', '100.0', '1.5e-7', '0.1', 'nan', 'inf', '-inf', '-0.0', '123456.789']
INTS = [0, 1, -1, 42, -9223372036854775808, 9223372036854775807, 1000000, -77]
UINTS = [0, 18446744073709551615, 9223372036854775808, 7]

def gen_str(rng):
    n = rng.choice([0, 1, 2, 5, 12])
    return ''.join(rng.choice(HOSTILE) if rng.random() < 0.45 else rng.choice(PLAIN) for _ in range(n))

def gen_val(rng, allow_empty=False):
    r = rng.random()
    if allow_empty and r < 0.15: return 'e'
    if r < 0.3: return 's' + hx(gen_str(rng))
    if r < 0.45: return 'd' + hx(gen_str(rng))
    if r < 0.6: return 'i%d' % rng.choice(INTS + [rng.randrange(-10**6, 10**6)])
    if r < 0.7: return 'u%d' % rng.choice(UINTS)
    if r < 0.85: return 'f' + rng.choice(FLOATS)
    return 'b%d' % rng.randrange(2)

def gen_fields(rng, allow_empty=False, names=None):
    names = names if names is not None else rng.sample(NAMES, rng.choice([0, 1, 2, 3, 4]))
    # a raw identifier and its stripped form would collide in the span's map (and are the same Rust identifier)
    if 'r#type' in names and 'type' in names: names = [n for n in names if n != 'type']
    return ','.join('%s=%s' % (hx(n), gen_val(rng, allow_empty)) for n in names) if names else '-'

def gen_case(rng):
    # thread names / ids: the serving thread is named `main`; with U1 the history runs on an unnamed spawned thread
    cfg = ['json', 't%d' % rng.randrange(2), 'l%d' % rng.randrange(2), 'i%d' % rng.choice([0, 0, 1]), 'n%d' % rng.choice([0, 0, 1]), 'U%d' % rng.randrange(2), 'f0', 'L0', 's0', 'c%d' % rng.randrange(2), 'S%d' % rng.randrange(2), 'F%d' % rng.randrange(2), 'P%d' % (1 if rng.random() < 0.25 else 0)]
    ops = []; nsp = 0; stack = []; declared = {}
    for _ in range(rng.choice([3, 7, 14])):
        r = rng.random()
        if r < 0.35: ops.append('ev %d %d %s' % (rng.randrange(1, 6), rng.randrange(0, 7), gen_fields(rng)))
        elif r < 0.55 and len(stack) < 3:
            names = rng.sample(NAMES, rng.choice([0, 1, 2, 3, 4]))
            if 'r#type' in names and 'type' in names: names.remove('type')
            declared[nsp] = names
            ops.append('sp %d %d %d %s %s' % (nsp, rng.randrange(1, 6), rng.randrange(0, 7), hx(rng.choice(['outer', 'in"ner', 'sp\\an', 'job\n', 'r q']) + str(nsp)), gen_fields(rng, True, names)))
            ops.append('en %d' % nsp); stack.append(nsp); nsp += 1
        elif r < 0.8 and stack:
            k = rng.choice(stack)
            if declared[k]:
                ops.append('rc %d %s' % (k, gen_fields(rng, False, rng.sample(declared[k], rng.randrange(1, len(declared[k]) + 1)))))
        elif stack:
            k = stack.pop(); ops.append('ex %d' % k); ops.append('cl %d' % k)
    ops.append('ev 3 0 %s' % gen_fields(rng))
    return ' '.join(cfg) + ' ;; S1 ;; ' + ' ; '.join(ops)

def model_case(case):
    """`P1`: the formatter sits behind a per-layer filter (INFO): spans and events above INFO — and everything done to such
    spans — do not exist for it"""
    cfg, w, opsS = case.split(' ;; ')
    if 'P1' not in cfg.split(): return case
    hidden = set(); out = []
    for op in opsS.split(' ; '):
        t = op.split()
        if t[0] == 'ev' and int(t[1]) > 3: out.append('nop')
        elif t[0] == 'sp' and int(t[2]) > 3: hidden.add(t[1]); out.append('nop')
        elif t[0] in ('en', 'ex', 'cl', 'rc') and t[1] in hidden: out.append('nop')
        else: out.append(op)
    return cfg + ' ;; ' + w + ' ;; ' + ' ; '.join(out)

def gen(rng, tier):
    n = 2000 if tier == 'quick' else 40000
    for _ in range(n):
        yield gen_case(rng)

class Dup(Exception): pass

def no_dups(pairs):
    keys = [k for k, _ in pairs]
    if len(set(keys)) != len(keys): raise Dup(repr(keys))
    return dict(pairs)

def expected_value(v):
    if v[0] == 'i' or v[0] == 'u': return int(v[1:])
    if v[0] == 'b': return v[1:] == '1'
    if v[0] in 'sd': return bytes.fromhex(v[1:]).decode('utf-8')
    if v[0] == 'f': return None if v[1:] in ('nan', 'inf', '-inf') else float(v[1:])
    return None

def judge(case, out):
    """every record is one line, parses (independent parser) as ONE object with unique keys at every level, and carries the event's fields"""
    cfg, _, opsS = case.split(' ;; ')
    flatten = 'F1' in cfg.split()
    for op, o in zip(opsS.split(' ; '), out.split(' ')):
        t = op.split()
        for x in o.split(','):
            if ':w' not in x: continue
            try: text = bytes.fromhex(x.split(':w', 1)[1]).decode('utf-8')
            except Exception: return 'bad non-utf8'
            if not text.endswith('\n') or text.count('\n') != 1 or '\r' in text: return 'bad not-a-single-line'
            try: j = json.loads(text, object_pairs_hook=no_dups)
            except Dup as e: return 'bad duplicate-keys ' + str(e)[:60]
            except Exception as e: return 'bad unparsable ' + str(e)[:60]
            if not isinstance(j, dict): return 'bad not-an-object'
            flags = cfg.split()
            named = 'U1' not in flags
            if 'i1' in flags and not (isinstance(j.get('threadId'), str) and j['threadId'].startswith('ThreadId(')): return 'bad threadId-missing'
            if 'i0' in flags and 'threadId' in j: return 'bad threadId-unasked'
            if 'n1' in flags and (named or 'i0' in flags) and not isinstance(j.get('threadName'), str): return 'bad threadName-missing'
            if 'n0' in flags and 'threadName' in j: return 'bad threadName-unasked'
            if t[0] == 'ev' and t[3] != '-':
                holder = j if flatten else j.get('fields')
                if not isinstance(holder, dict): return 'bad fields-missing'
                for kv in t[3].split(','):
                    k, v = kv.split('=')
                    name = bytes.fromhex(k).decode('utf-8')
                    if name not in holder: return 'bad field-missing ' + repr(name)
                    exp = expected_value(v)
                    if holder[name] != exp and not (isinstance(exp, float) and isinstance(holder[name], (int, float)) and float(holder[name]) == exp):
                        return 'bad field-value %r: %r != %r' % (name, holder[name], exp)
    return 'ok'

_TH = [re.compile(r',"threadName":"[^"]*"'), re.compile(r',"threadId":"ThreadId\(\d+\)"'),
       re.compile(r'(?<=\{)"threadName":"[^"]*",'), re.compile(r'(?<=\{)"threadId":"ThreadId\(\d+\)",'),
       re.compile(r'(?<=\{)"threadName":"[^"]*"(?=\})'), re.compile(r'(?<=\{)"threadId":"ThreadId\(\d+\)"(?=\})')]
def canon(out):
    """the model does not render the thread entries (their values are the run's thread ids): they are removed before the
    byte comparison; the judge sees them (presence, uniqueness of keys)"""
    if 'thread' not in out and '746872656164' not in out: return out
    res = []
    for tok in out.split(' '):
        parts = []
        for x in tok.split(','):
            if ':w' in x:
                head, h = x.split(':w', 1)
                try:
                    text = bytes.fromhex(h).decode('utf-8')
                    for rx in _TH: text = rx.sub('', text)
                    x = head + ':w' + text.encode('utf-8').hex()
                except Exception: pass
            parts.append(x)
        res.append(','.join(parts))
    return ' '.join(res)

def nontrivial(case, out):
    return ' rc ' in case and any(h in case for h in (hx('"'), hx('\\'), hx('\n'), hx(' '))) and ':w' in out

def classify(stream, case, out):
    cfg = case.split(' ;; ')[0].split()
    return 'flatten=%s span=%s list=%s records=%s' % (cfg[-1][1], cfg[-3][1], cfg[-2][1], 'y' if ' rc ' in case else 'n')

_s = Stream('json', 'h_fmt', gen=gen, nontrivial=nontrivial, canon=canon)
_s.py_judge = judge
_s.model_case = model_case

def extra(tier, seed, rng, res, broken):
    """several threads record one field each on ONE span at the same moment: a JSON record emitted inside the span afterwards
    shows all of them"""
    from checks import stressgen
    stressgen.stress_phase('recordshared', tier, res, broken, seed)

PROPERTY = {
    'manifest': {
        'text': "Lean 4 theorems over a model of the JSON formatter (serde_json's escaping and compact rendering, the type mapping of event fields and span fields, parse-merge-reserialise of later record calls as an insertion into a "
                "key-sorted map, span objects and the event layout for every combination of level/target/flatten_event/current_span/span_list): escape_roundtrip (an independent reader of JSON string bodies recovers every string — "
                "any code points — from its escaped form), single_line (an escaped string contains no raw control character), merge_last_wins (after any number of record calls the stored object is sorted, has unique keys and "
                "maps every key to the value recorded last; nothing recorded earlier is lost), spans_root_to_leaf; and the headline: an independent reader of JSON text (null/true/false/numbers/strings with escapes/arrays/objects) defined in Lean reads the rendering of ANY value of the model — any depth — back to exactly that value and the following text (render_roundtrip, by induction on a size bound through the mutually recursive renderer and reader), so every record line, for every configuration, field set and span scope, is ONE object followed by the newline and is the object the formatter was given (record_is_one_json_object; numbers written by the formatter are JSON number tokens; what record stores stays well formed). The model's output is compared BYTE FOR BYTE with the real formatter on hostile Unicode, numeric extremes, "
                "NaN/inf, Debug/Display values, raw-identifier names and span histories with later records, and every line is parsed by an independent JSON parser that rejects duplicate keys. "
                "Overlapping records on one span: a transition system over on_record's critical sections, parametrised by whether the merge happens in place under the extensions write lock (record_merge_code_fact, extracted from "
                "fmt_subscriber.rs), any threads, every schedule: the stored fields contain every field of a finished record call (no_recorded_field_lost); with copy / merge / write-back one is lost (lost_record_witness); real threads "
                "recording on one span together (h_stress, values with a slow Debug) must all appear in the next JSON record.",
        'note': "Trusted: Lean kernel; propext/Classical.choice/Quot.sound; floats cross as opaque decimal tokens (a fixed set whose shortest form is known); byte slices, errors and 128-bit integers are not generated; "
                "thread id/name, file/line and span-lifecycle records are exercised by C13, not here; reserved key collisions are the property's exclusion. Repaired: F18 (later records lost when a stored key needs escaping).",
        'technique': 'Lean 4 proof (string escaping inverse, sorted-map invariant) of a hand-written model + byte-exact differential run against the real JSON formatter + independent JSON parser as judge',
    },
    'lean_module': 'TracingModel.Props.C14A',
    'leanchecker_modules': ['TracingModel.Props.C14', 'TracingModel.Props.C14J'],
    'extra_bins': ['h_stress'],
    'namespace': 'C14',
    'units': ['AtomicCounts'],
    'required_theorems': ['C14.escape_roundtrip', 'C14.single_line', 'C14.merge_last_wins', 'C14.spans_root_to_leaf', 'C14.insert_sorted', 'C14.render_roundtrip', 'C14.record_is_one_json_object', 'C14.roundtrip', 'C14.event_field_present', 'C14.recordInto_wf', 'C14.eventObj_wf',
                          'C14.record_merge_code_fact', 'C14.no_recorded_field_lost', 'C14.lost_record_witness',
                          'C14.stream_roundtrip', 'C14.output_is_one_object_per_line'],
    'streams': [_s],
    'rule': 'one case = the JSON formatter with random level/target/flatten_event/current_span/span_list and 3-14 ops: events with 0-4 fields whose names and string values draw from quotes, backslashes, every kind of control '
            'character, DEL, U+2028/9, astral code points; i64/u64 extremes; floats incl. NaN/inf; bools; Debug values; raw-identifier names; spans (hostile names) declared with 0-4 fields, some empty, entered, and recorded into '
            '0-5 more times; compared = every output byte; judged = single line, parses with an independent parser, unique keys at every level, event field values equal what was recorded. non-trivial = a later record call and a character that needs escaping',
    'trusted_base': ['hand-written model Core/Json.lean', 'executor h_fmt', 'python json module as the independent parser'],
    'assumptions': ['field names within one event / span are distinct and not reserved keys'],
}
