"""C18 — log and tracing interoperate without losing, inventing or mislabelling records."""
import re
from checklib.main import Stream

def hx(s): return s.encode('utf-8').hex()
TARGETS = ['app', 'app::db', 'app::db::pool', 'hyper', 'hyper::client', 'h2', 'other', 'ap', '', 'tracing::span']
MSGS = ['hello', 'a b c', 'x=1 y="2"', 'ünï', '{}', 'multi word message', '']

def gen_bridge(rng, tier):
    n = 250 if tier == 'quick' else 5000
    for _ in range(n):
        ign = rng.sample(['hyper', 'h2', 'app::db', 'o'], rng.choice([0, 0, 1, 2]))
        ops = []
        for _ in range(rng.choice([6, 12, 25])):
            r = rng.random()
            if r < 0.2 or not ops:
                cap = rng.choice(['-', '1', '2', '3', '4', '5'])
                allow = rng.sample(['app', 'app::db', 'hyper', 'ot', ''], rng.choice([0, 0, 1, 2]))
                ops.append('col %s %s' % (cap, ','.join(hx(a) for a in allow if a) or '-'))
            else:
                t = rng.choice(TARGETS)
                ops.append('rec %d %s %s %s %s %s' % (rng.randrange(1, 6), hx(t) or hx('x'), hx(rng.choice(MSGS)) or hx('m'),
                                                     rng.choice(['-', hx(t or 'm'), hx('some::module')]), rng.choice(['-', hx('src/lib.rs'), hx('a b.rs')]), rng.choice(['-', '1', '4294967295', '42'])))
        yield 'ign=%s ;; %s' % (','.join(hx(i) for i in ign) or '-', ' ; '.join(ops))

def gen_feat(rng, tier):
    n = 150 if tier == 'quick' else 3000
    for _ in range(n):
        ops = []; guards = 0; glob = False
        for _ in range(rng.choice([4, 8, 16])):
            r = rng.random()
            if r < 0.45: ops.append('ev %d %d %s %d' % (rng.randrange(1, 6), rng.randrange(0, 10**6), hx(rng.choice(['x y', 'v', 'a=b', 'q"t'])), rng.randrange(-99, 99)))
            elif r < 0.65: ops.append('sp %d %d' % (rng.randrange(1, 6), rng.randrange(0, 1000)))
            elif r < 0.78: ops.append('sd'); guards += 1
            elif r < 0.9 and guards: ops.append('dg'); guards -= 1
            elif r < 0.95 and not glob: ops.append('sg'); glob = True
        ops.append('ev 3 1 %s 1' % hx('end'))
        yield ' ; '.join(ops)

def canon_feat(out):
    # level and target of every record; the text is judged
    return re.sub(r'(\d:[0-9a-f]*):[0-9a-f]*', r'\1', out)

def judge_feat(case, out):
    """every emitted record's text names the message and every field with its value"""
    for op, o in zip(case.split(' ; '), out.split(' ')):
        t = op.split()
        for grp in o.split('+'):
            for rec in grp.split(','):
                if rec == '-' or ':' not in rec: continue
                text = bytes.fromhex(rec.split(':')[2]).decode('utf-8')
                if t[0] == 'ev':
                    b = bytes.fromhex(t[3]).decode()
                    for need in ('msg %s' % t[4], 'a=%s' % t[2], 'b=%s' % b):
                        if need not in text: return 'bad log-text-misses %r in %r' % (need, text)
                elif t[0] == 'sp':
                    if 'my_span' not in text: return 'bad span-name-missing'
                    if grp == o.split('+')[0] and ('k=%s' % t[2]) not in text: return 'bad span-field-missing'
    return 'ok'

def nontrivial_bridge(case, out):
    return ' 0' in (' ' + out) and 'log:' in out and 'ign=-' not in case

def nontrivial_feat(case, out):
    return ('sd' in case.split(' ; ') or 'sg' in case.split(' ; ')) and ':' in out and out.split(' ')[-1] == '-'

def classify(stream, case, out):
    if stream == 'bridge': return 'bridge ignore=%s delivered=%s dropped=%s' % ('y' if 'ign=-' not in case else 'n', 'y' if 'log:' in out else 'n', 'y' if ' 0' in ' ' + out else 'n')
    ops = case.split(' ; ')
    return 'feature scoped=%s global=%s dropguard=%s' % ('y' if 'sd' in ops else 'n', 'y' if 'sg' in ops else 'n', 'y' if 'dg' in ops else 'n')

_b = Stream('bridge', 'h_logbridge', gen=gen_bridge, per_process=True, nontrivial=nontrivial_bridge)
_f = Stream('feature', 'h_logfeat', mode='modelfeat', gen=gen_feat, per_process=True, nontrivial=nontrivial_feat, crate='harness-logfeat', canon=canon_feat, spec_mode='specfeat')
_f.py_judge = judge_feat

PROPERTY = {
    'manifest': {
        'text': "Lean 4 theorems over a model of both bridges, with facts extracted on every run from dispatch.rs (has_been_set reads EXISTS; EXISTS is only ever stored true, by set_default and set_global_default), macros.rs "
                "(if_log_enabled! gates on !has_been_set(); __tracing_log!), log_tracer.rs (the order of LogTracer::enabled's checks) and tracing-log/src/lib.rs (dispatch_record re-checks enabled and emits one event with the five "
                "log.* fields): bridge_iff (for every record, ignore list and collector with a sound hint: exactly one event iff the collector accepts the record's own level and target and the target is not ignored; it carries "
                "message, target, level, file, line and module path), log_until_installed (for EVERY history of emissions, scoped/global installations and guard drops an emission yields exactly one log record iff no collector "
                "was installed at any earlier point — dropping the last scoped guard does not re-open the gate), exists_monotone, levels_bijection_monotone (C19's tables). Both directions are compared with the real crates: "
                "LogTracer as the process logger under filtering collectors, and tracing built WITH the log feature under a recording log::Log (one process per history).",
        'note': "Trusted: Lean kernel; propext/Classical.choice/Quot.sound; the collector's hint is sound (C08/C01); the text of log records is judged for containing the message and every field, not modelled; span lifecycle "
                "levels/targets of the log records (creation at the span's level and target, enter/exit at TRACE on tracing::span::active, drop at TRACE on tracing::span) are data of the driver, compared with the real crate; "
                "log-always and a non-default log::STATIC_MAX_LEVEL are not exercised.",
        'technique': 'Lean 4 proof (case analysis over extracted facts; induction over histories) + differential runs of the real LogTracer and of tracing built with the log feature',
    },
    'lean_module': 'TracingModel.Props.C18',
    'namespace': 'C18',
    'units': ['LogFacts', 'Levels'],
    'required_theorems': ['C18.code_facts', 'C18.bridge_iff', 'C18.log_until_installed', 'C18.exists_monotone', 'C18.levels_bijection_monotone',
                          'C18.bridge_history', 'C18.log_history_exact'],
    'streams': [_b, _f],
    'rule': 'stream bridge: one process per case: LogTracer installed with 0-2 ignored prefixes; 6-25 ops: install a collector (level cap none/1..5, 0-2 accepted target prefixes), pass a log record (5 levels, 10 targets incl. ignored '
            'prefixes and the empty string, 7 messages, module/file/line present or absent); compared = number of events and the normalised metadata and message of each. stream feature: one process per history over tracing built '
            'with the log feature: events (message + 2 fields) and spans (creation, enter, exit, drop) at every level, set_default, guard drops, set_global_default; compared = level and target of every log record per step; '
            'judged = the text names the message and every field. non-trivial = records both delivered and dropped / a history with an installation',
    'trusted_base': ['translator units LogFacts and Levels', 'hand-written model Core/LogBridge.lean', 'executors h_logbridge and harness-logfeat/h_logfeat'],
    'assumptions': ['log::max_level() = Trace in the feature stream'],
}
