"""C12 — after a reload returns, every thread filters with the new value."""
import re
from checklib.main import Stream
from checks.C11 import hx
from checklib import main as M
from checks import C04 as _c04

TARGETS = ['t0', 't1', 't2', 't', 'tv_harness', 'tv_harness::pool', 'tv', 'x']
LEVELS = ['off', 'error', 'warn', 'info', 'debug', 'trace']

def gen_targets_string(rng):
    parts = []
    for _ in range(rng.choice([1, 1, 2, 3])):
        r = rng.random()
        if r < 0.25: parts.append(rng.choice(LEVELS))
        elif r < 0.9: parts.append('%s=%s' % (rng.choice(TARGETS), rng.choice(LEVELS)))
        else: parts.append(rng.choice(TARGETS))
    return ','.join(parts)

def model_case(case):
    """an absent GLOBAL layer (`Option::None`, leaf N) has no opinion: to the model it is a layer that accepts everything and
    gives no hint (`F05h-`)"""
    if ' ;; ' not in case: return case
    st, ops = case.split(' ;; ')
    toks = st.split(); gslots = set()
    for i, t in enumerate(toks):
        m = re.match(r'RG(\d+):(.*)$', t)
        if m:
            gslots.add(m.group(1))
            if m.group(2) == 'N': toks[i] = 'RG%s:F05h-' % m.group(1)
        elif t == 'GN': toks[i] = 'GF05h-'
    o2 = []
    for op in ops.split(' ; '):
        w = op.split()
        if w and w[0] == 'rl' and w[1] in gslots and w[2:] == ['N']: op = 'rl %s F05h-' % w[1]
        o2.append(op)
    return ' '.join(toks) + ' ;; ' + ' ; '.join(o2)

def gen_leaf(rng, for_global, allow_none=False):
    if for_global and allow_none and rng.random() < 0.2: return 'N'
    r = rng.random()
    if r < 0.35: return 'L%d' % rng.randrange(0, 6)
    if r < 0.55: return 'T' + hx(gen_targets_string(rng))
    if r < 0.65: return 'E' + hx(gen_targets_string(rng))
    if r < 0.80:
        k = rng.randrange(1, 6)
        return 'F%d%dh%s' % (rng.choice([0, 0, 2]), k, rng.choice(['-', str(k), str(min(5, k + 1)), '5']))
    k = rng.randrange(1, 6)
    hint = rng.choice(['-', str(k), str(min(5, k + 1))])
    if for_global: return 'D%dh%sc-' % (k, hint)
    return 'D%dh%sc%s' % (k, hint, rng.choice(['-', 'g']))

def gen_expr(rng, depth):
    if depth == 0 or rng.random() < 0.45:
        return ['N'] if rng.random() < 0.08 else [gen_leaf(rng, False)]
    r = rng.random()
    if r < 0.3: return ['&'] + gen_expr(rng, depth - 1) + gen_expr(rng, depth - 1)
    if r < 0.6: return ['|'] + gen_expr(rng, depth - 1) + gen_expr(rng, depth - 1)
    if r < 0.75: return ['!'] + gen_expr(rng, depth - 1)
    if r < 0.9: return ['S'] + gen_expr(rng, depth - 1)
    return ['B'] + gen_expr(rng, depth - 1)

def gen_case(rng):
    k = rng.choice([1, 2, 2, 3, 3, 4])
    slots = []          # 'G' / 'F'
    toks = []
    # stacks of plain and global layers only may contain ABSENT global layers (Option::None), also as old / new value of a
    # reload; next to per-layer-filtered layers an absent layer is the region of finding F32 (C08), kept out of this stream
    plain = rng.random() < 0.25
    for n in range(1, k + 1):
        r = rng.random()
        if plain:
            if r < 0.35: toks.append('P%d' % n)
            elif r < 0.5: toks.append('G' + gen_leaf(rng, True, True))
            else: toks.append('RG%d:%s' % (len(slots), gen_leaf(rng, True, True))); slots.append('G')
        elif r < 0.2: toks.append('P%d' % n)
        elif r < 0.3: toks.append('G' + gen_leaf(rng, True))
        elif r < 0.45: toks += ['F%d' % n] + gen_expr(rng, 1) + ['.']
        elif r < 0.7: toks.append('RG%d:%s' % (len(slots), gen_leaf(rng, True))); slots.append('G')
        else: toks += ['RF%d:%d' % (len(slots), n)] + gen_expr(rng, 1) + ['.']; slots.append('F')
    if plain and not any(t.startswith('P') for t in toks): toks.insert(0, 'P9')
    if not slots:
        if plain: toks.append('RG0:%s' % gen_leaf(rng, True, True)); slots.append('G')
        else: toks += ['RF0:%d' % (k + 1)] + gen_expr(rng, 1) + ['.']; slots.append('F')
    cs_pool = rng.sample(range(30), rng.choice([4, 8, 12]))
    ops = []
    nops = rng.choice([12, 25, 40])
    dropped = False
    for i in range(nops):
        r = rng.random()
        if r < 0.6:
            ops.append('em %d %d %d' % (rng.randrange(3), rng.choice(cs_pool), rng.randrange(2)))
        elif r < 0.85:
            h = rng.randrange(len(slots))
            v = gen_leaf(rng, True, plain) if slots[h] == 'G' else ' '.join(gen_expr(rng, rng.choice([0, 1, 2])))
            ops.append('rl %d %s' % (h, v))
        elif r < 0.97:
            ops.append('cur')
        elif not dropped and i > nops // 2:
            ops.append('dropc'); dropped = True
    return ' '.join(toks) + ' ;; ' + ' ; '.join(ops)

def gen(rng, tier):
    n = 400 if tier == 'quick' else 8000
    yield 'T'
    for _ in range(n):
        yield gen_case(rng)

def nontrivial(case, out):
    if case == 'T': return False
    # a reload that changed some callsite's verdict: the same `em` (callsite, ctx) has two different outputs
    ops = case.split(' ;; ')[1].split(' ; '); outs = out.split()
    seen = {}
    changed = False
    for o, r in zip(ops, outs):
        if o.startswith('em '):
            key = tuple(o.split()[2:])
            if key in seen and seen[key] != r: changed = True
            seen[key] = r
    return changed and ' rl ' in (' ' + case)

def classify(stream, case, out):
    if case == 'T': return 'pool-table'
    st = case.split(' ;; ')[0].split()
    return 'slots=%d global=%s filter=%s drop=%s' % (sum(1 for t in st if t.startswith('R')), 'y' if any(t.startswith('RG') for t in st) else 'n',
                                                    'y' if any(t.startswith('RF') for t in st) else 'n', 'y' if 'dropc' in case else 'n')

def _match(spec, impl):
    a = spec.split(); b = impl.split()
    return len(a) == len(b) and all(x == y or x == 'c:*' for x, y in zip(a, b))

def gen_real_reload(rng):
    """collectors whose filter sits behind a REAL reload::Subscriber (h_race `newr`), reloaded with the real Handle::reload (`rl`)
    from two or three threads while callsites are hit for the first time"""
    css = rng.sample(range(30), rng.choice([1, 2]))
    N = 'n' * 30
    pre = ['new 20 %sh-' % N, 'newr 21 %s' % _c04.spec_for(rng, css), 'newr 22 %s' % _c04.spec_for(rng, css)]
    nthreads = rng.choice([2, 2, 3])
    threads = []
    for t in range(nthreads):
        ops = []
        if rng.random() < 0.6: ops.append('hit %d' % rng.choice(css))
        ops.append('rl %d %s' % (21 + (t % 2), _c04.spec_for(rng, css)) if (t < 2 or rng.random() < 0.5) else 'hit %d' % rng.choice(css))
        if rng.random() < 0.3: ops.append('hit %d' % rng.choice(css))
        head = rng.choice(['', '@21 ', '@22 '])
        threads.append(head + ' , '.join(ops))
    sched = ''.join(str(rng.randrange(nthreads)) for _ in range(rng.choice([8, 16, 30])))
    return 'pre: ' + ' , '.join(pre) + ' | ' + ' | '.join(threads) + ' ;; ' + sched

def gen_single_collector(rng):
    """exactly ONE live collector in the process, the default of worker threads only; a control thread without any default
    reloads it through the Handle (the usual deployment of a reload handle): callsites the workers have already hit must be
    re-judged by the new value"""
    css = rng.sample(range(30), rng.choice([1, 2, 3]))
    nthreads = rng.choice([2, 2, 3])
    threads = []
    for t in range(nthreads):
        if t == nthreads - 1:
            ops = ['rl 21 %s' % _c04.spec_for(rng, css)] + (['rl 21 %s' % _c04.spec_for(rng, css)] if rng.random() < 0.3 else [])
            threads.append(' , '.join(ops))
        else:
            ops = ['hit %d' % rng.choice(css) for _ in range(rng.choice([1, 2, 3]))]
            threads.append('@21 ' + ' , '.join(ops))
    sched = ''.join(str(rng.randrange(nthreads)) for _ in range(rng.choice([8, 16, 30])))
    return 'pre: newr 21 %s | ' % _c04.spec_for(rng, css) + ' | '.join(threads) + ' ;; ' + sched

def systematic_single_collector(tier):
    """one collector, a worker that has registered a callsite under a value rejecting it, a control thread reloading to a value
    accepting it (and the reverse): every schedule with at most 1 (thorough: 2) preemptions"""
    N = 'n' * 30; A = 'a' + 'n' * 29
    res = []
    for old, new in ((N + 'h-', A + 'h-'), (A + 'h-', N + 'h1'), ('s' + 'n' * 29 + 'h-', A + 'h-')):
        base = 'pre: newr 21 %s | @21 hit 0 , hit 0 | rl 21 %s' % (old, new)
        res += [base + ' ;; ' + sch for sch in _c04.preemption_schedules(2, [11, 5], 1 if tier == 'quick' else 2)]
    return res

def systematic_push_race_then_reload(tier):
    """two threads hit two DIFFERENT callsites for the first time together (both pushing onto the lock-free callsite list), then a
    reload makes the collector want both: a callsite that fell off the list is never re-judged.  Every schedule of the two pushes
    with at most 2 (thorough: 3) preemptions, the reload afterwards"""
    N = 'n' * 30
    both = ''.join('a' if i in (0, 13) else 'n' for i in range(30))
    base = 'pre: newr 21 %sh- | @21 hit 0 | @21 hit 13 | rl 21 %sh-' % (N, both)
    return [base + ' ;; ' + sch + '2' * 8 for sch in _c04.preemption_schedules(2, [8, 8], 2 if tier == 'quick' else 3)]

def systematic_real_reload(tier):
    """a registered callsite, then two overlapping reloads on two threads: every schedule with at most 1 (thorough: 2) preemptions"""
    N = 'n' * 30; A = 'a' + 'n' * 29
    # (the first reload leaves everybody saying `never` for the callsite, so that a verdict cached by ITS rebuild is `never`;
    #  the second one makes its collector want the callsite)
    res = []
    for first, second in ((N + 'h1', A + 'h-'), (A + 'h-', A + 'h-')):
        base = 'pre: new 20 %sh- , newr 21 %sh- , newr 22 %sh- | hit 0 , rl 21 %s | rl 22 %s' % (N, N, N, first, second)
        res += [base + ' ;; ' + sch for sch in _c04.preemption_schedules(2, [13, 5], 1 if tier == 'quick' else 2)]
    return res

def systematic_racing_emission(tier):
    """an emission from an already registered callsite (cached `sometimes`, so the filter is asked) while another thread is
    INSIDE the write-locked section of a reload whose old and new value both accept it: it must be delivered (judged entirely by
    the old or entirely by the new value) — every schedule with at most 2 (thorough: 3) preemptions"""
    N = 'n' * 30; T = 't' + 'n' * 29
    res = []
    for new in (T + 'h-', T + 'h3'):
        base = 'pre: new 20 %sh- , newr 21 %sh- | rlb 21 %s | @21 hit 0 , hit 0 , hit 0' % (N, T, new)
        res += [base + ' ;; ' + sch for sch in _c04.preemption_schedules(2, [6, 11], 2 if tier == 'quick' else 3)]
    return res

def extra(tier, seed, rng, res, broken):
    """a reload (mutate, then rebuild — the order extracted from Handle::modify) racing with first-hit registrations on other
    threads, under generated schedules; judged by C04's transition system and the quiescent oracle"""
    n = 60 if (tier == 'quick' and not broken) else 600
    deep = 'quick' if (tier == 'quick' and not broken) else 'thorough'
    cases = M.corpus_cases('C12', 'race') + [_c04.gen_scenario(rng, force_mut=True) for _ in range(n)] + \
            [gen_real_reload(rng) for _ in range(n // 2)] + [gen_single_collector(rng) for _ in range(n // 3)] + \
            systematic_real_reload(deep) + systematic_racing_emission(deep) + systematic_single_collector(deep) + systematic_push_race_then_reload(deep)
    outs, err = M.run_per_process([M.bin_path('h_race')], cases, timeout=30)
    if err:
        res.errors.append('race stream: %s' % err); return
    verdicts, err = M.driver('C04', 'judge', [c + ' => ' + o for c, o in zip(cases, outs)])
    if err:
        res.errors.append('race judge: %s' % err); return
    hard = []; soft = []
    for c, o, v in zip(cases, outs, verdicts):
        res.evaluations += 1
        k = 'race reload=%s real-handle=%s first-hit=%s' % ('y' if ('mutated' in o or 'modify:unlocked' in o) else 'n', 'y' if 'modify:unlocked' in o else 'n', 'y' if 'register:computed' in o else 'n')
        res.hist[k] = res.hist.get(k, 0) + 1
        if ('mutated' in o or 'modify:unlocked' in o) and 'register:computed' in o: res.nontrivial.add('race ' + c)
        if v != 'ok':
            (hard if ('stranded' in v or 'DEADLOCK' in v or 'PANIC' in v or 'wrong-delivery' in v or 'lost-delivery' in v) else soft).append(('race', c, o, 'judge ' + v))
    res.spec_failures.extend(hard if hard else soft)

_s = Stream('hist', 'h_reload', gen=gen, per_process=True, nontrivial=nontrivial, spec_mode='spec')
_s.spec_match = _match
_s.model_case = model_case

def _model_match(case, model, impl):
    """absent global layers are an accept-all layer without hint to the model: exact for every delivery, but the real
    pick_level_hint may publish a HIGHER max level around an absent layer (it discards an OFF hint it takes for the absent
    layer's placeholder); a max level above the model's hides nothing, so for stacks with absent layers `cur` may exceed the model's"""
    if model == impl: return True
    st = case.split(' ;; ')[0].split()
    if not any(t in ('GN',) or re.match(r'RG\d+:N$', t) for t in st) and ' N' not in case.split(' ;; ')[1] if ' ;; ' in case else True:
        return False
    a = model.split(); b = impl.split()
    if len(a) != len(b): return False
    for x, y in zip(a, b):
        if x == y: continue
        if x.startswith('c:') and y.startswith('c:') and x[2:].isdigit() and y[2:].isdigit() and int(y[2:]) >= int(x[2:]): continue
        return False
    return True
_s.model_match = _model_match

# --- the env-filter extended in place behind a reload handle (Handle::modify + add_directive) -------------------------------
from checks import C11 as _c11
def gen_envmodify_case(rng, idx):
    """an `A` case of C11's span-scoped stream in which directives are ADDED to the running filter between the operations; half of
    the additions are written to concern a span callsite that was already hit, with a field value / level of their own"""
    while True:
        base = _c11.gen_dyn_case(rng)
        if base.startswith('A '): break
    head, ops = base.split(' ;; ')
    ops = [o for o in ops.split(' ; ') if o.strip()]
    out = []
    seen_spans = []
    for op in ops:
        w = op.split()
        if w[0] == 'sp': seen_spans.append(w)
        out.append(op)
        if rng.random() < 0.22:
            if seen_spans and rng.random() < 0.6:
                w = rng.choice(seen_spans)       # sp k name target level fields vals
                names = [] if w[5] == '-' else w[5].split('+')
                f = '-'
                if names and rng.random() < 0.7:
                    n = rng.choice(names); f = '%s=%s' % (n, rng.choice(['7', '8', 'true'] if n == 'id' else ['true', 'false']))
                    if n == 'id' and f.endswith('true'): f = 'id=7'
                d = (rng.choice(['-', w[3]]), w[2], f, rng.randrange(2, 6))
            else:
                d = _c11.gen_dyn_directives(rng)[0]
            out.append('ad D %s %s %s %d' % d)
            # … and, most of the time, a span of the concerned callsite created right afterwards with an event inside it
            if seen_spans and rng.random() < 0.7:
                w = rng.choice(seen_spans)
                k = 100 + len(out)
                names = [] if w[5] == '-' else w[5].split('+')
                vals = '+'.join('%s=%s' % (n, rng.choice(['7', '8']) if n == 'id' else rng.choice(['true', 'false'])) for n in names) or '-'
                out.append('sp %d %s %s %s %s %s' % (k, w[2], w[3], w[4], w[5], vals))
                out.append('en %d' % k)
                out.append('ev event %s %d -' % (w[3], rng.randrange(2, 6)))
                out.append('ex %d' % k)
    return head + ' ;; ' + ' ; '.join(out)

def gen_envmodify(rng, tier):
    n = 1200 if tier == 'quick' else 30000
    i = 0
    while i < n:
        c = gen_envmodify_case(rng, i)
        if ' ad ' in c and _valid_envmodify(c):
            yield c; i += 1

def _valid_envmodify(case):
    return case.startswith('A ') and _c11.valid_dyn(' ; '.join(o for o in case.split(' ;; ')[1].split(' ; ') if not o.startswith('ad ')).join([case.split(' ;; ')[0] + ' ;; ', '']))

def _nontrivial_envmodify(case, out):
    # a directive added while running, and an emission enabled after it and one not
    ops = case.split(' ;; ')[1].split(' ; '); o = out.split(' ')
    if len(ops) != len(o): return False
    first = next((i for i, x in enumerate(ops) if x.startswith('ad ')), None)
    return first is not None and 'e:1' in o[first:] and 'e:0' in o[first:]

_em = Stream('envmodify', 'h_envdyn', mode='modeldyn', gen=gen_envmodify, nontrivial=_nontrivial_envmodify, spec_mode='specdyn')
_em.valid_case = _valid_envmodify
_em.shrink_keep = lambda o: o.startswith('ad ')

PROPERTY = {
    'manifest': {
        'text': "Lean 4 theorems over a model of reloading on top of C07's filtering model: a stack template whose global-filter layers / per-layer filters are reloadable slots, the process-wide interest cache and MAX_LEVEL, "
                "the stack's max_level_hint (pick_level_hint), and Handle::modify INTERPRETED from the step list extracted from reload.rs on every run (upgrade, write-lock, mutate, unlock, rebuild). "
                "reload_establishes: a returned reload leaves every cached interest and MAX_LEVEL recomputed for the new value whatever was cached before; after_return: in every history every emission is received by exactly the layers "
                "the values installed by the returned reloads select (uses C07 isolation, C08 summaries and stack_hint_sound: MAX_LEVEL never hides a wanted emission); racing_old_or_new: for all 8 combinations of stale/fresh reads "
                "(MAX_LEVEL, cached interest, filter value) the outcome is the old or the new verdict; gone_is_error. The model and the cache-free specification are compared with real reload handles over real macro callsites "
                "(one process per history, three threads). The env-filter extended in place behind a handle (modify + add_directive): added_directive_judges_new_spans — whatever the directive list held and however often a span callsite was hit before, after the addition the callsite is enabled and every span created from it carries the added directive's matcher; add_directive_keeps_inv / after_add_directive — the state the running filter has built up (matchers of live spans, levels raised on the thread) stays consistent with the extended tables, so every emission started after the change gets the specification's verdict computed from the EXTENDED tables (C11.dyn_passes_spec on the new tables and the old state); stream envmodify compares the real filter (global layer / per-layer filter behind reload::Subscriber) with the model under added directives.",
        'note': "Trusted: Lean kernel; propext/Classical.choice/Quot.sound; one reload changes one slot under its write lock and each filter callback read-locks once (the read granularity assumed by racing_old_or_new; real "
                "preemption inside an emission is exercised only by the stress run, not enumerated); values are honest in C08's sense; None layers at layer level and `with()` chains are not in this model (and_then trees are). "
                "Repaired on the way: F26 (and_then trees reported only the outermost subscriber's max level hint).",
        'technique': 'Lean 4 proof (invariant over histories, interpretation of the extracted modify() step order) + differential run against real reload handles and macro callsites',
    },
    'lean_module': 'TracingModel.Props.C12',
    'namespace': 'C12',
    'units': ['ReloadOrder', 'RegistryLocks'],
    'required_theorems': ['C12.modify_order', 'C12.reload_establishes', 'C12.after_return', 'C12.emit_spec', 'C12.stack_hint_sound', 'C12.racing_old_or_new', 'C12.gone_is_error', 'C12.reload_racing_registration', 'C12.lock_discipline', 'C12.added_is_in_table', 'C12.added_directive_judges_new_spans', 'C12.add_directive_keeps_inv', 'C12.after_add_directive'],
    'streams': [_s, _em],
    'extra_bins': ['h_race'],
    'rule': 'one case = one history in a fresh process: a stack of 1-4 layers (plain / global filter / per-layer filtered) with 1-4 reloadable slots (reload::Subscriber as a global filter layer or as a per-layer filter), '
            '12-40 ops: emissions from 4-12 of the 30 real macro callsites on 3 threads in 2 contexts, reloads to level / Targets / EnvFilter / FilterFn / DynFilterFn / None / and-or-not values, LevelFilter::current(), '
            'dropping the collector and reloading afterwards; the pool metadata table is compared first. race phase: a reload-style mutate-then-rebuild racing with first-hit registrations of shared callsites on 2-3 real threads under generated schedules (yield hooks), judged by the transition system of C04 and the quiescent oracle. non-trivial = some (callsite, context) is judged differently after a reload',
    'trusted_base': ['hand-written model Core/Reload.lean over Core/Filtering.lean', 'translator unit ReloadOrder (step order of Handle::modify)', 'executor h_reload (real Registry, reload handles, macro callsites, 3 threads)', 'hand-written model Core/EnvDyn.lean (op ad) and executor h_envdyn (reload::Subscriber<EnvFilter>, Handle::modify; the executor asks register_callsite again after a modify, as rebuild_interest_cache does for registered callsites)'],
    'assumptions': ['sequential consistency at op granularity (racing reads are a theorem over the model, see note)'],
}
