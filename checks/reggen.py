"""History generator for the registry properties (C05, C06)."""

import re
def model_case(case):
    """`pg t j` (a guard dropped by unwinding) is `en t j ; ex t j` to the model and the specification"""
    # a captured SpanTrace is a handle on the span that was current: capture = clone, reading it = the scope walk, dropping it = drop
    case = re.sub(r'st (\d+) (\d+) (\d+)', r'cl \3', case)
    case = re.sub(r'sr (\d+) (\d+)', r'sc \2', case)
    case = re.sub(r'sx (\d+) (\d+) (\d+)', r'dr \1 \3', case)
    case = re.sub(r'pgl (\d+) (\d+)', r'ren \1 \2 ; rex \1 \2 ; dr \1 \2', case)
    return re.sub(r'pg (\d+) (\d+)', r'en \1 \2 ; ex \1 \2', case)

def gen_history(rng, nops, nthreads=None, f2=False, reentry=0.05, unwind=True, traces=False, deep=False):
    nthreads = nthreads or rng.choice([1, 1, 2, 3])
    ops = []
    handles = {}          # span -> handles held by the program (not counting guards)
    guards = {}           # (t, j) -> count
    entered = {t: [] for t in range(nthreads)}
    nspans = 0
    dflt = {t: 'own' for t in range(nthreads)}
    held_traces = {}; ntr = [0]
    while len(ops) < nops:
        r = rng.random()
        t = rng.randrange(nthreads)
        # (handles in the program's pool: a captured SpanTrace holds one of its own, which nothing else can use)
        live = [j for j, h in handles.items() if h - sum(1 for v in held_traces.values() if v == j) > 0]
        if deep and nspans < 30 and entered[t] and dflt[t] == 'own' and rng.random() < 0.5:
            # a deep chain: a contextual child of the current span, entered at once (ancestor chains longer than 16)
            ops.append('ns %d %d c' % (t, nspans)); handles[nspans] = 1
            ops.append('en %d %d' % (t, nspans)); entered[t].append(nspans); guards[(t, nspans)] = guards.get((t, nspans), 0) + 1
            nspans += 1
        elif r < 0.22 and nspans < (30 if deep else 14):
            if dflt[t] != 'own':
                continue
            k = rng.random()
            if k < 0.55: kind = 'c'
            elif k < 0.7 or not live: kind = 'r'
            else: kind = 'e%d' % rng.choice(live)
            ops.append('ns %d %d %s' % (t, nspans, kind)); handles[nspans] = 1; nspans += 1
        elif r < 0.28 and live:
            j = rng.choice(live); ops.append('cl %d' % j); handles[j] += 1
        elif r < 0.42 and live:
            j = rng.choice(live)
            if unwind and rng.random() < 0.15 and dflt[t] == 'own' and j not in entered[t]:
                # the handle is moved into an entered guard that a caught panic drops: possibly the span's LAST reference
                ops.append('pgl %d %d' % (t, j))
            else:
                ops.append('dr %d %d' % (t, j))
            handles[j] -= 1
        elif r < 0.62 and live:
            j = rng.choice(live)
            if j in entered[t] and rng.random() > reentry:
                continue
            if unwind and rng.random() < 0.2 and dflt[t] == 'own':
                # a real `Entered` guard dropped by a caught panic: enter and exit in one executor operation
                ops.append('pg %d %d' % (t, j)); continue
            ops.append('en %d %d' % (t, j)); entered[t].append(j); guards[(t, j)] = guards.get((t, j), 0) + 1
        elif r < 0.78 and entered[t]:
            # biased to out-of-order exits deep in the stack
            if len(entered[t]) >= 3 and rng.random() < 0.5:
                j = entered[t][rng.randrange(0, len(entered[t]) - 1)]
            else:
                j = rng.choice(entered[t][-2:])
            ops.append('ex %d %d' % (t, j))
            # remove the most recent entry of j
            idx = len(entered[t]) - 1 - entered[t][::-1].index(j)
            del entered[t][idx]; guards[(t, j)] -= 1
        elif r < 0.88:
            if dflt[t] == 'own' or f2:
                ops.append('ev %d' % t)
        elif traces and r < 0.905 and entered[t] and dflt[t] == 'own' and len(held_traces) < 4:
            # tracing-error: a SpanTrace captured inside the current span (it keeps that span — and so its ancestors — alive)
            j = entered[t][-1]; ntr[0] += 1; held_traces[ntr[0]] = j; handles[j] += 1
            ops.append('st %d %d %d' % (t, ntr[0], j))
        elif traces and r < 0.915 and held_traces:
            k = rng.choice(sorted(held_traces)); ops.append('sr %d %d' % (k, held_traces[k]))
        elif traces and r < 0.92 and held_traces:
            k = rng.choice(sorted(held_traces)); j = held_traces.pop(k); handles[j] -= 1; ops.append('sx %d %d %d' % (t, k, j))
        elif r < 0.92:
            ops.append('cu %d' % t)
        elif r < 0.96 and nspans:
            ops.append('sc %d' % rng.randrange(nspans))
        elif r < 0.98 and nspans:
            ops.append('lk %d' % rng.randrange(nspans))
        elif f2 and r < 1.0:
            dflt[t] = 'none' if dflt[t] == 'own' else 'own'
            ops.append('df %d %s' % (t, dflt[t]))
    # wind down: exit and drop everything so that every span should close
    for tt in range(nthreads):
        while entered[tt]:
            j = entered[tt][rng.randrange(len(entered[tt]))]
            idx = len(entered[tt]) - 1 - entered[tt][::-1].index(j)
            del entered[tt][idx]
            ops.append('ex %d %d' % (tt, j))
    for k in sorted(held_traces):
        j = held_traces[k]; handles[j] -= 1
        ops.append('sr %d %d' % (k, j)); ops.append('sx %d %d %d' % (rng.randrange(nthreads), k, j))
    order = [j for j, h in handles.items() for _ in range(h)]
    rng.shuffle(order)
    for j in order:
        ops.append('dr %d %d' % (rng.randrange(nthreads), j))
    for j in range(nspans):
        if rng.random() < 0.3: ops.append('lk %d' % j)
    return ' ; '.join(ops)

def valid_traces(case):
    """a history with SpanTrace ops means what the model is told only if every capture happens inside the span it names (the
    current span of that thread) and every read / drop refers to a captured, not yet dropped trace — the shrinker must not leave that"""
    entered = {}; traces = {}
    for op in case.split(' ; '):
        w = op.split()
        if not w: continue
        if w[0] in ('en', 'ren'): entered.setdefault(w[1], []).append(w[2])
        elif w[0] in ('ex', 'rex'):
            st = entered.get(w[1], [])
            if w[2] in st:
                i = len(st) - 1 - st[::-1].index(w[2]); del st[i]
        elif w[0] == 'st':
            st = entered.get(w[1], [])
            if not st or st[-1] != w[3] or w[2] in traces: return False
            traces[w[2]] = w[3]
        elif w[0] == 'sr':
            if traces.get(w[1]) != w[2]: return False
        elif w[0] == 'sx':
            if traces.get(w[2]) != w[3]: return False
            del traces[w[2]]
    return True

def stats(case, out):
    return {'closes': out.count('x'), 'spans': case.count('ns '), 'threads': len(set(o.split()[1] for o in case.split(' ; ') if o.split()[0] in ('ns', 'en', 'ex', 'dr', 'ev', 'cu'))),
            'ooo': case.count('ex '), 'cascade': out.count(',x'), 'events': case.count('ev ')}
