"""C04 — racing callsite registration and collector turnover converge; none is stranded."""
import itertools
from checklib import main as M
from checklib.main import Stream
from checks import coregen
from checks.C01 import nontrivial as c01_nontrivial, _match as c01_match

LEVEL_OF = lambda cs: cs // 6 + 1

def gen_seq(rng, tier):
    n = 60 if tier == 'quick' else 1000
    for k in range(n):
        yield coregen.gen_history(rng, rng.choice([40, 80, 160]), style='cache')

def spec_for(rng, css, kind=None):
    s = ['n'] * 30
    want = 0
    for cs in css:
        ch = rng.choice('aantf') if kind is None else kind
        s[cs] = ch
        if ch in 'at': want = max(want, LEVEL_OF(cs))
    hint = rng.choice(['-', '-', str(max(want, 1)), '5'])
    return ''.join(s) + 'h' + hint

def gen_scenario(rng, force_mut=False):
    css = rng.sample(range(30), rng.choice([1, 2, 2, 3]))
    pre = ['new 20 %s' % ('n' * 30 + 'h-')]          # keeps MAX_LEVEL at TRACE; wants nothing
    pre_ids = []
    for c in (21, 22):
        if rng.random() < 0.6 or (force_mut and c == 21):
            pre.append('new %d %s' % (c, spec_for(rng, css))); pre_ids.append(c)
    nthreads = rng.choice([2, 2, 3])
    next_id = [1]
    droppable = [c for c in pre_ids]
    defaults = []
    threads = []
    for t in range(nthreads):
        ops = []
        head = ''
        if pre_ids and rng.random() < 0.5:
            d = rng.choice(pre_ids); head = '@%d ' % d; defaults.append(d)
        for k in range(rng.choice([1, 2, 2, 3])):
            r = rng.random()
            if force_mut and t == 0 and k == 0 and pre_ids: r = 0.9
            if r < 0.5: ops.append('hit %d' % rng.choice(css))
            elif r < 0.8: ops.append('new %d %s' % (next_id[0], spec_for(rng, css))); next_id[0] += 1
            elif r < 0.86: ops.append('rebuild')
            elif r < 0.93 and pre_ids:
                # what reload::Handle::modify does: change the value, then rebuild the interest cache
                ops.append('mut %d %s' % (rng.choice(pre_ids), spec_for(rng, css))); ops.append('rebuild')
            else: ops.append('DROP')
        threads.append((head, ops))
    # resolve drops: only collectors that are nobody's default, each once
    cand = [c for c in droppable if c not in defaults]
    out_threads = []
    for head, ops in threads:
        o2 = []
        for op in ops:
            if op == 'DROP':
                if cand: o2.append('drop %d' % cand.pop())
                else: o2.append('rebuild')
            else: o2.append(op)
        out_threads.append(head + ' , '.join(o2))
    sched = ''.join(str(rng.randrange(nthreads)) for _ in range(rng.choice([8, 16, 30])))
    return 'pre: ' + ' , '.join(pre) + ' | ' + ' | '.join(out_threads) + ' ;; ' + sched

def preemption_schedules(nthreads, seg_counts, max_preempt):
    """every schedule (as a grant string) with at most `max_preempt` context switches away from a thread that could continue"""
    res = []
    def rec(done, cur, pre, acc):
        if all(done[t] >= seg_counts[t] for t in range(nthreads)):
            res.append(''.join(map(str, acc))); return
        for t in range(nthreads):
            if done[t] >= seg_counts[t]: continue
            cost = 1 if (cur is not None and t != cur and done[cur] < seg_counts[cur]) else 0
            if pre + cost > max_preempt: continue
            done[t] += 1
            rec(done, t, pre + cost, acc + [t])
            done[t] -= 1
    rec([0] * nthreads, None, 0, [])
    return res

def gen_turnover(rng):
    """collector turnover: collectors that emit an event while they are dropped (a collector logging its own shutdown), each
    the scoped default of one thread that also gives up the last other handle to it — so the collector is dropped BY the scope
    guard — while other threads are inside scopes of their own and hit callsites"""
    cs = rng.randrange(30)
    A = ''.join(rng.choice('at') if i == cs else 'n' for i in range(30))
    nthreads = rng.choice([2, 2, 3])
    pre = ['dropemit %d' % cs] + ['new %d %sh-' % (20 + t, A) for t in range(nthreads)]
    threads = []
    for t in range(nthreads):
        ops = ['hit %d' % cs for _ in range(rng.choice([0, 1, 2]))]
        if rng.random() < 0.7: ops.insert(rng.randrange(len(ops) + 1), 'drop %d' % (20 + t))
        if not ops: ops = ['hit %d' % cs]
        threads.append('@%d ' % (20 + t) + ' , '.join(ops))
    sched = ''.join(str(rng.randrange(nthreads)) for _ in range(rng.choice([8, 16, 30, 40])))
    return 'pre: ' + ' , '.join(pre) + ' | ' + ' | '.join(threads) + ' ;; ' + sched

def race_cases(rng, tier):
    n = 120 if tier == 'quick' else 1500
    cases = [gen_scenario(rng) for _ in range(n)] + [gen_turnover(rng) for _ in range(n // 4)]
    # systematic turnover: thread 0 gives up the last handle to its default and leaves its scope while thread 1 is inside its own
    A0 = 'a' + 'n' * 29
    baseT = 'pre: dropemit 0 , new 20 %sh- , new 21 %sh- | @20 hit 0 , drop 20 | @21 hit 0 , hit 0' % (A0, A0)
    cases += [baseT + ' ;; ' + s for s in preemption_schedules(2, [12, 10], 1 if tier == 'quick' else 2)]
    # systematic: the two-thread core scenario (first hit vs a new collector that wants the callsite) under every
    # schedule with at most 2 preemptions
    N = 'n' * 30
    for cs in (0, 13):
        A = ''.join('a' if i == cs else 'n' for i in range(30))
        base = 'pre: new 20 %sh- | @20 hit %d | new 1 %sh%d' % (N, cs, A, LEVEL_OF(cs))
        for s in preemption_schedules(2, [8, 4], 2 if tier == 'quick' else 3):
            cases.append(base + ' ;; ' + s)
        base3 = 'pre: new 20 %sh- | hit %d | new 1 %sh- | hit %d , rebuild' % (N, cs, A, cs)
        if tier != 'quick':
            for s in preemption_schedules(3, [8, 4, 6], 2):
                cases.append(base3 + ' ;; ' + s)
    # two threads hit two DIFFERENT callsites for the first time (both inside `register` under the shared read lock, both pushing
    # onto the lock-free callsite list: yield point between loading the head and the compare-exchange), then a collector that
    # wants both is created: every schedule of the two pushes with at most 2 preemptions
    both = ''.join('a' if i in (0, 13) else 'n' for i in range(30))
    base2 = 'pre: new 20 %sh- | hit 0 | hit 13 | new 1 %sh-' % (N, both)
    for s in preemption_schedules(2, [8, 8], 2 if tier == 'quick' else 3):
        cases.append(base2 + ' ;; ' + s + '2222')
    return cases

def global_cases(rng, tier, stress):
    """racing set_global_default calls (yield points before the election, after winning it, after the write, after publishing),
    with first hits of a callsite on another thread; every schedule with <=2 preemptions of the two-caller core; and — only when a
    proof obligation is broken — free-running stress rounds, since an election that is no longer one atomic operation has its
    window between two instructions, where no yield point can be"""
    N = 'n' * 30; A = 'a' + 'n' * 29
    cases = []
    base = 'pre: new 21 %sh- , new 22 %sh- | sgd 21 | sgd 22' % (A, A)
    for sch in preemption_schedules(2, [5, 5], 2 if tier == 'quick' else 3):
        cases.append(base + ' ;; ' + sch)
    for _ in range(10 if tier == 'quick' else 100):
        nth = rng.choice([2, 3, 3])
        ths = []
        for t in range(nth):
            ops = []
            if rng.random() < 0.3: ops.append('hit 0')
            ops.append('sgd %d' % (21 + t % 2) if (t < 2 or rng.random() < 0.5) else 'hit 0')
            if rng.random() < 0.4: ops.append('hit 0')
            ths.append(' , '.join(ops))
        cases.append('pre: new 21 %sh- , new 22 %sh- | ' % (A, rng.choice([A, N])) + ' | '.join(ths) + ' ;; ' + ''.join(str(rng.randrange(nth)) for _ in range(rng.choice([6, 12, 20]))))
    if stress:
        four = 'pre: new 21 %sh- , new 22 %sh- , new 23 %sh- , new 24 %sh- | sgd 21 | sgd 22 | sgd 23 | sgd 24 ;; F' % (A, A, A, A)
        cases += [four] * 300
    return cases

def extra(tier, seed, rng, res, broken):
    cases = M.corpus_cases('C04', 'race') + race_cases(rng, 'thorough' if broken else tier) + global_cases(rng, 'thorough' if broken else tier, bool(broken))
    outs, err = M.run_per_process([M.bin_path('h_race')], cases, timeout=30)
    if err:
        res.errors.append('race stream: %s' % err); return
    verdicts, err = M.driver('C04', 'judge', [c + ' => ' + o for c, o in zip(cases, outs)])
    if err:
        res.errors.append('race judge: %s' % err); return
    hard = []; soft = []
    for c, o, v in zip(cases, outs, verdicts):
        res.evaluations += 1
        blocked = 'dispatch:enter' in o or 'rebuild:enter' in o
        inter = 'register:computed' in o
        k = 'race threads=%d writer=%s first-hit=%s global-default=%s' % (c.split(' ;; ')[0].count('|'), 'y' if blocked else 'n', 'y' if inter else 'n', 'y' if 'sgd:' in o else 'n')
        res.hist[k] = res.hist.get(k, 0) + 1
        if (blocked and inter) or o.count('sgd:') >= 2:
            res.nontrivial.add('race ' + c)
        if len(res.samples) < 12 and res.evaluations % 97 == 0:
            res.samples.append({'stream': 'race', 'case': c[:300], 'impl': o[:400], 'model': v})
        if v != 'ok':
            (hard if ('stranded' in v or 'DEADLOCK' in v or 'PANIC' in v or 'wrong-delivery' in v or 'lost-delivery' in v or 'global-default' in v or 'set_global_default' in v) else soft).append(('race', c, o, 'judge ' + v))
    # a run on which the property itself fails (stranded collector, deadlock, panic, wrong delivery) is the better replay;
    # runs that merely leave the proved transition system are reported when there is none
    res.spec_failures.extend(hard if hard else soft)

_s = Stream('seq', 'h_core', gen=gen_seq, per_process=True, nontrivial=c01_nontrivial, spec_mode='spec')
_s.spec_match = c01_match

PROPERTY = {
    'manifest': {
        'text': "Lean 4 theorems over a transition system whose steps are the lock acquisitions / atomic sections of callsite.rs (register, register_dispatch, rebuild_interest_cache) and MacroCallsite::register, for ANY number of threads, "
                "callsites and collectors and EVERY interleaving: inv_reachable (the cached interest of every callsite is the fold over a basis containing every live collector, MAX_LEVEL bounds every live hint, no callsite is "
                "pushed twice), never_stranded (never only if every live collector said never, always only if every live collector said always — at all times, hence at quiescence), no_panic, no_stuck, and a kernel-decided "
                "witness that the result depends on the lock scope (mutant_witness). Whether register() holds the read lock across compute AND push, the order inside register_dispatch / rebuild_interest / rebuild_interest_cache "
                "and the compare-exchange protocol are facts EXTRACTED from the source on every run (lock_discipline). Real threads are run under generated and systematically enumerated schedules through cfg-guarded yield "
                "hooks; each run's event log must be a run of the proved transition system and at quiescence every live collector must receive exactly what its filter accepts. Installing the process-wide default: the transition system of "
                "set_global_default's atomic steps (Core/GlobalInit, facts extracted from dispatch.rs): at most one racing call returns Ok and once it has, every later read of the global default yields its collector "
                "(global_install_once, global_install_completed); racing callers on real threads under every schedule with <=2 preemptions, and free-running stress rounds when an obligation is broken.",
        'note': "Trusted: Lean kernel; propext/Classical.choice/Quot.sound; sequential consistency at the granularity of the yield points (weak-memory effects of the Relaxed interest load are not modelled); std RwLock semantics "
                "(readers exclude writers; fairness not needed: no_stuck needs only that writers are finite sections); collectors' register_callsite answers are static per collector (dynamic answers are C01's flips); a collector that "
                "re-enters registration from its own register_callsite is outside the model. The schedule replay detects a blocked thread by a 40 ms timeout.",
        'technique': 'Lean 4 proof (invariant over an interleaving transition system parametrised by extracted lock-scope facts) + schedule-controlled replay of real threads judged against the transition system',
    },
    'lean_module': 'TracingModel.Props.C04G',
    'leanchecker_modules': ['TracingModel.Props.C04', 'TracingModel.Props.C02G'],
    'namespace': 'C04',
    'units': ['RegistryLocks', 'GlobalInit'],
    'required_theorems': ['C04.lock_discipline', 'C04.inv_reachable', 'C04.never_stranded', 'C04.no_panic', 'C04.no_stuck', 'C04.mutant_witness', 'C04.step_inv', 'C04.rebuild_inv',
                          'C04.global_code_facts', 'C04.global_install_completed', 'C04.global_install_once'],
    'streams': [_s],
    'extra_bins': ['h_race'],
    'rule': 'stream seq: C01-style sequential histories (each step function of the registry against the real crates, one process each). race phase: one case = 2-3 real threads (first hits of 1-3 shared callsites, '
            'Dispatch::new with generated static answers, drops, rebuild_interest_cache, reload-style mutate-then-rebuild; some threads with a default collector) under a generated grant schedule, plus every schedule with <=2 preemptions (<=3 in thorough) of '
            'the core two-thread scenario (first hit vs a new collector that wants the callsite); judged: event log is a run of the transition system with the required lock discipline, no deadlock/panic/wrong delivery, '
            'quiescent deliveries = filter verdicts. non-trivial = a writer and a first-hit registration overlapped',
    'trusted_base': ['hand-written transition system Core/RegRace.lean', 'translator unit RegistryLocks', 'hooks in /repo (yield points, cfg tokio_rs_tracing_verif)', 'executor h_race (condvar scheduler, 40 ms blocked-thread detection)'],
    'assumptions': ['sequential consistency at yield-point granularity'],
}
