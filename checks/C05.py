"""C05 — a registry span closes exactly once, after its last reference and last child."""
from checklib.main import Stream
from checks import reggen

def gen(rng, tier):
    n = 400 if tier == 'quick' else 8000
    for _ in range(n):
        yield reggen.gen_history(rng, rng.choice([20, 40, 80]))

def gen_f2(rng, tier):
    n = 60 if tier == 'quick' else 1500
    for _ in range(n):
        yield reggen.gen_history(rng, rng.choice([20, 40]), f2=True)

def gen_handles(rng, tier):
    """ONE span's handles: created on some thread, cloned, dropped on any of up to 4 threads, presence looked up — for the
    interleaved model Core/HandleRace run one call at a time"""
    n = 200 if tier == 'quick' else 4000
    for _ in range(n):
        ops = ['ns %d 0 r' % rng.randrange(4)]; held = 1
        for _ in range(rng.choice([4, 8, 16])):
            r = rng.random()
            if held and r < 0.45: ops.append('cl 0'); held += 1
            elif held and r < 0.85: ops.append('dr %d 0' % rng.randrange(4)); held -= 1
            else: ops.append('lk 0')
        while held: ops.append('dr %d 0' % rng.randrange(4)); held -= 1
        ops.append('lk 0')
        yield ' ; '.join(ops)

def gen_nested_case(rng):
    """n layers, m spans in a forest, handles that LAYERS drop while they handle the close of some span (`layer:of:drops`), and
    the user's drops in any order"""
    n = rng.choice([1, 2, 2, 3, 3])
    m = rng.choice([2, 3, 4, 5, 6])
    parents = ['-' if (k == 0 or rng.random() < 0.4) else str(rng.randrange(k)) for k in range(m)]
    wills = []
    for _ in range(rng.choice([0, 1, 1, 2, 3])):
        wills.append('%d:%d:%d' % (rng.randint(1, n), rng.randrange(m), rng.randrange(m)))
    order = list(range(m)); rng.shuffle(order)
    order = order[:rng.randint(1, m)]
    return '%d %d %s ;; %s ;; %s' % (n, m, ' '.join(parents), ' '.join(wills), ' ; '.join('dr %d' % k for k in order))

def gen_nested(rng, tier):
    n = 1500 if tier == 'quick' else 40000
    for _ in range(n):
        yield gen_nested_case(rng)

def _nt_nested(case, out):
    # some layer's drop inside on_close closed another span: `x<layer>.<of>` directly followed by `x1.<drops>`
    parts = case.split(' ;; ')
    if len(parts) != 3: return False
    for w in parts[1].split():
        l, of, dr = w.split(':')
        if of != dr and ('x%s.%sr,x1.%sr' % (l, of, dr)) in out: return True
    return False

def nontrivial(case, out):
    s = reggen.stats(case, out)
    return s['spans'] >= 3 and s['closes'] >= 2 and (s['cascade'] >= 1 or s['threads'] >= 2)

def attribute(stream, case, impl, model, why):
    # F2: exit / slot clear performed while the thread's default is not the registry's own collector
    if stream == 'f2' and 'df ' in case and ' none' in case:
        return 'F2'
    return None

def extra(tier, seed, rng, res, broken):
    """the last references of a span released on several threads at the same moment: reported closed exactly once"""
    from checks import stressgen
    stressgen.stress_phase('closeonce', tier, res, broken, seed)
    # … and references taken concurrently on one span: none may be lost (the span would close under a live handle)
    stressgen.stress_phase('cloneshared', tier, res, broken, seed)

def classify(stream, case, out):
    s = reggen.stats(case, out)
    return '%s threads=%d cascade=%s' % (stream, s['threads'], 'y' if s['cascade'] else 'n')

PROPERTY = {
    'manifest': {
        'text': 'Lean 4 theorem C05.close_once over every finite history (any threads, any defaults): no span is ever reported closed twice, a reported span\'s slot is cleared '
                '(refs 0, no parent), by an invariant carried through the try_close cascade; children-before-parents and the F2 negation are kernel-decided witnesses. '
                'C05.refcount_sum: in every history a program can perform (clone / drop / enter through a handle it holds, explicit parents that are live, any finite set of threads, own default), at every point the stored '
                'reference count of every span still in the registry = handles held + threads entered on + children still open, by an accounting invariant that allows one span to hold one reference too many while try_close '
                'cascades up the parent chain (which ends: a parent is always an older span); hence closed_means_nothing_left (never earlier) and nothing_left_means_gone (not later). '
                'Interleaved releases: a transition system over the atomic operations on one span\'s count, parametrised by whether try_close decides on the value its own fetch_sub returned (close_decision_code_fact, extracted from sharded.rs): '
                'n threads releasing the n references under EVERY schedule, at most one concludes that it was the last and exactly one once the count is 0 (one_closer_interleaved); with a separate load two do (two_closers_witness); real threads dropping handles together (h_stress) must see each span closed once. Threads as PROGRAMS (Core/HandleRace: clone / drop / a handle moved to another thread, legal only through handles held; any interleaving): the span is reported closed at most once and HAS been reported exactly when no thread holds a handle (closed_exactly_when_last_handle_goes); with a non-atomic clone it is closed under a held handle, with a separately loaded decision closed twice (witnesses); the same model run one call at a time is compared with the real Registry (stream seqhandle). '
                'The deferred slot removal (Core/CloseGuard: n nested Layered frames, the thread\'s CLOSE_COUNT and the span it counts for, guards, the slot\'s Clear releasing the parent; the rule is the one the translator finds in sharded.rs / layered.rs, close_guard_facts): for EVERY n >= 1, every forest, every set of handles that layers drop INSIDE on_close (nested to any depth) and every order of drops, when a release returns the count is what it was and every span closed on the way has had its slot removed (release_good, closed_spans_are_gone); a span without such a layer-side drop is told to each layer once, innermost first, readable each time, then removed and its parent released (closed_span_is_removed_at_any_depth). Before the repair of F15 (one count per thread) a close started inside another span\'s on_close never removed the slot, for every n and depth (nested_close_never_cleared, f15_witness: the parent never closes; f15_repaired). Stream nested compares the real Registry under 1-3 layers that drop handles inside on_close with this model. '
                'The real Registry (two recording layers: close notifications, data readable inside on_close, presence afterwards) is compared with the compiled model AND with the count-free specification Spec/RegistrySpec.lean.',
        'note': 'Trusted: Lean kernel; propext/Classical.choice/Quot.sound; sharded_slab (fresh key per checkout, clear runs Clear; ids mapped to creation indices); sequential at op granularity '
                '(the history model; the fetch_sub race has its own interleaved model, one span at a time); known finding F2 (exit/clear close through the CURRENT default; under no/foreign default parents leak or the wrong registry is hit) is the excluded region.',
        'technique': 'Lean 4 proof (invariant over histories) of a hand-written model + differential run against the real Registry',
    },
    'lean_module': 'TracingModel.Props.C05A',
    'leanchecker_modules': ['TracingModel.Props.C05', 'TracingModel.Props.C05R'],
    'extra_bins': ['h_stress'],
    'namespace': 'C05',
    'units': ['AtomicCounts', 'CloseGuardFacts'],
    'required_theorems': ['C05.close_once', 'C05.step_inv', 'C05.tryClose_inv', 'C05.f2_witness',
                          'C05.refcount_sum', 'C05.closed_means_nothing_left', 'C05.nothing_left_means_gone', 'C05.tryClose_acc', 'C05.step_acc',
                          'C05.close_decision_code_fact', 'C05.one_closer_interleaved', 'C05.two_closers_witness',
                          'C05.closed_exactly_when_last_handle_goes', 'C05.closed_under_a_handle_witness', 'C05.closed_twice_witness',
                          'C05.close_guard_facts', 'C05.closed_span_is_removed_at_any_depth', 'C05.release_good', 'C05.closed_spans_are_gone', 'C05.nested_close_never_cleared', 'C05.old_rule_top_level', 'C05.f15_witness', 'C05.f15_repaired'],
    'streams': [
        Stream('own', 'h_registry', gen=gen, nontrivial=nontrivial, spec_mode='spec'),
        Stream('f2', 'h_registry', gen=gen_f2, nontrivial=nontrivial, spec_mode='spec'),
        Stream('nested', 'h_nested', mode='modelnested', gen=gen_nested, nontrivial=_nt_nested, spec_mode='specnested'),
        Stream('seqhandle', 'h_registry', mode='modelhandle', gen=gen_handles, nontrivial=lambda case, out: case.count('cl 0') >= 2 and 'x0r' in out),
    ],
    'rule': 'one case = one history over a forest of <=14 spans on 1-3 threads: create (contextual/root/explicit parent), clone, drop, guard-style enter/exit incl. out-of-order exits deep in the stack and '
            'occasional same-thread re-entry, events, Span::current, scope walks, presence lookups; every history ends by exiting and dropping everything; stream f2 additionally switches a thread\'s default to none; '
            'non-trivial = >=3 spans, >=2 closes and a cascade or >=2 threads',
    'trusted_base': ['hand-written model Core/Registry.lean', 'executor h_registry (real Registry + 2 recording layers, real threads)'],
    'assumptions': ['exit is never the operation that releases the last reference (true of every program written against the Span API: a guard owns or borrows a handle)'],
}

# span indices are creation indices: a shrunk history must keep every `ns` op
for _s in PROPERTY['streams']:
    _s.shrink_keep = lambda op: op.startswith('ns ')
    _s.model_case = reggen.model_case
