"""C13 — fmt writes one complete record per event, to exactly the selected writers."""
import json, re
from checklib.main import Stream

def hx(s): return s.encode().hex()
LEVELS = {1: 'ERROR', 2: 'WARN', 3: 'INFO', 4: 'DEBUG', 5: 'TRACE'}
TARGETS = ['app', 'application', 'app::db', 'app::db::pool', 'other', '', 'ap']
NAMES = ['a', 'b', 'c', 'login', 'logged', 'message', 'thread', 'seq', 'pad', 'boom']
WORDS = ['hello', 'x y', 'v-1.2', 'ok_then', 'Zed', '42abc']

def gen_w(rng, depth, next_sink):
    r = rng.random()
    if depth == 0 or r < 0.25:
        k = next_sink[0]; next_sink[0] += 1
        return ['S%d' % k]
    if r < 0.40: return ['M%d' % rng.randrange(1, 6)] + gen_w(rng, depth - 1, next_sink)
    if r < 0.52: return ['m%d' % rng.randrange(1, 6)] + gen_w(rng, depth - 1, next_sink)
    if r < 0.64: return [rng.choice(['Fl%d' % rng.randrange(1, 6), 'Ft%d' % rng.randrange(0, 3), 'Fn%d' % rng.randrange(0, 3)])] + gen_w(rng, depth - 1, next_sink)
    if r < 0.80: return ['T'] + gen_w(rng, depth - 1, next_sink) + gen_w(rng, depth - 1, next_sink)
    if r < 0.95:
        g = rng.choice(['M%d' % rng.randrange(1, 6), 'm%d' % rng.randrange(1, 6), 'Fl%d' % rng.randrange(1, 6), 'Ft%d' % rng.randrange(0, 3)])
        return ['O', g] + gen_w(rng, depth - 1, next_sink) + gen_w(rng, depth - 1, next_sink)
    return ['B'] + gen_w(rng, depth - 1, next_sink)

def gen_fields(rng, allow_message=True):
    n = rng.choice([0, 1, 1, 2, 3])
    # (names that merely BEGIN with `log`: only the `log.` fields of bridged log records are metadata, not these)
    names = rng.sample(['a', 'b', 'c', 'login', 'logged'] + (['message'] if allow_message else []), n)
    out = []
    for nm in names:
        r = rng.random()
        if nm == 'message' or r < 0.3: v = 's' + hx(rng.choice(WORDS))
        elif r < 0.6: v = 'i%d' % rng.randrange(-50, 1000)
        elif r < 0.8: v = 'b%d' % rng.randrange(2)
        else: v = 'd' + hx(rng.choice(WORDS))
        out.append('%s=%s' % (hx(nm), v))
    return ','.join(out) if out else '-'

def gen_case(rng, fmt=None):
    fmt = fmt or rng.choice(['full', 'full', 'compact', 'pretty', 'json'])
    cfg = [fmt, 't%d' % rng.randrange(2), 'l%d' % (1 if rng.random() < 0.8 else 0), 'i%d' % rng.randrange(2), 'n%d' % rng.randrange(2),
           'f%d' % rng.randrange(2), 'L%d' % rng.randrange(2), 's%d' % rng.choice([0, 0, 1, 8, 9, 15, rng.randrange(16)]),
           'O%d' % rng.randrange(2)]        # O1: display options set before the format is selected
    if fmt == 'json': cfg += ['c%d' % rng.randrange(2), 'S%d' % rng.randrange(2), 'F%d' % rng.randrange(2)]
    w = gen_w(rng, rng.choice([0, 1, 2, 3, 3]), [1])
    ops = []; nsp = 0; stack = []; open_spans = []; declared = {}
    for _ in range(rng.choice([5, 10, 18])):
        r = rng.random()
        if r < 0.45: ops.append('ev %d %d %s' % (rng.randrange(1, 6), rng.randrange(0, 3), gen_fields(rng)))
        elif r < 0.6 and len(stack) < 3:
            fs = gen_fields(rng, False)
            declared[nsp] = [] if fs == '-' else [bytes.fromhex(kv.split('=')[0]).decode() for kv in fs.split(',')]
            ops.append('sp %d %d %d %s %s' % (nsp, rng.randrange(1, 6), rng.randrange(0, 3), hx(rng.choice(['outer', 'inner', 'req', 'job']) + str(nsp)), fs))
            ops.append('en %d' % nsp); stack.append(nsp); nsp += 1
        elif r < 0.66 and stack and rng.random() < 0.6:
            # a later record on a span in scope: a field it declared gets a (new) value; records written afterwards show it
            k = rng.choice(stack)
            names = declared.get(k, [])
            if names:
                nm = rng.choice(names)
                v = rng.choice(['i%d' % rng.randrange(1000, 2000), 's' + hx(rng.choice(['later', 'v2'])), 'b%d' % rng.randrange(2)])
                ops.append('rc %d %s=%s' % (k, hx(nm), v))
        elif r < 0.75 and stack:
            k = stack.pop(); ops.append('ex %d' % k); ops.append('cl %d' % k)
        elif r < 0.82: ops.append('pe %d %d' % (rng.randrange(1, 6), rng.randrange(0, 3)))
        elif r < 0.88: ops.append('mt %d %d' % (rng.randrange(1, 9), rng.randrange(1, 5)))
        elif r < 0.93: ops.append('ne %d %d %d %d' % (rng.randrange(1, 6), rng.randrange(0, 3), rng.randrange(1, 6), rng.randrange(0, 3)))
    while stack:
        k = stack.pop(); ops.append('ex %d' % k); ops.append('cl %d' % k)
    ops.append('ev 3 0 %s' % gen_fields(rng))
    return ' '.join(cfg) + ' ;; ' + ' '.join(w) + ' ;; ' + ' ; '.join(ops)

def gen(rng, tier):
    n = 1500 if tier == 'quick' else 30000
    for _ in range(n):
        yield gen_case(rng)

def canon(out):
    return re.sub(r':w[0-9a-f]*', ':w', out)

def field_texts(spec):
    """[(name, rendered value core, kind)]"""
    if spec == '-': return []
    res = []
    for kv in spec.split(','):
        k, v = kv.split('=')
        name = bytes.fromhex(k).decode()
        if v[0] == 'i': res.append((name, v[1:], 'i'))
        elif v[0] == 'b': res.append((name, 'true' if v[1:] == '1' else 'false', 'b'))
        else: res.append((name, bytes.fromhex(v[1:]).decode(), v[0]))
    return res

def judge(case, out):
    """every write call is one complete record that names the level, the spans in scope in order and the event's fields"""
    cfg, _, opsS = case.split(' ;; ')
    cfg = cfg.split(); fmt = cfg[0]
    with_level = 'l1' in cfg
    mask = int([t for t in cfg if t[0] == 's' and t[1:].isdigit()][0][1:])
    ops = opsS.split(' ; '); outs = out.split(' ')
    if len(ops) != len(outs): return 'bad op/out count %d/%d' % (len(ops), len(outs))
    spans = {}; stack = []
    for op, o in zip(ops, outs):
        t = op.split()
        writes = [x.split(':w', 1)[1] for x in o.split(',') if ':w' in x]
        texts = []
        for h in writes:
            try: texts.append(bytes.fromhex(h).decode())
            except Exception: return 'bad non-utf8-write'
        expected_names = []; level = None; fields = []
        if t[0] == 'ev': level = int(t[1]); fields = field_texts(t[3])
        elif t[0] == 'sp': spans[int(t[1])] = (bytes.fromhex(t[4]).decode(), field_texts(t[5]), int(t[2])); level = int(t[2])
        elif t[0] in ('en', 'ex', 'cl') and int(t[1]) in spans: level = spans[int(t[1])][2]
        elif t[0] == 'rc' and int(t[1]) in spans:
            nm, fs, lv = spans[int(t[1])]
            new = field_texts(t[2])
            spans[int(t[1])] = (nm, [f for f in fs if f[0] not in [n[0] for n in new]] + new, lv)
        if t[0] == 'en' and int(t[1]) in spans: stack.append(int(t[1]))
        scope = [spans[k] for k in stack]
        if t[0] == 'sp': scope = scope + [spans[int(t[1])]]
        if t[0] == 'cl' and int(t[1]) in spans: scope = scope + [spans[int(t[1])]]
        for text in texts:
            if not text.endswith('\n'): return 'bad record-not-newline-terminated'
            if fmt != 'pretty' and text.count('\n') != 1: return 'bad record-spans-%d-lines' % text.count('\n')
            if t[0] == 'ne': continue      # two complete records (the nested one first); which sinks: the specification
            if t[0] == 'mt': 
                if fmt != 'pretty' and not ('seq' in text and 'thread' in text): return 'bad interleaved-or-truncated-record'
                continue
            if with_level and level:
                if fmt == 'compact':
                    if not text.startswith({1: 'X', 2: '!', 3: 'i', 4: ':', 5: '.'}[level] + ' '): return 'bad level-missing'
                elif LEVELS[level] not in text: return 'bad level-missing'
            if fmt == 'json':
                try: j = json.loads(text)
                except Exception: return 'bad json-unparsable'
                # the span objects show, for every span in scope, the value recorded LAST for each of its fields
                def shown(obj, fs):
                    for (fn, fv, kind) in fs:
                        if fn not in obj: return 'bad json-span-field-missing:' + fn
                        got = obj[fn]
                        want = int(fv) if kind == 'i' else (fv == 'true') if kind == 'b' else fv
                        if kind == 'd': continue
                        if got != want: return 'bad json-span-field-stale:%s=%r want %r' % (fn, got, want)
                    return None
                if isinstance(j.get('spans'), list) and t[0] == 'ev':
                    if len(j['spans']) != len(scope): return 'bad json-span-list-length'
                    for obj, (nm, fs, _) in zip(j['spans'], scope):
                        if obj.get('name') != nm: return 'bad json-span-list-order'
                        e = shown(obj, fs)
                        if e: return e
                if isinstance(j.get('span'), dict) and t[0] == 'ev' and scope:
                    e = shown(j['span'], scope[-1][1])
                    if e: return e
                continue
            # spans in scope, in nesting order
            pos = -1
            for (nm, fs, _) in scope:
                if fmt != 'compact':      # the compact format prints the spans' fields, not their names
                    p = text.find(nm, pos + 1) if fmt != 'pretty' else text.find(nm)
                    if p < 0: return 'bad span-missing-or-out-of-order:' + nm
                    if fmt != 'pretty': pos = p
                for (fn, fv, _) in fs:
                    if fn not in text or fv not in text: return 'bad span-field-missing:' + fn
            for (fn, fv, kind) in fields:
                if fv not in text: return 'bad field-value-missing:' + fn
                if fn != 'message' and fn not in text: return 'bad field-name-missing:' + fn
            # nothing foreign: every `name=` of the vocabulary belongs to this event or a span in scope
            allowed = set(fn for fn, _, _ in fields) | set(fn for _, fs, _ in scope for fn, _, _ in fs)
            for nm in NAMES:
                if nm not in allowed and re.search(r'(^|[ {:])%s[=:]' % nm, text): return 'bad foreign-field:' + nm
        if t[0] == 'ex' and int(t[1]) in spans and stack and stack[-1] == int(t[1]): stack.pop()
        if t[0] == 'cl': spans.pop(int(t[1]), None)
    return 'ok'

def nontrivial(case, out):
    w = case.split(' ;; ')[1].split()
    return len(w) >= 3 and ':w' in out and any(o == '-' for o, op in zip(out.split(' '), case.split(' ;; ')[2].split(' ; ')) if op.startswith('ev'))

def classify(stream, case, out):
    cfg, w, ops = case.split(' ;; ')
    w = w.split()
    return '%s depth~%d tee=%s orelse=%s spans=%s panic=%s mt=%s' % (cfg.split()[0], min(3, sum(1 for t in w if t[0] in 'MmFTOB')), 'y' if 'T' in w else 'n', 'y' if 'O' in w else 'n',
                                                                   'y' if ' sp ' in ' ' + ops else 'n', 'y' if 'pe ' in ops else 'n', 'y' if 'mt ' in ops else 'n')

_s = Stream('records', 'h_fmt', gen=gen, nontrivial=nontrivial, canon=canon, spec_mode='spec')
_s.py_judge = judge

PROPERTY = {
    'manifest': {
        'text': "Lean 4 theorems over a model of fmt's writer side that INTERPRETS the table extracted from writer.rs / fmt_subscriber.rs on every run (guard and inner method called by every MakeWriter combinator's make_writer / "
                "make_writer_for, Tee / Either write_all forwarding, and how often on_event asks the maker and writes): routes_denote — for every writer expression of any depth and every metadata the writer returned by "
                "make_writer_for reaches exactly the sinks the expression denotes, each asked with make_writer_for(meta) all the way down; one_write_per_record — one maker call with the record's metadata and one write of the "
                "whole buffer per record; no_duplicate_delivery; over histories of every length history_routes (sinks written = concatenation of the denotations, in record order), history_exact_per_sink (writes to a sink = number of records selecting it), history_silent_sink. The model is compared with the real fmt subscriber (full / compact / pretty / json, option combinations, span lifecycle records) over recording sinks, and every "
                "write call is judged to be one complete newline-terminated record naming the level, the spans in scope in order with their fields and the event's fields and nothing foreign — including after a formatter panic "
                "and under 1-8 concurrently emitting threads.",
        'note': "Trusted: Lean kernel; propext/Classical.choice/Quot.sound; the record TEXT is judged on the implementation's output (containment, order, line structure), not modelled; timestamps off, ANSI off; the sink's write() accepts "
                "the whole buffer (one write call per write_all); thread interleaving is exercised by a stress op, the no-interleaving claim rests on one write per record. Repaired: F12 (buffer not cleared after a formatter panic).",
        'technique': 'Lean 4 proof (structural induction on writer expressions over generated call tables) + differential run against the real fmt subscriber with recording sinks + record-text judge',
    },
    'lean_module': 'TracingModel.Props.C13',
    'namespace': 'C13',
    'units': ['WriterRouting'],
    'required_theorems': ['C13.table_facts', 'C13.on_event_facts', 'C13.routes_denote', 'C13.one_write_per_record', 'C13.no_duplicate_delivery',
                          'C13.busy_buffer_fact', 'C13.nested_record_not_lost', 'C13.history_routes', 'C13.history_exact_per_sink', 'C13.history_silent_sink'],
    'streams': [_s],
    'rule': 'one case = a formatter (full/compact/pretty/json) with random options (target, level, thread id/name, file/line, span events mask, json span/list/flatten), a writer expression of depth <=3 over recording sinks '
            '(with_max_level, with_min_level, with_filter, and, or_else, boxed), and 5-18 ops: events at any level/target with 0-3 typed fields, nested spans with fields (new/enter/exit/close records per mask), an event with a value whose Debug impl records another event through the same dispatcher while the outer one is being formatted (ne), an event whose '
            'Debug impl panics (caught), concurrent emission from 1-8 threads; compared = per op the sinks\' call log (make_writer_for arguments, make_writer calls, number of write calls); judged = the text of every write. '
            'non-trivial = a composite expression, something written and some event routed nowhere',
    'trusted_base': ['translator unit WriterRouting', 'hand-written interpreter Core/Writers.lean', 'executor h_fmt (real fmt subscriber, BoxMakeWriter-built expressions, synthetic metadata)', 'python judge of record text'],
    'assumptions': ['field values contain no raw newlines'],
}
