"""C07 — per-layer filters are isolated: a layer sees exactly what its own filters accept."""
from checklib.main import Stream
from checks.C08 import gen_expr, gen_leaf

def gen_stack(rng):
    k = rng.choice([1, 2, 2, 3, 3, 4, 5])
    toks = []; n = 0
    for _ in range(k):
        r = rng.random()
        n += 1
        if r < 0.3:
            toks.append('P%d' % n)
        elif r < 0.5:
            if rng.random() < 0.3:
                toks.append('GK%d' % rng.randrange(0, 5))
            else:
                while True:
                    leaf = gen_leaf(rng)[0]
                    if leaf[0] in 'LTFD': break
                toks.append('G' + leaf)
        else:
            toks.append('F%d' % n); toks += gen_expr(rng, rng.randrange(0, 3)); toks.append('.')
    return toks

def meta_index(ti, rank, ev, fs):
    return ((ti * 5 + (rank - 1)) * 2 + ev) * 4 + fs

def gen_ops(rng, nops, probes, stack=()):
    # a small sub-universe so that the same callsites recur (interest caches, stale state) and the targets that
    # the stack's filters single out are actually hit
    tis = set([0, 4])
    for t in stack:
        if t.startswith('GK'): tis.add(int(t[2:]))
    tis = sorted(tis)
    pool = [meta_index(ti, r, ev, 0) for ti in tis for r in range(1, 6) for ev in (0, 1)]
    metas = rng.sample(pool, min(len(pool), rng.choice([3, 5, 8])))
    if rng.random() < 0.3: metas.append(rng.randrange(280))
    ops = []; nsp = 0; entered = []; closed = set()
    while len(ops) < nops:
        r = rng.random()
        mi = rng.choice(metas); c = rng.randrange(2)
        if r < 0.45: ops.append('ev %d %d' % (mi, c))
        elif r < 0.62: ops.append('sp %d %d %d' % (nsp, mi, c)); nsp += 1
        elif r < 0.72 and nsp: 
            k = rng.randrange(nsp)
            if k not in closed and k not in entered: ops.append('en %d' % k); entered.append(k)
        elif r < 0.82 and entered:
            k = entered.pop(rng.randrange(len(entered))); ops.append('ex %d' % k)
        elif r < 0.87 and nsp:
            k = rng.randrange(nsp)
            if k not in closed: ops.append('rc %d' % k)
        elif r < 0.92 and nsp:
            k = rng.randrange(nsp)
            if k not in closed and k not in entered: ops.append('cl %d' % k); closed.add(k)
        elif probes:
            ops.append('pr %d %d' % (mi, c))
    return ops

def gen_chain_stack(rng):
    k = rng.choice([1, 2, 3, 3, 3])
    toks = []
    for n in range(1, k + 1):
        r = rng.random()
        lv = rng.randrange(1, 6)
        if r < 0.3: toks.append('P%d' % n)
        elif r < 0.45: toks.append('GL%d' % lv)
        elif r < 0.52: toks.append('GD%dh%dc-' % (lv, lv))
        elif r < 0.6: toks.append('GK%d' % rng.randrange(0, 5))
        elif r < 0.7: toks += ['F%d' % n, 'L%d' % lv, '.']
        elif r < 0.85: toks += ['F%d' % n, '|', 'L%d' % rng.randrange(1, 4), 'D%dh-c-' % rng.randrange(3, 6), '.']
        else: toks += ['F%d' % n, 'D%dh-c-' % lv, '.']
    return toks

def gen_chain(rng, tier):
    n = 2500 if tier == 'quick' else 40000
    for _ in range(n):
        st = gen_chain_stack(rng)
        yield ' '.join(st) + ' ;; ' + ' ; '.join(gen_ops(rng, rng.choice([10, 25, 50]), False, st))

def vec_wrap(rng, st):
    """a run of two or more neighbouring layers put into ONE `Vec` subscriber (`[ … ]`): the same layers in the same order"""
    units = []; i = 0
    while i < len(st):
        if st[i][0] == 'F' and st[i][1:].isdigit():
            j = st.index('.', i); units.append(st[i:j + 1]); i = j + 1
        else:
            units.append([st[i]]); i += 1
    if len(units) < 2: return st
    a = rng.randrange(len(units) - 1); b = rng.randrange(a + 2, len(units) + 1)
    out = []
    for k, u in enumerate(units):
        if k == a: out.append('[')
        out += u
        if k == b - 1: out.append(']')
    return out

def strip_vec(case):
    return ' '.join(t for t in case.split(' ') if t not in ('[', ']'))

def gen(rng, tier):
    n = 1000 if tier == 'quick' else 20000
    for _ in range(n):
        st = gen_stack(rng)
        if rng.random() < 0.25: st = vec_wrap(rng, st)
        yield ' '.join(st) + ' ;; ' + ' ; '.join(gen_ops(rng, rng.choice([10, 25, 50]), False, st))

def gen_probe(rng, tier):
    n = 200 if tier == 'quick' else 5000
    for _ in range(n):
        st = gen_stack(rng)
        yield ' '.join(st) + ' ;; ' + ' ; '.join(gen_ops(rng, rng.choice([10, 25, 50]), True, st))

def gen_lookup_ops(rng, nops, stack):
    tis = set([0, 4])
    for t in stack:
        if t.startswith('GK'): tis.add(int(t[2:]))
    tis = sorted(tis)
    pool_s = [meta_index(ti, r, 0, 0) for ti in tis for r in range(1, 6)]
    pool_e = [meta_index(ti, r, 1, 0) for ti in tis for r in range(1, 6)]
    ms = rng.sample(pool_s, min(len(pool_s), rng.choice([3, 5, 8]))); me = rng.sample(pool_e, min(len(pool_e), rng.choice([2, 4, 6])))
    ops = []; nsp = 0; entered = []; closed = set(); kids = {}
    def par():
        live = [k for k in range(nsp) if k not in closed]
        r = rng.random()
        if r < 0.45 or not live: return 'c'
        if r < 0.55: return 'r'
        return str(rng.choice(live))
    while len(ops) < nops:
        r = rng.random(); c = rng.randrange(2)
        if r < 0.30:
            p = par(); ops.append('sp %d %d %d %s' % (nsp, rng.choice(ms), c, p))
            # whoever the parent turns out to be, it must outlive the child: remember every candidate
            # (a contextual parent is the innermost entered span THAT EXISTS: a span the stack's filters rejected was never created,
            #  so any entered span may turn out to be the parent)
            cands = ([int(p)] if p not in 'cr' else []) + (list(entered) if p == 'c' else [])
            for q in cands: kids.setdefault(q, set()).add(nsp)
            nsp += 1
        elif r < 0.55: ops.append('ev %d %d %s' % (rng.choice(me), c, par()))
        elif r < 0.72 and nsp:
            k = rng.randrange(nsp)
            if k not in closed and k not in entered: ops.append('en %d' % k); entered.append(k)
        elif r < 0.84 and entered:
            k = entered.pop(); ops.append('ex %d' % k)          # exits are well nested here: out-of-order exits are C06's subject
        elif r < 0.90 and nsp:
            k = rng.randrange(nsp)
            if k not in closed: ops.append('rc %d' % k)
        elif nsp:
            k = rng.randrange(nsp)
            if k not in closed and k not in entered and all(ch in closed for ch in kids.get(k, ())): ops.append('cl %d' % k); closed.add(k)
    return ops

def gen_lookup(rng, tier):
    n = 1000 if tier == 'quick' else 20000
    for _ in range(n):
        while True:
            st = gen_stack(rng)
            if any(t[0] == 'F' and t[1:].isdigit() for t in st): break
        yield ' '.join(st) + ' ;; ' + ' ; '.join(gen_lookup_ops(rng, rng.choice([10, 25, 50]), st))

def nontrivial_lookup(case, out):
    # some layer was shown a scope that skips a span (a chain of >=2 somewhere, and two layers disagreeing about what they see)
    toks = [t for t in out.split() if '(' in t]
    views = set()
    for t in toks:
        for part in t.split(':', 1)[1].split('/'):
            views.add(part.split('(', 1)[1])
    return any(',' in v for v in views) and any(len(set(p.split('(', 1)[1] for p in t.split(':', 1)[1].split('/'))) >= 2 for t in toks)

def nontrivial(case, out):
    return case.count(' F') + case.startswith('F') >= 1 and ('e:' in out) and any(t in ('e:', 's:-') or t.endswith(':') for t in out.split()) and any(len(t) > 2 for t in out.split())

def classify(stream, case, out):
    stack = case.split(' ;; ')[0].split()
    return '%s layers=%d filtered=%d global=%d' % (stream, sum(1 for t in stack if t[0] in 'PGF' and (t[1:].isdigit() or t[0] == 'G')), sum(1 for t in stack if t[0] == 'F' and t[1:].isdigit()), sum(1 for t in stack if t[0] == 'G'))

def attribute(stream, case, impl, model, why):
    # F3: an enabled!-style probe (the `enabled` pass without the dispatch that consumes the per-layer bits)
    if stream == 'probe' and '; pr ' in (' ; ' + case.split(' ;; ')[1]):
        return 'F3'
    return None

def _span_index_safe(op):
    return op.startswith('sp ')

_a = Stream('hist', 'h_layers', gen=gen, nontrivial=nontrivial, spec_mode='spec')
_a.model_case = strip_vec
_b = Stream('probe', 'h_layers', gen=gen_probe, nontrivial=nontrivial, spec_mode='spec')
_c = Stream('chain', 'h_chain', mode='modelchain', gen=gen_chain, nontrivial=nontrivial, spec_mode='spec')
_l = Stream('lookup', 'h_lookup', mode='modellookup', gen=gen_lookup, nontrivial=nontrivial_lookup, spec_mode='speclookup')
def _valid_lookup(case):
    import importlib
    return importlib.import_module('checks.C06')._valid_evparent(case)
_l.valid_case = _valid_lookup

def _split_ops(case):
    return case

# an env-filter with span-scoped directives as a per-layer filter — alone, and as the operand of an `or` whose other operand lets
# nothing through: its verdict follows the spans the thread is inside NOW (entered and not yet exited), nothing earlier
# (generator, validity and model are C11's; the executor deploys the filter in the three ways)
from checks import C11 as _c11
def _gen_env(rng, tier):
    n = 400 if tier == 'quick' else 10000
    for _ in range(n):
        yield _c11.gen_dyn_case(rng)
_e = Stream('envscope', 'h_envdyn', mode='modeldyn', gen=_gen_env, nontrivial=_c11.nontrivial_dyn, spec_mode='specdyn')
_e.valid_case = _c11.valid_dyn

PROPERTY = {
    'manifest': {
        'text': "Lean 4 theorems over the modelled filtering machinery (FilterState bitmap, Filtered::enabled/did_enable, Layered veto clearing the bitmap, per-span FilterMap, interest caching with pick_interest): "
                "after every complete emission the thread's bitmap is clean (bitmap_clean) and, from a clean bitmap, an event/span is received by exactly the layers whose own filter and every global filter accept it "
                "(isolation_partial), for every stack of plain / global-filter / per-layer-filtered layers and every filter expression; the negation for histories containing a bare enabled probe is a kernel-decided witness (F3). "
                "The model is compared with real stacks built at run time (and_then trees over the Registry, filters from the real FilterExt combinators) driven through the Dispatch API with the macro front end's caching, "
                "and with the bitmap-free specification. Lookups: the FilterMap stored with a span has exactly the bits of the filters that rejected it (span_map_spec), so a span is visible to a layer's lookups iff that "
                "layer's own filter accepted it (visible_iff_accepted); Context::span, lookup_current, span_scope / event_scope, SpanRef::parent and event_span (contextual, explicit, root) return only visible spans and "
                "a scope is exactly the visible part of the ancestor chain (lookups_hide_rejected, scope_complete). Real recording layers perform all of these lookups inside every callback over span trees with explicit, "
                "contextual and root parents, and what they are shown is compared with the model and with a specification that decides visibility from the layer's filter alone.",
        'note': "Trusted: Lean kernel; propext/Classical.choice/Quot.sound; stacks are and_then trees of boxed layers (the .with().with() chain differs only in pick_interest flags); Vec/Option layer wrappers and two stacks on two threads "
                "are not yet in the model; fewer than 64 filters. Known finding F3: an enabled!/log_enabled! probe leaves per-layer bits set for the next always-cached emission.",
        'technique': 'Lean 4 proof (bitmap invariant + case analysis over stack nodes) of a hand-written model + differential run against real layer stacks',
    },
    'lean_module': 'TracingModel.Props.C07',
    'namespace': 'C07',
    'units': [],
    'required_theorems': ['C07.bitmap_clean', 'C07.isolation_partial', 'C07.isolation_spans', 'C07.interest_sound', 'C07.pass_and_deliver', 'C07.probe_witness',
                          'C07.span_map_spec', 'C07.visible_iff_accepted', 'C07.lookups_hide_rejected', 'C07.scope_complete'],
    'streams': [_a, _b, _c, _l, _e],
    'rule': 'one case = a stack of 1-5 layers (plain / global filter leaf / recording layer with a per-layer filter expression of depth <=2 incl. context-dependent closures, and/or/not, Option, reload, Box) and a history of '
            'events, spans, enter/exit/record/close on created spans over 2-8 callsites (so interest caches are hit) in two contexts; stream probe adds enabled!-style probes; non-trivial = a filtered layer present, something delivered and something withheld. Stream lookup: stacks with at least one filtered layer, span trees built with contextual / explicit / root parents, events with all three parent kinds, enter/exit (well nested)/record/close; every receiving layer logs event_span, event_scope, span(id).parent(), span_scope, lookup_current; non-trivial = some scope of length >=2 and two layers shown different things',
    'trusted_base': ['hand-written model Core/Filtering.lean', 'executor h_layers (real Registry + Filtered + FilterExt, synthetic metadata through Dispatch with per-callsite interest caching)', 'hand-written model Core/Lookup.lean', 'executor h_lookup'],
    'assumptions': ['lifecycle ops follow the Span protocol (exit after enter, close once, after the last exit)'],
}
