"""C06 — current span, parent and scope mirror each thread's enter/exit history."""
from checklib.main import Stream
from checks import reggen

def gen(rng, tier):
    n = 400 if tier == 'quick' else 8000
    for _ in range(n):
        yield reggen.gen_history(rng, rng.choice([25, 50, 90]), reentry=0.0, traces=True, deep=rng.random() < 0.15)

def gen_reentry(rng, tier):
    n = 100 if tier == 'quick' else 2000
    for _ in range(n):
        yield reggen.gen_history(rng, rng.choice([25, 50]), reentry=0.5)

def nontrivial(case, out):
    s = reggen.stats(case, out)
    # out-of-order exits with >= 3 spans and something observing the current span / scope
    return s['spans'] >= 3 and s['ooo'] >= 2 and (s['events'] >= 1 or ' cu ' in case or '; sc ' in case)

def classify(stream, case, out):
    s = reggen.stats(case, out)
    return '%s threads=%d' % (stream, s['threads'])

def gen_evparent(rng, tier):
    """what a layer is shown as an event's / a new span's parent and scope (Context::event_span, event_scope, span(id).parent(),
    span_scope, lookup_current) for contextual, explicit and explicit-ROOT parents, with out-of-order exits; plain layers only
    (no filtering involved) — model and specification Core/Lookup"""
    import importlib
    c07 = importlib.import_module('checks.C07')
    n = 600 if tier == 'quick' else 12000
    for _ in range(n):
        ops = c07.gen_lookup_ops(rng, rng.choice([10, 25, 50]), ['P1'])
        # out-of-order exits are part of this property: swap some exits
        ex = [i for i, o in enumerate(ops) if o.startswith('ex ')]
        if len(ex) >= 2 and rng.random() < 0.5:
            i, j = rng.sample(ex, 2); ops[i], ops[j] = ops[j], ops[i]
        yield rng.choice(['P1', 'P1 P2']) + ' ;; ' + ' ; '.join(ops)

def _valid_evparent(case):
    """the history the registry-side model covers: an exit follows its enter; a span is closed only when it is not entered and
    none of its children (by the parent it ACTUALLY got — a contextual parent is whatever is on top of the stack then) is alive"""
    if ' ;; ' not in case: return False
    stack = []; parent = {}; closed = set(); made = set()
    for o in case.split(' ;; ')[1].split(' ; '):
        w = o.split()
        if w[0] == 'sp':
            k = w[1]; p = w[4]
            par = (stack[-1] if stack else None) if p == 'c' else (None if p == 'r' else (p if (p in made and p not in closed) else None))
            parent[k] = par; made.add(k)
        elif w[0] == 'en':
            if w[1] not in made or w[1] in closed or w[1] in stack: return False
            stack.append(w[1])
        elif w[0] == 'ex':
            if w[1] not in stack: return False
            stack.remove(w[1])
        elif w[0] == 'cl':
            k = w[1]
            if k not in made or k in closed or k in stack: return False
            if any(par == k and c not in closed for c, par in parent.items()): return False
            closed.add(k)
        elif w[0] == 'rc':
            if w[1] not in made or w[1] in closed: return False
        elif w[0] == 'ev':
            p = w[3]
            if p not in 'cr' and (p not in made or p in closed): return False
    return True

_ev = Stream('evparent', 'h_lookup', mode='modellookup', gen=lambda rng, tier: (c for c in gen_evparent(rng, tier) if _valid_evparent(c)),
             nontrivial=lambda case, out: ' r' in case and ',' in out, spec_mode='speclookup')
_ev.valid_case = _valid_evparent

def _gen_lookup_filtered(rng, tier):
    """the same lookups asked by layers BEHIND per-layer filters: `lookup_current` / `event_scope` show the most recently entered,
    not yet exited span the layer's own filter lets it see (stacks, histories, validity and nontriviality are C07's)"""
    import importlib
    c07 = importlib.import_module('checks.C07')
    n = 300 if tier == 'quick' else 8000
    k = 0
    for c in c07.gen_lookup(rng, 'thorough'):
        if k >= n: break
        if c07._valid_lookup(c): k += 1; yield c
def _nt_lookup(case, out):
    import importlib
    return importlib.import_module('checks.C07').nontrivial_lookup(case, out)
_lf = Stream('lookupfiltered', 'h_lookup', mode='modellookup', gen=_gen_lookup_filtered, nontrivial=_nt_lookup, spec_mode='speclookup')
_lf.valid_case = lambda case: __import__('importlib').import_module('checks.C07')._valid_lookup(case)

def extra(tier, seed, rng, res, broken):
    """several threads take references on ONE span at the same moment (what entering it, creating children of it and cloning
    it do): with a handle still held the span stays open and readable"""
    from checks import stressgen
    stressgen.stress_phase('cloneshared', tier, res, broken, seed)

PROPERTY = {
    'manifest': {
        'text': "Lean 4 theorems: for EVERY per-thread enter/exit sequence without same-thread re-entry (any exit order) the SpanStack the code keeps equals the "
                "list of entered-not-yet-exited spans and current() is its last element (current_is_last_unexited, by induction over the sequence); enter/exit on one thread "
                "never changes another thread's stack (thread_independent, through the whole try_close cascade); a new span's stored parent is root/explicit/current "
                "(parent_resolution); a scope is the span followed by the scope of its stored parent (scope_is_ancestor_chain). The hand-written model is run against the real "
                "Registry (lookup_current, event_span, event_scope, scope, from_root = reverse, Span::current) on generated multi-thread histories and against the stack-free specification. "
                "Events: an explicit-root event has no span, a contextual one the most recently entered span, an explicit parent exactly that span, and its scope is that span's ancestor chain "
                "(event_parent_resolution, span_parent_resolution, event_scope_is_chain over Core/Lookup); recording layers look these up inside every callback for all three parent kinds (stream evparent). "
                "References taken concurrently on one span (enter on several threads, children, clones): a transition system over the atomic operations on its count, parametrised by whether clone_span is ONE fetch_add "
                "(clone_code_fact, extracted from sharded.rs), any threads, every schedule: count = references outstanding (no_reference_lost), so a span is not closed under a thread inside it; with load-then-store one is lost "
                "(lost_reference_witness); real threads cloning one span together (h_stress) must leave it open while a handle is held.",
        'note': "Trusted: Lean kernel; propext/Classical.choice/Quot.sound; slab key reuse abstracted (ids = creation indices); 'ancestors stay readable while a descendant is alive' is checked by "
                "the correspondence/spec run (scope walks and presence lookups), its proof needs the reference-count invariant of C05 which is not yet a theorem; SpanTrace capture = a cloned handle.",
        'technique': 'Lean 4 proof (induction over enter/exit sequences) of a hand-written model + differential run against the real Registry',
    },
    'lean_module': 'TracingModel.Props.C06A',
    'leanchecker_modules': ['TracingModel.Props.C06', 'TracingModel.Props.C06E'],
    'extra_bins': ['h_stress'],
    'namespace': 'C06',
    'units': ['AtomicCounts'],
    'required_theorems': ['C06.current_is_last_unexited', 'C06.stack_is_spec', 'C06.thread_independent', 'C06.parent_resolution', 'C06.scope_is_ancestor_chain', 'C06.event_parent_resolution', 'C06.span_parent_resolution', 'C06.event_scope_is_chain',
                          'C06.clone_code_fact', 'C06.no_reference_lost', 'C06.lost_reference_witness', 'C06.not_closed_under_a_holder'],
    'streams': [
        Stream('hist', 'h_registry', gen=gen, nontrivial=nontrivial, spec_mode='spec'),
        Stream('reentry', 'h_registry', gen=gen_reentry, nontrivial=nontrivial),
        _ev,
        _lf,
    ],
    'rule': 'one case = one history on 1-3 threads over a forest of <=14 spans with guard-style enter/exit, out-of-order exits biased to entries two or more below the top, contextual/root/explicit children, '
            'events (event_span, lookup_current, event_scope and its from_root reverse), Span::current, scope walks; stream reentry adds same-thread re-entry (compared with the model only: the property excludes it '
            'from the current-span clause); non-trivial = >=3 spans, >=2 exits and at least one observation',
    'trusted_base': ['hand-written model Core/Registry.lean', 'executor h_registry'],
    'assumptions': [],
}

# span indices are creation indices: a shrunk history must keep every `ns` op
for _s in PROPERTY['streams']:
    _s.shrink_keep = lambda op: op.startswith('ns ') or op.startswith('st ')      # (and traces are referred to by number)
    if _s.bin == 'h_registry': _s.model_case = reggen.model_case; _s.valid_case = reggen.valid_traces
