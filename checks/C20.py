"""C20 — default timestamp = correct UTC calendar time for every instant."""
from checklib.main import Stream

DAY = 86400
def enc(t, nanos):
    """instant t + nanos/1e9 (t any int, 0 <= nanos < 1e9) -> case line `before secs nanos`"""
    if t >= 0:
        return '0 %d %d' % (t, nanos)
    d = -(t * 10**9 + nanos)
    return '1 %d %d' % (d // 10**9, d % 10**9)

def days_from_civil(y, m, d):
    y -= m <= 2
    era = (y if y >= 0 else y - 399) // 400
    yoe = y - era * 400
    doy = (153 * (m + (-3 if m > 2 else 9)) + 2) // 5 + d - 1
    doe = yoe * 365 + yoe // 4 - yoe // 100 + doy
    return era * 146097 + doe - 719468

def gen_sweep(rng, tier):
    """complete sweep: every day 0001-01-01 .. 9999-12-31 at k times of day"""
    lo = days_from_civil(1, 1, 1); hi = days_from_civil(9999, 12, 31)
    k = 1 if tier == 'quick' else 4
    tods = [rng.randrange(DAY) for _ in range(k)]
    if tier != 'quick':
        tods[0] = 0; tods[1] = DAY - 1
    for tod in tods:
        n = rng.choice([0, 1, 999, 1000, 999999999, rng.randrange(10**9)])
        for day in range(lo, hi + 1):
            yield enc(day * DAY + tod, n)

def gen_windows(rng, tier):
    w = 120 if tier == 'quick' else 3700
    pts = []
    for y in [-400, -1, 0, 1, 4, 100, 400, 1582, 1600, 1700, 1800, 1900, 1969, 1970, 1971, 1972, 1999, 2000, 2001, 2004,
              2038, 2100, 2200, 2300, 2400, 9999, 10000, 10001, 99999, 100000]:
        pts.append(days_from_civil(y, 1, 1) * DAY)
        pts.append(days_from_civil(y, 3, 1) * DAY)       # day after Feb 28/29
        pts.append(days_from_civil(y, 2, 28) * DAY)
        pts.append(days_from_civil(y, 12, 31) * DAY)
    pts += [0, 2**31, 2**32, -2**31]
    for p in pts:
        for dt in range(-w, w + 1):
            yield enc(p + dt, rng.choice([0, 0, 1, 500000, 999999, 999999999]))
    # sub-second edge cases before the epoch
    for secs in [0, 1, 2, 59, 60, 86399, 86400, 86401]:
        for n in [0, 1, 999, 1000, 1001, 999999, 1000000, 999999000, 999999999]:
            yield '1 %d %d' % (secs, n)
            yield '0 %d %d' % (secs, n)

def gen_random(rng, tier):
    n = 20000 if tier == 'quick' else 400000
    for _ in range(n):
        mag = rng.choice([10**3, 10**6, 10**9, 10**10, 10**11, 10**12, 10**14, 10**16, 2**62, 2**63 - 1])
        t = rng.randrange(-mag, mag + 1)
        yield enc(t, rng.choice([0, rng.randrange(10**9)]))
    for t in [2**63 - 1, -(2**63), -(2**63) + 1, 2**63 - 86400, 253402300799, 253402300800, -62167219200, -62167219201]:
        for n in [0, 999999999]:
            if t == -(2**63) and n == 0 or t > -(2**63):
                yield enc(t, n)

def gen_layer(rng, tier):
    """the same instants as the clock's reading while a real fmt collector (Full / Compact) writes an event: the timestamp at
    the head of the line"""
    n = 1500 if tier == 'quick' else 40000
    for _ in range(n):
        mag = rng.choice([10**3, 10**9, 10**10, 10**11, 10**12, 10**14, 10**16, 2**62, 2**63 - 1])
        t = rng.randrange(-mag, mag + 1)
        yield enc(t, rng.choice([0, rng.randrange(10**9)])) + ' L'
    for t in [2**63 - 1, -(2**63) + 1, 253402300799, 253402300800, -62167219200, -62167219201, 0, 4107542400]:
        yield enc(t, 0) + ' L'

def nontrivial(case, out):
    return out not in ('unrepresentable',)

def attribute(stream, case, impl, model, spec):
    # F19: the single second whose distance below the epoch does not fit i64
    if case == '1 9223372036854775808 0' and impl == 'PANIC':
        return 'F19'
    return None

_layer = Stream('layer', 'h_time', gen=gen_layer, bulk=True, nontrivial=nontrivial, judge='judge')
_layer.model_case = lambda case: case[:-2] if case.endswith(' L') else case

PROPERTY = {
    'manifest': {
        'text': 'Lean 4 theorem C20.correct: for every integer instant the modelled conversion yields a valid Gregorian date-time '
                'denoting exactly that instant (plus pre-epoch floor, microsecond truncation, format-string shape); the model\'s '
                'constants/operators are regenerated from datetime.rs on every run and the real code is compared with the compiled '
                'model and judged against the independent calendar specification on a complete day sweep 0001-9999 and boundary windows.',
        'note': 'Trusted: Lean kernel; axioms propext/Classical.choice/Quot.sound; the token-skeleton translator; Int model of i32/i64 '
                'arithmetic (overflow-freedom argued, not yet a theorem); the executor and diff. Lexicographic monotonicity of the text is '
                'checked by the judge per case (valid fields + exact instant), not yet a separate theorem.',
        'technique': 'Lean 4 proof (omega + kernel decide over 366-row table) + translator-regenerated constants + differential run against real code',
    },
    'lean_module': 'TracingModel.Props.C20',
    'namespace': 'C20',
    'units': ['DateTimeConsts'],
    'required_theorems': ['C20.correct', 'C20.pre_epoch', 'C20.micros_truncate', 'C20.shape_display',
                          'C20.spec_year_succ', 'C20.spec_epoch', 'C20.render_total_partial', 'C20.f19_witness'],
    'streams': [
        Stream('sweep', 'h_time', gen=gen_sweep, bulk=True, nontrivial=nontrivial, judge='judge',
               describe='every day 0001-01-01..9999-12-31 at k times of day'),
        Stream('windows', 'h_time', gen=gen_windows, bulk=True, nontrivial=nontrivial, judge='judge'),
        Stream('random', 'h_time', gen=gen_random, bulk=True, nontrivial=nontrivial, judge='judge'),
        _layer,
    ],
    'rule': 'cases are instants (before-epoch flag, secs, nanos): complete day sweep of years 0001-9999, every second in '
            'windows around year/leap-day/century/400-year boundaries and the epoch, pre-1970 sub-second edge cases, random '
            'instants over the whole i64 range; a case is non-trivial if the instant is representable as SystemTime; '
            'distinct = distinct case lines',
    'trusted_base': ['translator: token-skeleton match of datetime.rs From<SystemTime>/Display (constants, comparison operators, format strings flow into Gen/DateTimeConsts.lean)',
                     'correspondence: real DateTime::from + Display (hook __verif::format_system_time) vs compiled Lean model, byte-for-byte',
                     'Rust integer casts are modelled on Int; f32/f64 not involved'],
    'assumptions': ['SystemTime is (i64 secs, u32 nanos) as on Linux; leap seconds do not exist in POSIX time',
                    'the formatting layer calls SystemTime::now() (the hook substitutes the instant)'],
}
