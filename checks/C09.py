"""C09 — every layer sees every notification exactly once; wrappers are transparent."""
import re
from checklib.main import Stream
from checks.C07 import gen_stack, gen_ops, meta_index

WRAP = ['b', 'o', 'v', 'r', 'i']

def wrap_tok(rng, tok, p):
    if rng.random() < p:
        k = rng.choice([1, 1, 2, 3])
        return ':'.join(rng.choice(WRAP) for _ in range(k)) + ':' + tok
    return tok

def gen_layers(rng, n0, count, depth, wrap_p, never_ok):
    """tokens of `count` layers numbered from n0; returns (tokens, next number)"""
    toks = []; n = n0
    for _ in range(count):
        r = rng.random()
        if depth > 0 and r < 0.15:
            sub, n = gen_layers(rng, n, rng.choice([1, 2, 2, 3]), depth - 1, wrap_p, never_ok)
            toks += ['('] + sub + [')']
            continue
        lvl = rng.randrange(1, 5)
        if r < 0.60: t = 'P%d' % n
        elif r < 0.75: t = 'M%dl%d' % (n, lvl)
        elif r < 0.90 or not never_ok: t = 'E%dl%d' % (n, lvl)
        else: t = 'N%dl%d' % (n, lvl)
        n += 1
        toks.append(wrap_tok(rng, t, wrap_p))
        if rng.random() < 0.12 * (1 if wrap_p else 0): toks.append(rng.choice(['none', 'empty']))
    return toks, n

def gen_notify_ops(rng, nops):
    metas = [meta_index(rng.choice([0, 4]), r, ev, 0) for r in rng.sample(range(1, 6), rng.choice([2, 3, 5])) for ev in (0, 1)]
    ops = []; nsp = 0; live = []; entered = []
    while len(ops) < nops:
        r = rng.random(); mi = rng.choice(metas)
        if r < 0.35: ops.append('ev %d 0' % mi)
        elif r < 0.55: ops.append('sp %d %d 0' % (nsp, mi)); live.append(nsp); nsp += 1
        elif r < 0.66 and live: k = rng.choice(live); ops.append('en %d' % k); entered.append(k)
        elif r < 0.76 and entered: k = entered.pop(rng.randrange(len(entered))); ops.append('ex %d' % k)
        elif r < 0.83 and live: ops.append('rc %d' % rng.choice(live))
        elif r < 0.90 and len(live) >= 2: a, b = rng.sample(live, 2); ops.append('ff %d %d' % (a, b))
        elif live:
            cand = [k for k in live if k not in entered]
            if cand: k = rng.choice(cand); ops.append('cl %d' % k); live.remove(k)
    return ops

def gen_notify(rng, tier):
    n = 2500 if tier == 'quick' else 60000
    for i in range(n):
        wrap_p = rng.choice([0.0, 0.4, 0.8])
        toks, _ = gen_layers(rng, 1, rng.choice([1, 2, 3, 3, 4, 5]), 2, wrap_p, rng.random() < 0.3)
        if wrap_p and rng.random() < 0.2: toks.insert(rng.randrange(len(toks) + 1) if '(' not in toks else 0, rng.choice(['none', 'empty']))
        # a run of two or more neighbouring top-level layers as ONE `Vec` subscriber (`[ … ]`; erased for the model: the same
        # layers in the same order — including a member's veto, which must stop the rest of the stack like anybody's)
        if '(' not in toks and len(toks) >= 2 and rng.random() < 0.3:
            a = rng.randrange(len(toks) - 1); b = rng.randrange(a + 2, len(toks) + 1)
            toks = toks[:a] + ['['] + toks[a:b] + [']'] + toks[b:]
        if rng.random() < 0.25: toks = [rng.choice(['@box', '@arc'])] + toks
        yield 'N ' + ' '.join(toks) + ' ;; ' + ' ; '.join(gen_notify_ops(rng, rng.choice([6, 15, 30])))

def gen_wrapped(rng, tier):
    """C07-style stacks (plain / global filter / per-layer filtered) with pass-through wrappers, None and empty Vec layers"""
    n = 1200 if tier == 'quick' else 25000
    for _ in range(n):
        st = gen_stack(rng)
        out = []; i = 0
        while i < len(st):
            t = st[i]
            if t[0] == 'F' and t[1:].isdigit():
                j = st.index('.', i)
                out.append(wrap_tok(rng, t, 0.6)); out += st[i + 1:j + 1]; i = j + 1
            else:
                out.append(wrap_tok(rng, t, 0.6)); i += 1
            if rng.random() < 0.15: out.append(rng.choice(['none', 'empty']))
        if rng.random() < 0.15: out.insert(0, rng.choice(['none', 'empty']))
        yield ' '.join(out) + ' ;; ' + ' ; '.join(gen_ops(rng, rng.choice([10, 25]), False, st))

def strip_wrappers(toks):
    return [t.split(':')[-1] for t in toks if t not in ('none', 'empty', '@box', '@arc')]

def gen_pair(rng, tier):
    """the same stack bare and wrapped: `W <bare> ;; <wrapped> ;; ops` — both complete logs must be equal"""
    n = 1200 if tier == 'quick' else 30000
    for _ in range(n):
        toks, _ = gen_layers(rng, 1, rng.choice([1, 2, 3, 4]), 2, rng.choice([0.5, 0.9]), rng.random() < 0.15)
        if rng.random() < 0.3: toks.insert(0, rng.choice(['none', 'empty']))
        if rng.random() < 0.3: toks = [rng.choice(['@box', '@arc'])] + toks
        yield 'W ' + ' '.join(strip_wrappers(toks)) + ' ;; ' + ' '.join(toks) + ' ;; ' + ' ; '.join(gen_notify_ops(rng, rng.choice([6, 15, 30])))

def gen_filter_pair(rng):
    """pass-through wrappers around a per-layer FILTER (Box<dyn Filter>, Arc<dyn Filter>, Some(_), reload used as a filter): the
    same stack with bare and with wrapped recording filters; the complete logs (layer and filter callbacks) must be equal"""
    toks = []
    n = 1
    for _ in range(rng.choice([1, 2, 3])):
        if rng.random() < 0.7:
            letters = ''.join(rng.choice('xasr') for _ in range(rng.choice([1, 1, 2, 3])))
            toks.append(wrap_tok(rng, 'R%dl%d~%s' % (n, rng.randrange(2, 6), letters), 0.3))
        else:
            toks.append(wrap_tok(rng, 'P%d' % n, 0.3))
        n += 1
    if not any('~' in t for t in toks): toks[0] = 'R1l4~' + rng.choice(['x', 'a', 's', 'r', 'xa'])
    bare = [t.split(':')[-1].split('~')[0] for t in toks]
    return 'W ' + ' '.join(bare) + ' ;; ' + ' '.join(toks) + ' ;; ' + ' ; '.join(gen_notify_ops(rng, rng.choice([8, 15, 30])))

def extra(tier, seed, rng, res, broken):
    import checklib.main as M
    # the failing-input search behind reload_waits_for_the_lock: a notification made while another thread is inside Handle::modify
    from checks import stressgen
    stressgen.stress_phase('reloadbusy', tier, res, broken, seed)
    n = 300 if (tier == 'quick' and not broken) else 6000
    cases = [gen_filter_pair(rng) for _ in range(n)]
    outs, err = M.run_lines([M.bin_path('h_layers')], cases)
    if err:
        res.errors.append('filter-wrapper stream: %s' % err); return
    for c, o in zip(cases, outs):
        res.evaluations += 1
        k = 'filterpair wrappers=%s' % ''.join(sorted(set(''.join(t.split('~')[1] for t in c.split(' ;; ')[1].split() if '~' in t))))
        res.hist[k] = res.hist.get(k, 0) + 1
        v = judge_pair(c, o)
        if 'f_record' in o and 'f_close' in o and ':event' in o: res.nontrivial.add('filterpair ' + c)
        if v != 'ok':
            res.spec_failures.append(('filterpair', c, o[:2000], 'judge ' + v))

def judge_pair(case, out):
    halves = out.split(' || ')
    if len(halves) != 2: return 'bad ' + out[:40]
    if halves[0] == halves[1]: return 'ok'
    a, b = halves[0].split(','), halves[1].split(',')
    i = next((k for k in range(min(len(a), len(b))) if a[k] != b[k]), min(len(a), len(b)))
    return 'bad wrapped-stack-differs@%d bare=%s wrapped=%s' % (i, a[i] if i < len(a) else 'end', b[i] if i < len(b) else 'end')

def nontrivial_notify(case, out):
    # at least two layers, something delivered, and either a veto or a wrapper in play
    return out.count(':event') + out.count(':new_span') >= 2 and (':' in case.split(' ;; ')[0] or 'M' in case or 'E' in case) and case.count('P') + case.count('M') + case.count('E') >= 2

def nontrivial_wrapped(case, out):
    st = case.split(' ;; ')[0]
    return (':' in st or 'none' in st or 'empty' in st) and any(len(t) > 2 for t in out.split())

def classify(stream, case, out):
    st = case.split(' ;; ')[0].split()
    wr = sorted(set(p for t in st if ':' in t for p in t.split(':')[:-1]))
    return '%s wrappers=%s absent=%s group=%s collector=%s veto=%s' % (
        stream, ''.join(wr) or '-', 'y' if ('none' in st or 'empty' in st) else 'n', 'y' if '(' in st else 'n',
        st[1] if len(st) > 1 and st[1].startswith('@') else (st[0] if st[0].startswith('@') else '-'),
        ''.join(sorted(set(t.split(':')[-1][0] for t in st if t.split(':')[-1][0] in 'MEN'))) or '-')

_n = Stream('notify', 'h_layers', gen=gen_notify, nontrivial=nontrivial_notify, spec_mode='spec')
_n.spec_match = lambda spec, impl: spec == 'no-spec' or spec == impl
from checks.C07 import strip_vec as _strip_vec
_n.model_case = _strip_vec
_CONTROL = (':dispatch', ':subscribe', ':callsite', ':enabled', ':event_enabled')
def _data_only(out):
    """the data notifications (event, new_span, record, follows, enter, exit, close) each layer saw, in order"""
    return ' '.join(','.join(e for e in tok.split(',') if not any(e.split('[')[0].endswith(k) for k in _CONTROL)) or '-' for tok in out.split(' '))
def _n_spec_match(case, spec, impl):
    # a Vec asks its members for registration / enabled in member order, an and_then chain asks outer first: with a `[ … ]` group in
    # the stack the questions may arrive in another order than the model's (same answers); the data notifications may not
    if spec == 'no-spec' or spec == impl: return True
    return '[' in case.split(' ;; ')[0].split() and _data_only(spec) == _data_only(impl)
_n.spec_match3 = _n_spec_match
_n.model_match = lambda case, model, impl: _n_spec_match(case, model, impl)
_p = Stream('pair', 'h_layers', gen=gen_pair, nontrivial=lambda case, out: ':' in case.split(' ;; ')[1] and out.count(':event') + out.count(':new_span') >= 2)
_p.py_judge = judge_pair
# (the executors respect the max level the stack publishes, as the macros do: an absent layer that drags it down silences its neighbours)
_p.env = {'TV_HINT_GATE': '1'}
_n.env = {'TV_HINT_GATE': '1'}
# the model speaks about notification kinds; the payloads (span ids, callsites) logged in pair mode are for the judge
_p.canon = lambda s: re.sub(r'\[[^\]]*\]', '', s)
_w = Stream('wrapped', 'h_layers', mode='modelfilt', gen=gen_wrapped, nontrivial=nontrivial_wrapped, spec_mode='specfilt')

PROPERTY = {
    'manifest': {
        'text': "Lean 4 theorems about (a) the forwarding table extracted from the source on every run (every method of Collect / Subscribe / Filter as implemented by Box, Arc, Option, Vec, reload::Subscriber, "
                "Box<dyn>, Arc<dyn>: passthrough_collect / passthrough_subscribe / passthrough_filter, and traits_covered so that a new trait method must be classified) and (b) a fan-out model that INTERPRETS the "
                "extracted call sequences and control shapes of both Layered impls: for every and_then tree of any shape and size and every history, the notification log equals the list specification "
                "(refines_spec: each layer once per occurrence, inner before outer; each_layer_once_inner_first), a check is the conjunction asked from the outside in (veto_is_conjunction) and any layer's veto "
                "stops delivery to all (event_veto_stops_all, meta_veto_stops_all). The model and the list specification are compared with real stacks (recording layers that log every notification kind, optionally "
                "vetoing) wrapped at random in Box / Some / vec![_] / reload / and_then(Identity) / Box<dyn Collect> / Arc, with None and empty-Vec layers inserted; wrappers are erased on the model side. The reload wrapper takes its lock blocking in every callback (reload_waits_for_the_lock, from reload.rs on every run); the search behind it is a real-thread run (reloadbusy): each kind of notification made while another thread is inside Handle::modify must reach the reloadable layer exactly once.",
        'note': "Trusted: Lean kernel; propext/Classical.choice/Quot.sound; the translator's classification of an impl body as `forward` (the only calls on the wrapped value are to the same-named method) — behaviour "
                "of those bodies (e.g. calling twice) is covered by the differential run, not the table; pick_interest for unfiltered stacks is hand-modelled; callsite registration and the checks travel outer-first by design "
                "(pick_interest short-circuit), so the order clause is proved for the data notifications. Repaired: F4/F5 (on_register_dispatch not forwarded by Box/Arc/Layered/fmt::Collector), Vec event_enabled/on_id_change, "
                "reload on_subscribe/event_enabled, F6/F24 (Vec::register_callsite), F23 (and_then dispatch-registration order), F25/F26 (and_then nodes treating their inner subscriber as the registry).",
        'technique': 'Lean 4 proof (induction on and_then trees over generated call tables; kernel-decided table facts) + differential run against real wrapped layer stacks',
    },
    'lean_module': 'TracingModel.Props.C09',
    'namespace': 'C09',
    'units': ['Forwarding'],
    'required_theorems': ['C09.reload_waits_for_the_lock', 'C09.traits_covered', 'C09.passthrough_collect', 'C09.passthrough_subscribe', 'C09.passthrough_filter', 'C09.table_data', 'C09.table_checks', 'C09.table_collect',
                          'C09.each_layer_once_inner_first', 'C09.veto_is_conjunction', 'C09.refines_spec', 'C09.event_veto_stops_all', 'C09.meta_veto_stops_all', 'C09.absent_transparent', 'C09.f25_repaired', 'C09.layered_once_inner_first', 'C09.veto_stops_all'],
    'streams': [_n, _p, _w],
    'extra_bins': ['h_stress'],
    'rule': 'stream notify: a stack of 1-5 recording layers (plain / metadata-vetoing / event-vetoing / statically refusing above a level), nested and_then groups, random pass-through wrappers (up to 3 deep), None / empty-Vec '
            'layers, optionally the whole collector in Box<dyn Collect> or Arc; a history of events, spans, enter/exit/record/follows-from/close over 4-10 callsites; compared = the complete ordered log of every notification '
            'every layer observed (incl. on_subscribe, on_register_dispatch, register_callsite, enabled, event_enabled). stream wrapped: C07 stacks (global and per-layer filters) with the same wrappers; compared = receivers per operation. '
            'stream pair: the same stack bare and wrapped, both complete logs judged equal. non-trivial = at least two layers, something delivered, and a wrapper or veto in play',
    'trusted_base': ['translator unit Forwarding (impl-body classification, Layered call sequences and control shapes)', 'hand-written pick_interest / front end in Core/Notify.lean',
                     'executor h_layers (real Registry, real wrappers, synthetic metadata through Dispatch with per-callsite interest caching)'],
    'assumptions': ['lifecycle ops follow the Span protocol'],
}
