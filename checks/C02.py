"""C02 — an emission goes to the thread's scoped default, else to the global default."""
from checklib.main import Stream
from checks import coregen

def gen(rng, tier):
    n = 150 if tier == 'quick' else 3000
    for k in range(n):
        yield coregen.gen_history(rng, rng.choice([30, 60, 120, 200]), style='scope')

def nontrivial(case, out):
    s = coregen.stats(case, out)
    return s['scopes'] >= 2 and s['delivered'] >= 1 and (s['threads'] >= 2 or s['global'] >= 1)

def classify(stream, case, out):
    s = coregen.stats(case, out)
    return 'threads=%d global=%s unwinds=%s' % (s['threads'], 'y' if s['global'] else 'n', 'y' if '; pp ' in case else 'n')

def _match(spec, impl):
    a = spec.split(); b = impl.split()
    return len(a) == len(b) and all(x == '*' or x == y for x, y in zip(a, b))

_st = Stream('hist', 'h_core', gen=gen, per_process=True, nontrivial=nontrivial, spec_mode='spec')
_st.spec_match = _match

PROPERTY = {
    'manifest': {
        'text': 'Lean 4 theorems over every finite history: the collector get_default resolves to (fast or slow path) equals the top of the '
                'thread\'s live-scope stack, else the completed global default, else none (current_is_innermost, by a simulation relation between the '
                'thread-local/guard/counter state and per-thread stacks); LIFO restore; frame (other threads untouched); set_global_default succeeds at most once. '
                'The hand-written model is compared with the real dispatch.rs on generated multi-thread histories (one process each) incl. scopes '
                'closed by unwinding and scopes used before the global default existed (the F1 regression).',
        'note': 'Trusted: Lean kernel; axioms propext/Classical.choice/Quot.sound; sequential model (set_global_default\'s three atomic steps are taken together here); '
                'nested get_default inside collector callbacks (can_enter=false) outside the quantifier; the model is of the code AFTER the fix: commit for F1.',
        'technique': 'Lean 4 proof (simulation relation + induction over histories) of a hand-written model, correspondence-checked against the real crate',
    },
    'lean_module': 'TracingModel.Props.C02',
    'namespace': 'C02',
    'units': [],
    'required_theorems': ['C02.current_is_innermost', 'C02.lifo_restore', 'C02.frame', 'C02.global_once', 'C02.rel_reachable'],
    'streams': [_st],
    'rule': 'one case = one history run in a fresh process: up to 4 threads, nested set_default scopes closed normally or by a caught panic (unwinding through 1..k guards), '
            'set_global_default attempts at any point, emissions everywhere; corpus includes the F1 witness (scope used before the global default existed, other thread holding a scope); '
            'non-trivial = >=2 scopes, >=1 delivery and (>=2 threads or a global default); distinct = distinct history lines',
    'trusted_base': ['hand-written model Core/Dispatch.lean', 'executor h_core'],
    'assumptions': ['sequential consistency at op granularity'],
}
