"""C02 — an emission goes to the thread's scoped default, else to the global default."""
from checklib.main import Stream
from checks import coregen
import checklib.main as M

def extra(tier, seed, rng, res, broken):
    """racing set_global_default calls on real threads (the scenarios and the judge are shared with C04): exactly one call
    returns Ok and the process-wide default afterwards is that call's collector"""
    from checks import C04 as _c04
    cases = _c04.global_cases(rng, 'thorough' if broken else tier, bool(broken))
    outs, err = M.run_per_process([M.bin_path('h_race')], cases, timeout=30)
    if err:
        res.errors.append('global race stream: %s' % err); return
    verdicts, err = M.driver('C04', 'judge', [c + ' => ' + o for c, o in zip(cases, outs)])
    if err:
        res.errors.append('global race judge: %s' % err); return
    for c, o, v in zip(cases, outs, verdicts):
        res.evaluations += 1
        k = 'global race callers=%d' % c.count('sgd')
        res.hist[k] = res.hist.get(k, 0) + 1
        if o.count('sgd:') >= 2: res.nontrivial.add('race ' + c)
        if v != 'ok' and ('global-default' in v or 'set_global_default' in v or 'PANIC' in v or 'DEADLOCK' in v):
            res.spec_failures.append(('race', c, o, 'judge ' + v))
    # the live-scope counter: threads opening / using / closing scopes together (see stressgen)
    from checks import stressgen
    stressgen.stress_phase('scopes', tier, res, broken, seed)

def gen(rng, tier):
    n = 150 if tier == 'quick' else 3000
    for k in range(n):
        yield coregen.gen_history(rng, rng.choice([30, 60, 120, 200]), style='scope')

def gen_seq(rng, tier):
    """scope histories for the interleaved model Core/ScopeRace run one call at a time: 1-4 threads, nested scopes closed
    innermost first, emissions everywhere, a global default set (or not) before the first scope"""
    n = 150 if tier == 'quick' else 3000
    A = 'a' * coregen.NCS; O = '1' * coregen.NCS
    for _ in range(n):
        ops = ['static=5'] + ['nc %d %s %s -' % (c, A, O) for c in (1, 2, 3, 4)]
        nth = rng.choice([1, 2, 3, 4])
        ops += ['ts'] * (nth - 1)
        if rng.random() < 0.5: ops.append('sg 0 %d' % rng.randrange(1, 5))
        depth = [0] * nth
        for _ in range(rng.choice([10, 25, 50])):
            t = rng.randrange(nth); r = rng.random()
            if r < 0.3: ops.append('sd %d %d' % (t, rng.randrange(1, 5))); depth[t] += 1
            elif r < 0.5 and depth[t]: ops.append('pd %d' % t); depth[t] -= 1
            elif r < 0.53: ops.append('sg %d %d' % (t, rng.randrange(1, 5)))
            elif r < 0.6: ops.append('wc %d %d %d' % (t, rng.randrange(1, 5), rng.randrange(coregen.NCS)))
            else: ops.append('%s %d %d' % (rng.choice(['em', 'sp']), t, rng.randrange(coregen.NCS)))
        yield ' ; '.join(ops)

def nontrivial(case, out):
    s = coregen.stats(case, out)
    return s['scopes'] >= 2 and s['delivered'] >= 1 and (s['threads'] >= 2 or s['global'] >= 1)

def classify(stream, case, out):
    s = coregen.stats(case, out)
    return '%s threads=%d global=%s unwinds=%s' % (stream, s['threads'], 'y' if s['global'] else 'n', 'y' if '; pp ' in case else 'n')

def _match(spec, impl):
    a = spec.split(); b = impl.split()
    return len(a) == len(b) and all(x == '*' or x == y for x, y in zip(a, b))

_st = Stream('hist', 'h_core', gen=gen, per_process=True, nontrivial=nontrivial, spec_mode='spec')
_st.spec_match = _match
_st.model_case = coregen.model_case
_sq = Stream('seqscope', 'h_core', mode='modelrace', gen=gen_seq, per_process=True,
             nontrivial=lambda case, out: case.count('; sd ') >= 2 and case.count('; ts') >= 1 and 'c' in out)
_sq.model_case = coregen.model_case
# collectors and threads are referred to by number: a shrunk history keeps their creation
for _s in (_st, _sq): _s.shrink_keep = lambda op: op.startswith('nc ') or op.startswith('ncs ') or op == 'ts' or op.startswith('static=')

PROPERTY = {
    'manifest': {
        'text': 'Lean 4 theorems over every finite history: the collector get_default resolves to (fast or slow path) equals the top of the '
                'thread\'s live-scope stack, else the completed global default, else none (current_is_innermost, by a simulation relation between the '
                'thread-local/guard/counter state and per-thread stacks); LIFO restore; frame (other threads untouched); set_global_default succeeds at most once. '
                'The hand-written model is compared with the real dispatch.rs on generated multi-thread histories (one process each) incl. scopes '
                'closed by unwinding and scopes used before the global default existed (the F1 regression). Interleaved: a transition system whose steps are the atomic operations of set_global_default (election, write, publish), '
                'parametrised by facts extracted from dispatch.rs on every run (global_code_facts), for ANY number of racing callers and EVERY schedule: at most one call returns Ok (global_once_interleaved), a returned Ok means every later '
                'read yields that collector (installed_is_default), readers never see a half-installed one (reader_never_sees_half_installed); with a load-then-store election two callers both succeed (election_witness). '
                'Racing callers on real threads are run under enumerated schedules (yield hooks) and judged. The live-scope counter that selects get_default\'s fast path: a transition system over its atomic operations, '
                'parametrised by whether an open is ONE fetch_add (scope_counter_code_facts, extracted from dispatch.rs), any threads, every schedule: counter = scopes live (scope_counter_exact), so the fast path is taken only with none live (fast_path_sound); '
                'with load-then-store an open is lost (scope_counter_witness). Scopes and counter together (Core/ScopeRace: every thread a program of set_default / guard drop / get_default calls, each call its atomic steps, any interleaving): a thread between calls is always handed its OWN innermost live scope, else the global default (scoped_default_interleaved), steps of other threads touch nothing of it (other_threads_untouched), and with a non-atomic bump a thread inside its scope is handed the global default (scoped_default_witness); the same model, run one call at a time, is compared with the real dispatch.rs (stream seqscope). Real threads released together open, use and close scopes (h_stress), every emission must reach its own scope.',
        'note': 'Trusted: Lean kernel; axioms propext/Classical.choice/Quot.sound; the history model is sequential (set_global_default\'s steps taken together); the interleaved model covers set_global_default / get_global only, at sequential consistency; '
                'nested get_default inside collector callbacks (can_enter=false) outside the quantifier; the model is of the code AFTER the fix: commit for F1.',
        'technique': 'Lean 4 proof (simulation relation + induction over histories) of a hand-written model, correspondence-checked against the real crate',
    },
    'lean_module': 'TracingModel.Props.C02A',
    'leanchecker_modules': ['TracingModel.Props.C02', 'TracingModel.Props.C02G'],
    'extra_bins': ['h_race', 'h_stress'],
    'namespace': 'C02',
    'units': ['GlobalInit', 'AtomicCounts'],
    'required_theorems': ['C02.current_is_innermost', 'C02.lifo_restore', 'C02.frame', 'C02.global_once', 'C02.rel_reachable',
                          'C02.global_code_facts', 'C02.global_once_interleaved', 'C02.installed_is_default', 'C02.reader_never_sees_half_installed', 'C02.election_witness',
                          'C02.scope_counter_code_facts', 'C02.scope_counter_exact', 'C02.fast_path_sound', 'C02.scope_counter_witness',
                          'C02.scoped_default_interleaved', 'C02.other_threads_untouched', 'C02.scoped_default_witness'],
    'streams': [_st, _sq],
    'rule': 'one case = one history run in a fresh process: up to 4 threads, nested set_default scopes closed normally or by a caught panic (unwinding through 1..k guards), '
            'set_global_default attempts at any point, emissions everywhere; corpus includes the F1 witness (scope used before the global default existed, other thread holding a scope); '
            'non-trivial = >=2 scopes, >=1 delivery and (>=2 threads or a global default); distinct = distinct history lines',
    'trusted_base': ['hand-written model Core/Dispatch.lean', 'executor h_core'],
    'assumptions': ['sequential consistency at op granularity'],
}
