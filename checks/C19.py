"""C19 — levels and level filters: one total order, text round-trips."""
import itertools
from checklib.main import Stream

L = ['error', 'warn', 'info', 'debug', 'trace']
F = ['off'] + L
def hx(s):
    b = s.encode('utf-8')
    return b.hex() if b else '-'

def gen_finite(rng, tier):
    """the finite part, enumerated completely"""
    for m in ['lt', 'le', 'gt', 'ge', 'eq', 'ne', 'cmp', 'partial_cmp', 'max', 'min']:
        for a, b in itertools.product(L, L): yield 'op LL %s %s %s' % (m, a, b)
        for a, b in itertools.product(F, F): yield 'op FF %s %s %s' % (m, a, b)
    for m in ['lt', 'le', 'gt', 'ge', 'eq', 'ne', 'partial_cmp']:
        for a, b in itertools.product(L, F): yield 'op LF %s %s %s' % (m, a, b)
        for a, b in itertools.product(F, L): yield 'op FL %s %s %s' % (m, a, b)
    for a in L:
        for op in ['dispL', 'asstr', 'fromL', 'aslogL', 'astraceL']: yield '%s %s' % (op, a)
    for a in F:
        for op in ['dispF', 'setcur', 'fromO', 'intoL', 'aslogF', 'astraceF']: yield '%s %s' % (op, a)
    # set_max read-back in every order (the global is shared state)
    for a, b in itertools.permutations(F, 2):
        yield 'setcur %s' % a; yield 'setcur %s' % b

def case_patterns(name):
    for bits in itertools.product([0, 1], repeat=len(name)):
        yield ''.join(c.upper() if b else c for c, b in zip(name, bits))

def gen_text(rng, tier):
    # all 2^n case patterns of every name, digits, and surrounding noise
    for nm in L + ['off']:
        for s in case_patterns(nm):
            yield 'parseL ' + hx(s); yield 'parseF ' + hx(s)
    nums = [str(i) for i in range(0, 12)] + ['+%d' % i for i in range(0, 7)] + ['00%d' % i for i in range(0, 7)] + \
           ['-0', '-1', '1.0', '1e0', '0x1', ' 1', '1 ', '+', '-', '++1', '+-1', '１', '٣', '5５',
            '18446744073709551615', '18446744073709551616', '18446744073709551617', '18446744073709551621',
            '36893488147419103233', '0' * 40 + '3', '9' * 30]
    noise = ['', ' ', 'err', 'errors', 'warning', 'inf', 'infoo', ' info', 'info ', 'info\n', '\tinfo', 'trace\0', 'TRACE!', 'ｅｒｒｏｒ',
             'ERROŔ', 'ınfo', 'İNFO', 'ſtate', 'KelvinK', 'debüg', 'of', 'offf', '0ff', 'o f f', 'none', 'all', 'max',
             'error,warn', 'info=debug', '=', 'level', 'LevelFilter::OFF', 'Level(Info)', 'K', 'trace', 'waʀn']
    for s in nums + noise:
        yield 'parseL ' + hx(s); yield 'parseF ' + hx(s)
    # random: mutations of valid spellings and random short strings
    n = 3000 if tier == 'quick' else 100000
    alphabet = list('errowanifdbugtcOFEINWADBUGTRC012345+- \t\n_') + ['é', 'ß', 'İ', 'ı', 'K', '５']
    valid = L + ['off'] + [str(i) for i in range(6)]
    for _ in range(n):
        k = rng.random()
        if k < 0.5:
            s = list(rng.choice(valid))
            for _ in range(rng.randrange(0, 3)):
                op = rng.randrange(4)
                if op == 0 and s: s[rng.randrange(len(s))] = rng.choice(alphabet)
                elif op == 1: s.insert(rng.randrange(len(s) + 1), rng.choice(alphabet))
                elif op == 2 and s: del s[rng.randrange(len(s))]
                elif s:
                    i = rng.randrange(len(s)); s[i] = s[i].swapcase()
            s = ''.join(s)
        elif k < 0.8:
            s = ''.join(rng.choice(alphabet) for _ in range(rng.randrange(0, 7)))
        else:
            s = rng.choice(['', '+']) + ''.join(rng.choice('0123456789') for _ in range(rng.randrange(1, 25)))
        yield rng.choice(['parseL ', 'parseF ']) + hx(s)

def classify(stream, case, impl):
    t = case.split()
    if t[0] == 'op': return 'op ' + t[1]
    if t[0].startswith('parse'): return t[0] + (' accept' if impl.startswith('ok') else ' reject')
    return t[0]

def attribute(stream, case, impl, model, why):
    # F16: "".parse::<LevelFilter>() == Ok(ERROR)
    if case == 'parseF -' and impl == 'ok error':
        return 'F16'
    return None

PROPERTY = {
    'manifest': {
        'text': 'Lean 4 theorems over the regenerated comparison table: every one of the 24 hand-written comparison methods plus derived '
                '==/!=/min/max, on every pair of the 5 levels and 6 filters, equals the rank order OFF<ERROR<…<TRACE (case analysis, kernel-decided); '
                'current∘set_max = id; log<->tracing conversions are order-preserving bijections; and for EVERY string, FromStr accepts exactly the '
                'documented language (unbounded induction over the string; 64-bit overflow of numerals handled). The real operators/parsers are '
                'run on the complete finite space and on all 2^n case patterns + noise and compared with the model and the rank specification.',
        'note': 'Trusted: Lean kernel; axioms propext/Classical.choice/Quot.sound; the translator that turns metadata.rs method bodies and match '
                'tables into Gen/Levels.lean (a body it cannot parse breaks the tie and is reported); derived PartialEq and Ord::min/max are '
                'modelled from their std definitions; usize is 64-bit. Known finding F16 ("" parses as ERROR filter) is excluded from '
                'accepted_language_filter_partial and pinned by f16_witness.',
        'technique': 'Lean 4 proof (exhaustive case analysis + induction over strings) over a translator-regenerated table, plus exhaustive differential run',
    },
    'lean_module': 'TracingModel.Props.C19',
    'namespace': 'C19',
    'units': ['Levels'],
    'required_theorems': ['C19.ops_LL', 'C19.ops_LF', 'C19.ops_FL', 'C19.ops_FF', 'C19.enabled_is_le', 'C19.max_level_readback',
                          'C19.log_bijection_level', 'C19.log_bijection_filter', 'C19.parse_display_level', 'C19.parse_display_filter',
                          'C19.accepted_language_level', 'C19.accepted_language_filter_partial', 'C19.f16_witness',
                          'C19.rank_injective', 'C19.frank_injective', 'C19.repr_injective'],
    'streams': [
        Stream('finite', 'h_levels', gen=gen_finite, judge='judge'),
        Stream('text', 'h_levels', gen=gen_text, judge='judge'),
    ],
    'rule': 'finite stream: ALL ordered pairs x ALL operators for the four type pairings, all conversions, set_max/current in every order '
            '(exhaustive: true for that stream); text stream: all 2^n letter-case patterns of each name, digits 0-11 with +/leading zeros, '
            'numerals around 2^64, Unicode look-alikes and noise, plus random mutations of valid spellings; distinct = distinct case lines, '
            'every case is non-trivial (each exercises an operator or the parser)',
    'trusted_base': ['translator unit Levels: metadata.rs LevelInner discriminants, OFF_USIZE, filter_as_usize, 8 impl blocks (24 methods), FromStr x2, Display x2, as_str, current(), set_max; tracing-log AsLog/AsTrace x4',
                     'executor h_levels calls the real operators (through the operator syntax, i.e. the hand-written lt/le/gt/ge), str::parse, Display, Dispatch::new + LevelFilter::current()'],
    'assumptions': ['usize is 64 bits', 'Ord::max/min are `if other < self` (std >= 1.86) — compared by correspondence'],
    'exhaustive_streams': ['finite'],
}
