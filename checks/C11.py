"""C11 — filter directives: the most specific match wins, and filters round-trip."""
from checklib.main import Stream
from checklib import main as M

TARGETS = ['app', 'application', 'app::db', 'app::db::pool', 'other', 'ap', 'a', 'app::d', 'other-crate', 'x_y', 'app:', 'APP']
LEVELS = ['off', 'error', 'warn', 'info', 'debug', 'trace']

def hx(s):
    b = s.encode('utf-8')
    return b.hex() if b else '-'

def rand_case(rng, s):
    return ''.join(c.upper() if rng.random() < 0.3 else c for c in s)

def gen_level(rng):
    r = rng.random()
    if r < 0.6: return rand_case(rng, rng.choice(LEVELS))
    if r < 0.85: return str(rng.randrange(0, 6))
    return rng.choice(['', '6', 'verbose', '+3', '03', 'inf', ' info', 'warn '])

def gen_directive(rng, fields_ok):
    r = rng.random()
    if r < 0.12: return gen_level(rng)                       # bare level
    t = rng.choice(TARGETS)
    if r < 0.22: return t                                    # bare target
    f = ''
    if fields_ok and rng.random() < 0.25:
        f = '[{' + ','.join(rng.sample(['bar', 'baz', 'msg', 'qux'], rng.randrange(1, 3))) + '}]'
    if rng.random() < 0.04: t = ''
    d = t + f + '=' + gen_level(rng)
    if rng.random() < 0.03: d += '=info'
    return d

def gen_string(rng, fields_ok):
    n = rng.choice([1, 1, 2, 3, 4, 6])
    ds = [gen_directive(rng, fields_ok) for _ in range(n)]
    if rng.random() < 0.3 and ds:            # duplicates / conflicts in any order
        d = rng.choice(ds).split('=')[0]
        ds.insert(rng.randrange(len(ds) + 1), d + '=' + rand_case(rng, rng.choice(LEVELS)))
    s = ','.join(ds)
    if rng.random() < 0.05: s += ','
    if rng.random() < 0.03: s = ',' + s
    return s

def gen_targets(rng, tier):
    n = 1500 if tier == 'quick' else 40000
    yield 'T -'
    for _ in range(n):
        yield 'T ' + hx(gen_string(rng, True))

def gen_env(rng, tier):
    n = 1500 if tier == 'quick' else 40000
    yield 'E -'
    for _ in range(n):
        yield 'E ' + hx(gen_string(rng, False))

def nontrivial(case, out):
    return out.startswith('ok') and 'a' in out.split()[-3 if case.startswith('T') else 1] and 'n' in out

def classify(stream, case, out):
    return stream + (' accept' if out.startswith('ok') else ' reject')

def extra(tier, seed, rng, res, broken):
    """Targets and EnvFilter agree on every directive string both accept (no field lists);
    the only recorded exception is F14 (an empty level after `=`)."""
    n = 800 if tier == 'quick' else 20000
    strs = [gen_string(rng, False) for _ in range(n)]
    t, e1 = M.run_lines([M.bin_path('h_filters')], ['T ' + hx(s) for s in strs])
    e, e2 = M.run_lines([M.bin_path('h_filters')], ['E ' + hx(s) for s in strs])
    if e1 or e2:
        res.errors.append('agree stream: %s %s' % (e1, e2)); return
    both = 0
    for s, a, b in zip(strs, t, e):
        res.evaluations += 1
        if a.startswith('ok') and b.startswith('ok'):
            both += 1
            res.nontrivial.add('agree ' + s)
            ta = a.split()[2]; eb = b.split()[1]
            if ta != eb:
                f14 = any(p.endswith('=') for p in s.split(','))
                # `Targets` splits on ',' without dropping empty pieces: "" is the bare level ERROR there
                # (the C19 finding F16) while EnvFilter skips empty pieces
                f16 = any(p == '' for p in s.split(','))
                def is_level(x):
                    x = x.lstrip('+') if x[:1] == '+' and x[1:].isdigit() else x
                    return (x.isdigit() and x.isascii() and int(x) <= 5) or x.lower() in LEVELS
                f21 = any(('=' in p and is_level(p.split('=')[0])) or ('=' not in p and p.isdigit() and len(p) >= 2) for p in s.split(','))
                if f14 or f16:
                    res.known['F14'] = res.known.get('F14', 0) + 1
                elif f21:
                    res.known['F21'] = res.known.get('F21', 0) + 1
                else:
                    res.spec_failures.append(('agree', s, 'targets=' + ta[:60], 'env=' + eb[:60]))
    res.hist['agree both-accept'] = both
    # would_enable agrees with actual filtering (F7: not when the set has field constraints)
    strs = [gen_string(rng, True) for _ in range(n)] + ['foo[{bar}]=trace', 'app[{bar}]=trace,app=error']
    t, e1 = M.run_lines([M.bin_path('h_filters')], ['T ' + hx(s) for s in strs])
    if e1:
        res.errors.append('would_enable stream: %s' % e1); return
    for s, a in zip(strs, t):
        if not a.startswith('ok'):
            continue
        res.evaluations += 1
        bits = a.split()[2]; we = a.split()[3]
        bad = False
        for ti in range(7):
            for r in range(1, 6):
                for ev in (0, 1):
                    idx = ((ti * 5 + (r - 1)) * 2 + ev) * 4 + 0
                    if (bits[idx] == 'a') != (we[ti * 5 + (r - 1)] == '1'):
                        bad = True
        if bad:
            if '[{' in s:
                res.known['F7'] = res.known.get('F7', 0) + 1
            else:
                res.spec_failures.append(('would_enable', s, 'enabled=' + bits[:40], 'would_enable=' + we))

PROPERTY = {
    'manifest': {
        'text': "Lean 4 theorems over the modelled directive set (StaticDirective's Ord, binary-search insert, first-caring-directive): for EVERY insertion sequence and every metadata, the vector stays sorted by "
                "specificity (add_sorted) and the decision is taken by a matching directive at least as specific (longer target prefix, then more field constraints) as every other matching one, nothing when none matches "
                "(most_specific_wins); would_enable = filtering for sets without field constraints (partial; F7 witness); max_level bounds every inserted level. The Targets and EnvFilter (target/level grammar) parsers, "
                "Display and re-parse equality are modelled executably and compared with the real parsers on generated directive strings over a 280-point metadata universe; Targets-vs-EnvFilter agreement is judged on every string both accept.",
        'note': "Trusted: Lean kernel; propext/Classical.choice/Quot.sound; the regex of EnvFilter's grammar is re-implemented by hand for directives without a [span] part (ASCII); text round-trip is checked by "
                "correspondence (parse∘display on the real code and on the model), not yet a theorem; span-scoped directives ([span{field=value}]=level) are not yet modelled. Known findings F7, F14 excluded by hypothesis.",
        'technique': 'Lean 4 proof (sortedness invariant, induction over insertions) of a hand-written model + differential run against the real parsers and filters',
    },
    'lean_module': 'TracingModel.Props.C11',
    'namespace': 'C11',
    'units': [],
    'required_theorems': ['C11.most_specific_wins', 'C11.insert_sorted', 'C11.build_sorted', 'C11.would_enable_agrees_partial', 'C11.f7_witness', 'C11.max_level_bound', 'C11.mem_build'],
    'streams': [
        Stream('targets', 'h_filters', gen=gen_targets, nontrivial=nontrivial),
        Stream('env', 'h_filters', gen=gen_env, nontrivial=nontrivial),
    ],
    'rule': 'directive strings from the documented grammar: targets with :: paths and shared prefixes (app/application/ap/a), levels by name in random case or digit, bare level / bare target, field-name lists, '
            'duplicates and conflicting entries in any order, malformed pieces; each string is parsed by the real Targets / EnvFilter and queried on 7 targets x 5 levels x span/event x 4 field sets; '
            'non-trivial = accepted and both enabling and disabling something; distinct = distinct strings',
    'trusted_base': ['hand-written model Core/Directive.lean', 'executor h_filters (synthetic leaked Metadata queried through Filter::callsite_enabled / would_enable / Display / FromStr)'],
    'assumptions': ['ASCII directive strings for the EnvFilter stream'],
}
