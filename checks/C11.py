"""C11 — filter directives: the most specific match wins, and filters round-trip."""
from checklib.main import Stream
from checklib import main as M

TARGETS = ['app', 'application', 'app::db', 'app::db::pool', 'other', 'ap', 'a', 'app::d', 'other-crate', 'x_y', 'app:', 'APP']
LEVELS = ['off', 'error', 'warn', 'info', 'debug', 'trace']

def hx(s):
    b = s.encode('utf-8')
    return b.hex() if b else '-'

def rand_case(rng, s):
    return ''.join(c.upper() if rng.random() < 0.3 else c for c in s)

def gen_level(rng):
    r = rng.random()
    if r < 0.6: return rand_case(rng, rng.choice(LEVELS))
    if r < 0.85: return str(rng.randrange(0, 6))
    return rng.choice(['', '6', 'verbose', '+3', '03', 'inf', ' info', 'warn '])

def gen_directive(rng, fields_ok):
    r = rng.random()
    if r < 0.12: return gen_level(rng)                       # bare level
    t = rng.choice(TARGETS)
    if r < 0.22: return t                                    # bare target
    f = ''
    if fields_ok and rng.random() < 0.25:
        f = '[{' + ','.join(rng.sample(['bar', 'baz', 'msg', 'qux'], rng.randrange(1, 3))) + '}]'
    if rng.random() < 0.04: t = ''
    d = t + f + '=' + gen_level(rng)
    if rng.random() < 0.03: d += '=info'
    return d

def gen_string(rng, fields_ok):
    n = rng.choice([1, 1, 2, 3, 4, 6])
    ds = [gen_directive(rng, fields_ok) for _ in range(n)]
    if rng.random() < 0.3 and ds:            # duplicates / conflicts in any order
        d = rng.choice(ds).split('=')[0]
        ds.insert(rng.randrange(len(ds) + 1), d + '=' + rand_case(rng, rng.choice(LEVELS)))
    s = ','.join(ds)
    if rng.random() < 0.05: s += ','
    if rng.random() < 0.03: s = ',' + s
    return s

def gen_targets(rng, tier):
    n = 1500 if tier == 'quick' else 40000
    yield 'T -'
    for _ in range(n):
        yield 'T ' + hx(gen_string(rng, True))

def gen_env(rng, tier):
    n = 1500 if tier == 'quick' else 40000
    yield 'E -'
    for _ in range(n):
        yield 'E ' + hx(gen_string(rng, False))

# ---- span-scoped (dynamic) directives
DYN_TARGETS = ['app', 'app::db', 'other']
DYN_SPANS = ['req', 'conn', 'job']
DYN_FIELDSETS = ['-', 'id', 'id+ok']
def _gen_val(rng, name):
    if name == 'ok': return rng.choice(['true', 'false', 'true'])
    # integers, f64 literals that are multiples of 1/4 (so `|v - e| < EPSILON` is equality), a string
    return rng.choice(['7', '7', '8', '0', '-3', 'seven', '0.5', '1.5', '0.25', '-3.0', '7.0', '2.75', '0.5'])
def gen_dyn_directives(rng):
    ds = []
    for _ in range(rng.choice([1, 2, 2, 3, 4])):
        r = rng.random()
        tgt = rng.choice(['-', '-', 'app', 'app::db', 'ap', 'other'])
        lvl = rng.randrange(0, 6)
        if r < 0.3:
            ds.append((tgt, '-', '-', lvl))                                   # static: `target=level` / `level`
        else:
            span = rng.choice(['-'] + DYN_SPANS + ['req'])
            fs = []
            k = rng.random()
            if k < 0.5: fs = []
            elif k < 0.8: fs = ['id']
            else: fs = ['id', 'ok']
            def fld(f):
                v = _gen_val(rng, f)
                # (a non-numeric, non-boolean matcher would be a regex / Debug pattern: not modelled, not generated)
                return f + '=' + v if (rng.random() < 0.7 and v != 'seven') else f
            fields = '+'.join(fld(f) for f in fs) or '-'
            if span == '-' and fields == '-': span = 'req'
            ds.append((tgt, span, fields, lvl))
    return ds

def gen_dyn_case(rng):
    ds = gen_dyn_directives(rng)
    # a directive with two fields cannot be written inside a comma-separated filter string (the string is split at every
    # comma first): such sets are installed one directive at a time
    via_add = any('+' in d[2] for d in ds) or rng.random() < 0.25
    head = ('A ' if via_add else 'P ') + ' '.join('D %s %s %s %d' % d for d in ds)
    ops = []; nsp = 0; live = []; stack = []
    def meta(is_span):
        name = rng.choice(DYN_SPANS) if is_span else 'event'
        return '%s %s %d %s' % (name, rng.choice(DYN_TARGETS), rng.randrange(1, 6), rng.choice(DYN_FIELDSETS))
    for _ in range(rng.choice([8, 16, 30])):
        r = rng.random()
        if r < 0.25:
            m = meta(True); fsn = m.split()[3]
            names = [] if fsn == '-' else fsn.split('+')
            vals = '+'.join('%s=%s' % (n, _gen_val(rng, n)) for n in names if rng.random() < 0.6) or '-'
            ops.append('sp %d %s %s' % (nsp, m, vals)); live.append(nsp); nsp += 1
        elif r < 0.55: ops.append('ev ' + meta(False))
        elif r < 0.70 and live:
            k = rng.choice(live)
            if k not in stack: ops.append('en %d' % k); stack.append(k)
        elif r < 0.82 and stack:
            ops.append('ex %d' % stack.pop())                                   # well nested: the most recently entered span exits first
        elif r < 0.92 and live:
            k = rng.choice(live)
            ops.append('rc %d %s' % (k, rng.choice(['id=7', 'id=8', 'ok=true', 'ok=false', 'id=7+ok=true', 'id=-3', 'id=0.5', 'id=1.5', 'id=0.25', 'id=-3.0', 'id=7.0', 'id=2.75'])))
        elif live:
            cand = [k for k in live if k not in stack]
            if cand: k = rng.choice(cand); ops.append('cl %d' % k); live.remove(k)
    return head + ' ;; ' + ' ; '.join(ops)

TEXTS = ['abc', 'abd', 'Foo', 'abc']
def gen_dyn_case_noregex(rng):
    """a case of the span-scoped stream for a filter built with regular expressions switched off (`Q` / `B`): some matchers are
    fixed texts (compared with the Debug output of the recorded value), some recorded values are Debug values (`d:<text>`), and
    one directive is often given twice (same target, span and fields; another level): the later one replaces the earlier one"""
    case = gen_dyn_case(rng)
    head, ops = case.split(' ;; ')
    t = head.split()
    ds = [t[i:i + 5] for i in range(1, len(t), 5)]
    for d in ds:
        if d[3] != '-':
            fs = []
            for f in d[3].split('+'):
                if '=' in f and rng.random() < 0.6: f = f.split('=')[0] + '=' + rng.choice(TEXTS)
                fs.append(f)
            d[3] = '+'.join(fs)
    dyn = [d for d in ds if d[2] != '-' or d[3] != '-']
    if dyn and rng.random() < 0.6:
        d = list(rng.choice(dyn)); d[4] = str(rng.randrange(0, 6)); ds.append(d)
    mode = 'B' if (t[0] == 'A' or any('+' in d[3] for d in ds)) else 'Q'
    out = []
    for op in ops.split(' ; '):
        w = op.split()
        if not w: continue
        if w[0] in ('sp', 'rc') and w[-1] != '-' and rng.random() < 0.6:
            vs = []
            for v in w[-1].split('+'):
                n = v.split('=')[0]
                vs.append(n + '=d:' + rng.choice(TEXTS) if rng.random() < 0.7 else v)
            w[-1] = '+'.join(vs)
        out.append(' '.join(w))
    return mode + ' ' + ' '.join(' '.join(d) for d in ds) + ' ;; ' + ' ; '.join(out)

def gen_dyn_noregex(rng, tier):
    n = 1000 if tier == 'quick' else 30000
    for _ in range(n):
        yield gen_dyn_case_noregex(rng)

def gen_dyn(rng, tier):
    n = 1500 if tier == 'quick' else 40000
    for _ in range(n):
        yield gen_dyn_case(rng)

def valid_dyn(case):
    """well nested: a span exits only when it is the most recently entered one, is entered at most once at a time, and is not
    closed while entered (the property's quantifier; the shrinker must not leave it)"""
    stack = []; made = set(); closed = set()
    if ' ;; ' not in case: return False
    for op in case.split(' ;; ')[1].split(' ; '):
        w = op.split()
        if w[0] == 'sp': made.add(w[1])
        elif w[0] == 'en':
            if w[1] in stack or w[1] not in made or w[1] in closed: return False
            stack.append(w[1])
        elif w[0] == 'ex':
            if not stack or stack[-1] != w[1]: return False
            stack.pop()
        elif w[0] == 'cl':
            if w[1] in stack or w[1] not in made or w[1] in closed: return False
            closed.add(w[1])
        elif w[0] == 'rc':
            if w[1] not in made or w[1] in closed: return False
    return True

def nontrivial_dyn(case, out):
    # a span-scoped directive in play, some emission enabled and some not, and at least one enter
    return ' en ' in case and 'e:1' in out and 'e:0' in out and any(d.split()[2] != '-' or d.split()[1] != '-' for d in case.split(' ;; ')[0].split('D ')[1:])

def nontrivial(case, out):
    return out.startswith('ok') and 'a' in out.split()[-3 if case.startswith('T') else 1] and 'n' in out

def classify(stream, case, out):
    return stream + (' accept' if out.startswith('ok') else ' reject')

def extra(tier, seed, rng, res, broken):
    """Targets and EnvFilter agree on every directive string both accept (no field lists);
    the only recorded exception is F14 (an empty level after `=`)."""
    n = 800 if tier == 'quick' else 20000
    strs = [gen_string(rng, False) for _ in range(n)]
    t, e1 = M.run_lines([M.bin_path('h_filters')], ['T ' + hx(s) for s in strs])
    e, e2 = M.run_lines([M.bin_path('h_filters')], ['E ' + hx(s) for s in strs])
    if e1 or e2:
        res.errors.append('agree stream: %s %s' % (e1, e2)); return
    both = 0
    for s, a, b in zip(strs, t, e):
        res.evaluations += 1
        if a.startswith('ok') and b.startswith('ok'):
            both += 1
            res.nontrivial.add('agree ' + s)
            ta = a.split()[2]; eb = b.split()[1]
            if ta != eb:
                f14 = any(p.endswith('=') for p in s.split(','))
                # `Targets` splits on ',' without dropping empty pieces: "" is the bare level ERROR there
                # (the C19 finding F16) while EnvFilter skips empty pieces
                f16 = any(p == '' for p in s.split(','))
                def is_level(x):
                    x = x.lstrip('+') if x[:1] == '+' and x[1:].isdigit() else x
                    return (x.isdigit() and x.isascii() and int(x) <= 5) or x.lower() in LEVELS
                f21 = any(('=' in p and is_level(p.split('=')[0])) or ('=' not in p and p.isdigit() and len(p) >= 2) for p in s.split(','))
                if f14 or f16:
                    res.known['F14'] = res.known.get('F14', 0) + 1
                elif f21:
                    res.known['F21'] = res.known.get('F21', 0) + 1
                else:
                    res.spec_failures.append(('agree', s, 'targets=' + ta[:60], 'env=' + eb[:60]))
    res.hist['agree both-accept'] = both
    # would_enable agrees with actual filtering (F7: not when the set has field constraints)
    strs = [gen_string(rng, True) for _ in range(n)] + ['foo[{bar}]=trace', 'app[{bar}]=trace,app=error']
    t, e1 = M.run_lines([M.bin_path('h_filters')], ['T ' + hx(s) for s in strs])
    if e1:
        res.errors.append('would_enable stream: %s' % e1); return
    for s, a in zip(strs, t):
        if not a.startswith('ok'):
            continue
        res.evaluations += 1
        bits = a.split()[2]; we = a.split()[3]
        bad = False
        for ti in range(7):
            for r in range(1, 6):
                for ev in (0, 1):
                    idx = ((ti * 5 + (r - 1)) * 2 + ev) * 4 + 0
                    if (bits[idx] == 'a') != (we[ti * 5 + (r - 1)] == '1'):
                        bad = True
        if bad:
            if '[{' in s:
                res.known['F7'] = res.known.get('F7', 0) + 1
            else:
                res.spec_failures.append(('would_enable', s, 'enabled=' + bits[:40], 'would_enable=' + we))

_dyn = Stream('dyn', 'h_envdyn', mode='modeldyn', gen=gen_dyn, nontrivial=nontrivial_dyn, spec_mode='specdyn')
_dyn.valid_case = valid_dyn
_dynnr = Stream('dynnoregex', 'h_envdyn', mode='modeldyn', gen=gen_dyn_noregex, nontrivial=nontrivial_dyn, spec_mode='specdyn')
_dynnr.valid_case = valid_dyn

PROPERTY = {
    'manifest': {
        'text': "Lean 4 theorems over the modelled directive set (StaticDirective's Ord, binary-search insert, first-caring-directive): for EVERY insertion sequence and every metadata, the vector stays sorted by "
                "specificity (add_sorted) and the decision is taken by a matching directive at least as specific (longer target prefix, then more field constraints) as every other matching one, nothing when none matches "
                "(most_specific_wins); would_enable = filtering for sets without field constraints (partial; F7 witness); max_level bounds every inserted level. The Targets and EnvFilter (target/level grammar) parsers, "
                "Display and re-parse equality are modelled executably and compared with the real parsers on generated directive strings over a 280-point metadata universe; Targets-vs-EnvFilter agreement is judged on every string both accept. "
                "Span-scoped directives (Core/EnvDyn: by_cs / by_id / the per-thread scope stack, integer and boolean value matchers, both the whole-string parse and the add_directive construction): through every well-nested history "
                "the stack is exactly the list of the matching spans entered right now with the level each had when entered (enter_inv, exit_inv, newSpan_inv, record_inv, close_inv — so a level is raised exactly from a "
                "matching span's enter to its exit), the max-level fast paths never change a verdict, and an emission gets through iff it is a matching span itself, a static directive allows it, or an entered matching span's "
                "level allows it (dyn_passes_spec, matching_span_always). A real EnvFilter over the Registry is driven through span trees with values recorded at creation and later and compared with the model and the stack-free specification.",
        'note': "Trusted: Lean kernel; propext/Classical.choice/Quot.sound; the regex of EnvFilter's grammar is re-implemented by hand for directives without a [span] part (ASCII); text round-trip is checked by "
                "correspondence (parse∘display on the real code and on the model), not yet a theorem; span-scoped directives: string/regex value matchers and out-of-order exits are outside the model (the property quantifies over well-nested histories); the directive STRING of a span-scoped directive is assembled by the executor from the case's structured form (the regex grammar for [span{…}] is exercised, not modelled). Known findings F7, F14 excluded by hypothesis. Repaired on the way: F30 (field lists in EnvFilter directives kept the separating comma).",
        'technique': 'Lean 4 proof (sortedness invariant, induction over insertions) of a hand-written model + differential run against the real parsers and filters',
    },
    'lean_module': 'TracingModel.Props.C11D',
    'leanchecker_modules': ['TracingModel.Props.C11'],
    'namespace': 'C11',
    'units': [],
    'required_theorems': ['C11.most_specific_wins', 'C11.insert_sorted', 'C11.build_sorted', 'C11.would_enable_agrees_partial', 'C11.f7_witness', 'C11.max_level_bound', 'C11.mem_build',
                          'C11.dyn_passes_spec', 'C11.enter_inv', 'C11.exit_inv', 'C11.newSpan_inv', 'C11.record_inv', 'C11.close_inv', 'C11.matching_span_always', 'C11.mkEnv_ok', 'C11.static_enabled_le_max', 'C11.later_directive_replaces'],
    'streams': [
        Stream('targets', 'h_filters', gen=gen_targets, nontrivial=nontrivial),
        Stream('env', 'h_filters', gen=gen_env, nontrivial=nontrivial),
        _dyn,
        _dynnr,
    ],
    'rule': 'directive strings from the documented grammar: targets with :: paths and shared prefixes (app/application/ap/a), levels by name in random case or digit, bare level / bare target, field-name lists, '
            'duplicates and conflicting entries in any order, malformed pieces; each string is parsed by the real Targets / EnvFilter and queried on 7 targets x 5 levels x span/event x 4 field sets; '
            'non-trivial = accepted and both enabling and disabling something; distinct = distinct strings. Stream dyn: 1-4 directives (static, [span], [span{field}], [span{field=value}], two-field lists; levels off..trace; duplicates with different levels) installed by parse or by add_directive, then 8-30 ops: spans (3 names x 3 targets x 5 levels x 3 field sets, values at creation), events, well-nested enter/exit, record, close; non-trivial = a span-scoped directive, an enter, and both an enabled and a disabled event',
    'trusted_base': ['hand-written model Core/Directive.lean', 'executor h_filters (synthetic leaked Metadata queried through Filter::callsite_enabled / would_enable / Display / FromStr)', 'hand-written model Core/EnvDyn.lean', 'executor h_envdyn (real EnvFilter as a global filter over the Registry)'],
    'assumptions': ['ASCII directive strings for the EnvFilter stream'],
}
