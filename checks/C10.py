"""C10 — macros record each field once, typed, in order; disabled ones evaluate nothing."""
import os, struct
from checklib.main import Stream, VERIF

def hx(s): return (s if isinstance(s, bytes) else s.encode('utf-8')).hex()

LEVELS = {1: 'ERROR', 2: 'WARN', 3: 'INFO', 4: 'DEBUG', 5: 'TRACE'}
SHORT_EV = {1: 'error', 2: 'warn', 3: 'info', 4: 'debug', 5: 'trace'}
INT_TYPES = {'u8': (0, 2**8 - 1), 'u16': (0, 2**16 - 1), 'u32': (0, 2**32 - 1), 'u64': (0, 2**64 - 1), 'usize': (0, 2**64 - 1), 'u128': (0, 2**128 - 1),
             'i8': (-2**7, 2**7 - 1), 'i16': (-2**15, 2**15 - 1), 'i32': (-2**31, 2**31 - 1), 'i64': (-2**63, 2**63 - 1), 'isize': (-2**63, 2**63 - 1), 'i128': (-2**127, 2**127 - 1)}
NZ = {'u8': 'NonZeroU8', 'u16': 'NonZeroU16', 'u32': 'NonZeroU32', 'u64': 'NonZeroU64', 'u128': 'NonZeroU128', 'usize': 'NonZeroUsize',
      'i8': 'NonZeroI8', 'i16': 'NonZeroI16', 'i32': 'NonZeroI32', 'i64': 'NonZeroI64', 'i128': 'NonZeroI128', 'isize': 'NonZeroIsize'}
CHARS = ['a', 'Z', '7', ' ', '_', '-', '"', '\\', '\n', '\t', '\x00', 'é', ' ', '\U0001F600', '{', '}', '%', '?']

def rust_str(s):
    out = ''
    for ch in s:
        if ch == '"': out += '\\"'
        elif ch == '\\': out += '\\\\'
        elif ch == '{': out += '{'
        elif 32 <= ord(ch) < 127: out += ch
        else: out += '\\u{%x}' % ord(ch)
    return '"' + out + '"'

def rust_debug_str(s):
    """Rust's `{:?}` of a str (escape_debug): only used for strings over a safe alphabet"""
    return '"' + s + '"'

def int_lit(ty, v):
    return ('(%d%s)' % (v, ty)) if v >= 0 else ('(%d%s)' % (v, ty))

def f32_to_f64_bits(x):
    f = struct.unpack('<f', struct.pack('<f', x))[0]
    return struct.pack('>d', f).hex()

FLOATS64 = [('0.5f64', 0.5), ('-2.25f64', -2.25), ('1e300f64', 1e300), ('f64::MAX', 1.7976931348623157e308), ('f64::MIN_POSITIVE', 2.2250738585072014e-308), ('0.1f64', 0.1), ('-0.0f64', -0.0)]
FLOATS32 = [('0.5f32', 0.5), ('0.1f32', 0.1), ('f32::MAX', 3.4028234663852886e38), ('-1.5f32', -1.5), ('16777217.0f32', 16777216.0)]

def gen_value(rng, tick):
    """returns (rust expression using tick index, descriptor spec)"""
    r = rng.random()
    if r < 0.30:
        ty = rng.choice(list(INT_TYPES)); lo, hi = INT_TYPES[ty]
        v = rng.choice([lo, hi, 0, 1, rng.randrange(lo, hi + 1)])
        if rng.random() < 0.15 and v != 0:
            return 'tick(%d, std::num::%s::new(%d%s).unwrap())' % (tick, NZ[ty], v, ty) if v >= 0 else 'tick(%d, std::num::%s::new(%d%s).unwrap())' % (tick, NZ[ty], v, ty), 'z:%s:%d' % (ty, v)
        return 'tick(%d, %s)' % (tick, int_lit(ty, v)), 'v:%s:%d' % (ty, v)
    if r < 0.38:
        b = rng.random() < 0.5
        return 'tick(%d, %s)' % (tick, 'true' if b else 'false'), 'b:%d' % b
    if r < 0.46:
        if rng.random() < 0.5:
            e, x = rng.choice(FLOATS64); return 'tick(%d, %s)' % (tick, e), 'f:f64:%s' % struct.pack('>d', x).hex()
        e, x = rng.choice(FLOATS32); return 'tick(%d, %s)' % (tick, e), 'f:f32:%s' % f32_to_f64_bits(x)
    if r < 0.50:
        e, b = rng.choice([('f64::NAN', '7ff8000000000000'), ('f64::INFINITY', '7ff0000000000000'), ('f64::NEG_INFINITY', 'fff0000000000000'), ('f32::INFINITY', '7ff0000000000000'), ('f32::NAN', '7ff8000000000000')])
        return 'tick(%d, %s)' % (tick, e), 'f:%s:%s' % (e[:3], b)
    if r < 0.62:
        s = ''.join(rng.choice(CHARS) for _ in range(rng.choice([0, 1, 3, 8])))
        if rng.random() < 0.3: return 'tick(%d, String::from(%s))' % (tick, rust_str(s)), 'S:%s' % hx(s)
        return 'tick(%d, %s)' % (tick, rust_str(s)), 's:%s' % hx(s)
    if r < 0.68:
        b = bytes(rng.randrange(256) for _ in range(rng.choice([0, 1, 4])))
        return 'tick(%d, &[%s][..] as &[u8])' % (tick, ', '.join('%du8' % x for x in b)), 'y:%s' % hx(b)
    if r < 0.73:
        msg = ''.join(rng.choice('abc XYZ09') for _ in range(5))
        return 'tick(%d, &std::io::Error::new(std::io::ErrorKind::Other, %s) as &(dyn std::error::Error + \'static))' % (tick, rust_str(msg)), 'r:%s' % hx(msg)
    if r < 0.80:
        ty = rng.choice(['u8', 'i32', 'u64']); lo, hi = INT_TYPES[ty]; v = rng.randrange(lo, hi + 1)
        w = rng.choice(['std::num::Wrapping(%s)', '&&%s', 'Box::new(%s)'])
        return 'tick(%d, %s)' % (tick, w % int_lit(ty, v)), 'w:v:%s:%d' % (ty, v)
    if r < 0.90:
        # `%expr`: Display
        k = rng.random()
        if k < 0.4: v = rng.randrange(-1000, 1000); return '%%tick(%d, %d)' % (tick, v), 'D:%s' % hx(str(v))
        if k < 0.8:
            s = ''.join(rng.choice(CHARS) for _ in range(rng.choice([1, 4]))); return '%%tick(%d, %s)' % (tick, rust_str(s)), 'D:%s' % hx(s)
        b = rng.random() < 0.5; return '%%tick(%d, %s)' % (tick, 'true' if b else 'false'), 'D:%s' % hx('true' if b else 'false')
    # `?expr`: Debug
    k = rng.random()
    if k < 0.4: v = rng.randrange(-1000, 1000); return '?tick(%d, %d)' % (tick, v), 'd:%s' % hx(str(v))
    if k < 0.7:
        s = ''.join(rng.choice('abc XYZ09_-') for _ in range(rng.choice([0, 3, 6]))); return '?tick(%d, %s)' % (tick, rust_str(s)), 'd:%s' % hx(rust_debug_str(s))
    if k < 0.85: v = rng.randrange(100); return '?tick(%d, Some(%du8))' % (tick, v), 'd:%s' % hx('Some(%d)' % v)
    return '?tick(%d, (1u8, "x"))' % tick, 'd:%s' % hx('(1, "x")')

IDENT_NAMES = ['a', 'b', 'c', 'count', 'user_id', 'x1']
OTHER_NAMES = [('message', 'message'), ('r#type', 'r#type'), ('r#fn', 'r#fn'), ('http.method', 'http.method'), ('a.b.c', 'a.b.c'), ('"lit name"', 'lit name'), ('"quo\\"te"', 'quo"te'), ('"%pct"', '%pct'), ('"?q"', '?q'), ('"sp.ace d"', 'sp.ace d')]

def gen_invocation(rng, idx):
    kind = rng.choice(['e', 'e', 's'])
    level = (idx // 16) % 5 + 1        # (cycles, like the prefix combination and the macro form: period 80)
    rng.randrange(1, 6)
    if idx % 25 == 24:
        # `enabled!`: would a span / event with this metadata be enabled?  (field NAMES only: nothing is evaluated or visited)
        form = rng.choice(['tracing::enabled!(tracing::Level::%s)', 'tracing::enabled!(target: "custom::target", tracing::Level::%s)',
                           'tracing::enabled!(tracing::Level::%s, a, b)', 'tracing::enabled!(target: "custom::target", tracing::Level::%s, count)'])
        fn = 'fn inv_%d() {\n    c10_rt::answer(%s);\n}\n' % (idx, form % LEVELS[level])
        return fn, 0, 'I q %d ;; ' % level
    nfields = rng.choice([0, 1, 2, 3, 5])
    used = set(); fields = []; descr = []; pre = []; tick = 0
    for _ in range(nfields):
        if rng.random() < 0.1 and 'conn.port' not in used and 'conn.peer.id' not in used:
            # dotted shorthand: a field of a local struct, recorded under its dotted path (with or without a sigil), in any position
            path, v = rng.choice([('conn.port', 5), ('conn.peer.id', 9)])
            used.add(path)
            sig = rng.choice(['', '%', '?', '?'])
            pre.append('let conn = c10_rt::Conn { port: 5, peer: c10_rt::Peer { id: 9 } };')
            fields.append(sig + path)
            descr.append('%s %s #0' % (hx(path), {'': 'v:u8:%d' % v, '%': 'D:%s' % hx(str(v)), '?': 'd:%s' % hx(str(v))}[sig]))
            continue
        r = rng.random()
        if r < 0.55 or not fields: src, name = (lambda n: (n, n))(rng.choice(IDENT_NAMES))      # (a string-literal name cannot come first: it would be read as the format string)
        else: src, name = rng.choice(OTHER_NAMES)
        if name in used: continue
        used.add(name)
        r = rng.random()
        if r < 0.1:
            fields.append('%s = tracing::field::Empty' % src); descr.append('%s e #0' % hx(name))
        elif r < 0.22 and src in IDENT_NAMES:
            # shorthand: a local variable of that name (evaluated outside the macro: not counted)
            sig = rng.choice(['', '%', '?'])
            v = rng.randrange(0, 200)
            pre.append('let %s = %du8;' % (src, v))
            fields.append(sig + src)
            descr.append('%s %s #0' % (hx(name), {'': 'v:u8:%d' % v, '%': 'D:%s' % hx(str(v)), '?': 'd:%s' % hx(str(v))}[sig]))
        else:
            e, spec = gen_value(rng, tick); tick += 1
            fields.append('%s = %s' % (src, e)); descr.append('%s %s #1' % (hx(name), spec))
    # a trailing format-string message (an event needs at least one field or a message)
    # (an explicitly declared field named `message` is an ordinary field: it keeps its place; no format string next to it)
    if (rng.random() < 0.5 or (kind == 'e' and not fields)) and 'message' not in used:
        k = rng.choice([0, 1, 2])
        fmt = ''.join(rng.choice('abc XYZ09:=') for _ in range(rng.choice([1, 6]))); text = fmt; args = []
        for _ in range(k):
            v = rng.randrange(-50, 500)
            fmt += ' {}'; text += ' %d' % v; args.append('tick(%d, %d)' % (tick, v)); tick += 1
        if rng.random() < 0.25:
            pre.append('let cap = 77u16;'); fmt += ' {cap}'; text += ' 77'
        fields.append(', '.join(['"%s"' % fmt] + args)); descr.append('%s m:%s #%d' % (hx('message'), hx(text), k))
    # the prefix combination cycles with the invocation's index (every macro arm is reached in every corpus, whatever the seed):
    # bit 0 target:, bit 1 parent:, bit 2 name: (events written with `event!` only)
    combo = idx % 8
    prefix = []
    if combo & 1: prefix.append('target: "custom::target"')
    if combo & 2: prefix.append('parent: None')
    want_name = bool(combo & 4)
    # a dotted name cannot come FIRST after a prefix at all ("local ambiguity", a compile error): no prefix then
    if (prefix or want_name) and fields and fields[0].lstrip('%?') in ('conn.port', 'conn.peer.id'):
        prefix = []; want_name = False
    # after a `target:` / `parent:` / `name:` prefix the macros have no arm for a LONE bare identifier (it is read as a format
    # string and rejected at compile time): write the shorthand out
    if (prefix or want_name) and len(fields) == 1 and fields[0].lstrip('%?') in IDENT_NAMES:
        fields[0] = '%s = %s' % (fields[0].lstrip('%?'), fields[0])
    body = ', '.join(fields)
    if kind == 'e':
        if want_name: prefix.insert(0, 'name: "ev.name"')
        if (idx // 8) % 2 == 0:
            mac = 'tracing::%s!(%s%s)' % (SHORT_EV[level], ''.join(p + ', ' for p in prefix), body)
        else:
            mac = 'tracing::event!(%stracing::Level::%s%s)' % (''.join(p + ', ' for p in prefix), LEVELS[level], (', ' + body) if body else '')
        if mac.endswith(', )'): mac = mac[:-3] + ')'
        stmt = mac + ';'
    else:
        name_lit = '"span %d"' % idx
        # a span's trailing format string is not a message field: spans take fields only
        if descr and ' m:' in descr[-1]:
            t_removed = int(descr[-1].rsplit('#', 1)[1]); tick -= t_removed
            fields.pop(); descr.pop(); body = ', '.join(fields)
        if rng.random() < 0.4:
            mac = 'tracing::%s_span!(%s%s%s)' % (SHORT_EV[level], ''.join(p + ', ' for p in prefix), name_lit, (', ' + body) if body else '')
        else:
            mac = 'tracing::span!(%stracing::Level::%s, %s%s)' % (''.join(p + ', ' for p in prefix), LEVELS[level], name_lit, (', ' + body) if body else '')
        stmt = 'let _span = %s;' % mac
        # later `Span::record` calls by NAME: a field declared Empty gets its value (visited then, once, under the declared
        # name); a name that is not declared — a different name, or a declared one in another letter case — is ignored
        recs = []
        for d in list(descr):
            nm_hex, spec, _ = d.split()
            nm = bytes.fromhex(nm_hex).decode()
            if spec == 'e' and rng.random() < 0.7 and not nm.startswith('r#'):
                val, vspec = rng.choice([('5u8', 'v:u8:5'), ('true', 'b:1'), ('"rec"', 's:%s' % hx('rec')), ('-7i64', 'v:i64:-7')])
                recs.append('_span.record(%s, %s);' % (rust_str(nm), val)); descr.append('%s %s #0' % (nm_hex, vspec))
        declared = [bytes.fromhex(d.split()[0]).decode() for d in descr]
        if rng.random() < 0.5:
            cand = [n.upper() for n in declared if n.upper() != n and n.upper() not in declared] + [n.capitalize() for n in declared if n.capitalize() != n and n.capitalize() not in declared] + [n for n in ('zzz', 'message', '') if n not in declared]      # (a span may DECLARE a field named `message`: then it is no stranger)
            for u in rng.sample(cand, min(len(cand), rng.choice([1, 2]))):
                recs.insert(rng.randrange(len(recs) + 1), '_span.record(%s, 9u8);' % rust_str(u))
        if recs: stmt += '\n    ' + '\n    '.join(recs)
    fn = 'fn inv_%d() {\n    %s\n    %s\n}\n' % (idx, '\n    '.join(dict.fromkeys(pre)), stmt)
    line = 'I %s %d ;; %s' % (kind, level, ' , '.join(descr))
    return fn, tick, line

def build_corpus(rng, n):
    fns = []; table = []; lines = []
    for i in range(n):
        fn, ticks, line = gen_invocation(rng, i)
        fns.append(fn); table.append('(inv_%d as fn(), %d)' % (i, ticks)); lines.append(line)
    src = '// GENERATED by checks/C10.py from the run\'s seed — do not edit\n#![allow(unused_variables, clippy::all)]\nmod c10_rt;\nuse c10_rt::tick;\n\n' + '\n'.join(fns) + \
          '\nfn main() {\n    c10_rt::run(&[\n        %s\n    ]);\n}\n' % ',\n        '.join(table)
    return src, lines

_LINES = []

def prebuild(tier, seed, rng):
    n = 250 if tier == 'quick' else 2500
    src, lines = build_corpus(rng, n)
    with open(os.path.join(VERIF, 'harness-corpus', 'src', 'c10_main.rs'), 'w') as f: f.write(src)
    open(os.path.join(VERIF, 'harness-corpus', 'src', 'c10_lines.txt'), 'w').write('\n'.join(lines) + '\n')

def gen(rng, tier):
    for l in open(os.path.join(VERIF, 'harness-corpus', 'src', 'c10_lines.txt')):
        l = l.strip()
        if l: yield l

def fields_of(case):
    parts = case.split(';;', 1)
    body = parts[1].strip() if len(parts) > 1 else ''
    return [f.split() for f in body.split(' , ')] if body else []

def judge(case, out):
    """independent of the model: under the enabling regime every declared, set field is visited once with the literal's value (message
    first), and every counted expression ran exactly once; under the three disabling regimes nothing is visited and nothing is evaluated"""
    regs = out.split(' / ')
    if len(regs) != 4: return 'bad shape'
    level = int(case.split()[2])
    if case.split()[1] == 'q':
        for k, r in enumerate(regs):
            want = 1 if ((k == 0) or (k == 3 and level <= 2)) else 0
            if r != 'v=71:enabled:%d|e=-' % want: return 'bad enabled!-answer regime=%d %s' % (k, r)
        return 'ok'
    fields = fields_of(case)
    nticks = sum(int(f[2][1:]) for f in fields)
    for k, r in enumerate(regs):
        v, e = r[2:].split('|e=')
        counts = [] if e == '-' else [int(x) for x in e.split(',')]
        enabled = (k == 0) or (k == 3 and level <= 2)
        if len(counts) != nticks: return 'bad tick-count'
        if enabled:
            if any(c != 1 for c in counts): return 'bad evaluated-not-once regime=%d %s' % (k, e)
            ents = [] if v == '-' else v.split(';')
            lv = [x for x in ents if x.split(':')[1] == 'level']
            if lv != ['6c766c:level:%d' % level]: return 'bad level-handed-to-the-collector regime=%d %s (written: %d)' % (k, lv, level)
            v = ';'.join(x for x in ents if x.split(':')[1] != 'level') or '-'
            names = [] if v == '-' else [x.split(':')[0] for x in v.split(';')]
            want = [f[0] for f in fields if f[1].startswith('m:')] + [f[0] for f in fields if not f[1].startswith('m:') and f[1] != 'e']
            if names != want: return 'bad names-or-order regime=%d got=%s want=%s' % (k, names, want)
            vals = {x.split(':')[0]: x.split(':')[2] for x in ([] if v == '-' else v.split(';'))}
            for f in fields:
                spec = f[1]
                while spec.startswith('w:'): spec = spec[2:]
                if spec[0] in 'vz' and vals.get(f[0]) != spec.split(':')[2]: return 'bad value %s' % f[0]
                if spec[0] in 'sSyrDdm' and vals.get(f[0]) != spec.split(':')[1]: return 'bad text %s' % f[0]
        else:
            if v != '-' or any(c != 0 for c in counts): return 'bad disabled-but-evaluated regime=%d' % k
    return 'ok'

def nontrivial(case, out):
    return case.count(' , ') >= 1 and ('m:' in case or ':D:' in case or ' D:' in case)

def classify(stream, case, out):
    t = case.split()
    specs = [f[1] for f in fields_of(case)]
    kinds = ''.join(sorted(set(s[0] for s in specs)))
    return '%s level=%s fields=%d kinds=%s' % ({'e': 'event', 's': 'span', 'q': 'enabled!'}[t[1]], t[2], len(specs), kinds)

_s = Stream('corpus', 'c10_corpus', gen=gen, nontrivial=nontrivial, crate='harness-corpus', bulk=True)
_s.py_judge = judge

PROPERTY = {
    'manifest': {
        'text': "Lean 4 theorems over a model of what the span/event macros present to a visitor, whose type-to-visitor-method table is EXTRACTED from tracing-core/src/field.rs on every run (impl_values!, the macro arms, the "
                "hand-written Value impls): typed_dispatch (for every row of the generated table and EVERY value of the source integer type the visitor method is the declared one and the presented value equals the source "
                "value; NonZero / Wrapping / & / Box delegate), names_in_order and value_alignment (any number of field forms: visited names = message first, then the declared names, once each, each under its own value), "
                "empty_not_visited, eval_once_or_never (enabled: every counted expression once; disabled by static interest, dynamic enabled() or the level cap: zero). The model is compared with a corpus of macro invocations "
                "GENERATED from the seed and COMPILED against the real macros on every run (event!/span!/level shorthands, prefixes, every field form, all integer widths at their extremes, floats incl. NaN/inf, bools, "
                "hostile strings, bytes, errors, Display/Debug sigils, Empty, shorthand, format-string messages with arguments and captures), run under four collector regimes with a typed recording visitor.",
        'note': "Trusted: Lean kernel; propext/Classical.choice/Quot.sound; f32->f64 widening is exact (IEEE; the expected f64 bits are computed by the generator); Debug/Display texts of the operands of the sigils are "
                "computed by the generator for a safe alphabet; the token-munching of fieldset!/valueset! itself is tied by the compiled corpus, not translated; `log` feature off (with it on the disabled branch evaluates fields "
                "for the log record: C18); enabled! and Span::record on undeclared names are not in the corpus.",
        'technique': 'Lean 4 proof (integer-range arithmetic over a generated dispatch table; list lemmas) + generated, compiled macro corpus diffed against the model, plus a literal-value judge',
    },
    'lean_module': 'TracingModel.Props.C10',
    'namespace': 'C10',
    'units': ['ValueTable'],
    'required_theorems': ['C10.table_facts', 'C10.typed_dispatch', 'C10.names_in_order', 'C10.value_alignment', 'C10.empty_not_visited', 'C10.eval_once_or_never', 'C10.every_set_field_visited', 'C10.visited_exactly_once'],
    'streams': [_s],
    'rule': 'one case = one generated macro invocation (compiled): event!/span!/error!…trace!/error_span!…, optional target:/parent:/name: prefixes, 0-5 fields in the forms name = value, %/? sigils, shorthand '
            'identifiers (with sigils), dotted, raw-identifier and string-literal names (incl. names beginning with % or ?), Empty, plus a trailing format string with 0-2 arguments and an implicit capture; values of every '
            'integer width at both extremes, NonZero, Wrapping/&/Box, floats, bools, strings over a hostile alphabet, byte slices, error values; every value expression wrapped in an evaluation counter; each invocation runs '
            'under four collectors (enable, static never, dynamic false, level cap WARN). compared = visited (name, method, value) lists and evaluation counts per regime. non-trivial = two or more fields with a message or a sigil',
    'trusted_base': ['translator unit ValueTable', 'hand-written model Core/Macros.lean', 'generated corpus crate harness-corpus (fixed runtime c10_rt.rs)', 'python judge on literal values'],
    'assumptions': ['default features (log off)'],
}
