"""C08 — static summaries of filters (interest, max-level hint) are sound upper bounds."""
from checklib.main import Stream
import re
from checks.C11 import gen_string, hx

def gen_leaf(rng):
    r = rng.random()
    if r < 0.25: return ['L%d' % rng.randrange(0, 6)]
    if r < 0.40: 
        while True:
            # (also tables with field-name directives, `target[{field}]=level`: they apply to callsites declaring the field)
            s = gen_string(rng, rng.random() < 0.4)
            # only strings the Targets parser accepts and that contain no empty level / level-named target
            if all(p and not p.endswith('=') and p.count('=') <= 1 for p in s.split(',')) and not any(c in s for c in ' +') and \
               all((p.split('=')[1].lower() in ('off','error','warn','info','debug','trace') or p.split('=')[1] in '012345') for p in s.split(',') if '=' in p) and \
               all(p.split('=')[0].lower() not in ('off','error','warn','info','debug','trace') and not p.split('=')[0].isdigit() for p in s.split(',')):
                return ['T' + hx(s)]
    if r < 0.60:
        k = rng.randrange(1, 6)
        hint = rng.choice(['-', str(k), str(min(5, k + 1)), '5'])
        return ['F%d%dh%s' % (rng.randrange(3), k, hint)]
    if r < 0.90:
        k = rng.randrange(1, 6)
        hint = rng.choice(['-', str(k), str(min(5, k + 1))])
        return ['D%dh%sc%s' % (k, hint, rng.choice(['-', 'g']))]
    return ['N']

def gen_expr(rng, depth):
    if depth == 0 or rng.random() < 0.25:
        return gen_leaf(rng)
    r = rng.random()
    if r < 0.30: return ['&'] + gen_expr(rng, depth - 1) + gen_expr(rng, depth - 1)
    if r < 0.60: return ['|'] + gen_expr(rng, depth - 1) + gen_expr(rng, depth - 1)
    if r < 0.75: return ['!'] + gen_expr(rng, depth - 1)
    if r < 0.85: return ['S'] + gen_expr(rng, depth - 1)
    if r < 0.93: return ['R'] + gen_expr(rng, depth - 1)
    return ['B'] + gen_expr(rng, depth - 1)

def gen(rng, tier):
    n = 500 if tier == 'quick' else 15000
    d = 4 if tier == 'quick' else 6
    for _ in range(n):
        yield 'X ' + ' '.join(gen_expr(rng, rng.randrange(0, d + 1)))

def level_of_index(i):
    # universe order: target-major, then rank 1..5, then kind, then 4 field sets
    return (i // 8) % 5 + 1

def judge(case, out):
    """the property's three implications evaluated on the implementation's own answers"""
    if not out.startswith('ok'):
        return 'bad ' + out[:40]
    _, cs, hint, e0, e1 = out.split()
    for i, c in enumerate(cs):
        for e in (e0, e1):
            if c == 'n' and e[i] == '1': return 'bad never-but-delivered@%d' % i
            if c == 'a' and e[i] == '0': return 'bad always-but-rejected@%d' % i
            if hint != '-' and e[i] == '1' and level_of_index(i) > int(hint): return 'bad delivered-above-hint@%d' % i
    return 'ok'

def nontrivial(case, out):
    if not out.startswith('ok'): return False
    cs = out.split()[1]
    return len(case.split()) >= 4 and len(set(cs)) >= 2

def classify(stream, case, out):
    t = case.split()
    return 'depth~%d dyn=%s not=%s' % (min(6, sum(1 for x in t if x in '&|!SRB')), 'y' if any(x.startswith('D') for x in t) else 'n', 'y' if '!' in t else 'n')

_st = Stream('expr', 'h_filters', gen=gen, nontrivial=nontrivial)
_st.py_judge = judge

# whole stacks: the C07 stack generators, but the front end also applies the macros' first gate — the level against
# the max-level hint the stack published when its dispatcher was built (TV_HINT_GATE).  What each layer then receives
# is compared with the model and with the summary-free specification `shouldReceive`: an unsound stack hint or
# stack interest (pick_level_hint, pick_interest, Filtered/FilterState interest merging) loses a delivery.
def _c07(name):
    import importlib
    return getattr(importlib.import_module('checks.C07'), name)
def _gen_stack(rng, tier):
    n = 600 if tier == 'quick' else 15000
    g = _c07('gen')(rng, 'thorough')
    for _ in range(n): yield next(g)
def _gen_chain(rng, tier):
    n = 1200 if tier == 'quick' else 30000
    g = _c07('gen_chain')(rng, 'thorough')
    for _ in range(n): yield next(g)
_sk = Stream('stack', 'h_layers', mode='modelstack', gen=_gen_stack, nontrivial=lambda c, o: _c07('nontrivial')(c, o), spec_mode='spec')
_sk.env = {'TV_HINT_GATE': '1'}
_sk.model_case = lambda case: _c07('strip_vec')(case)      # (C07's stacks may put neighbouring layers into one Vec)
def _gen_wrapped(rng, tier):
    # stacks with pass-through wrappers (Box, Some, vec![_], reload, and_then(Identity)), `None` layers and empty Vecs inside the
    # and_then tree: their placeholder hints (`Some(OFF)` for a None layer) must not leak into the stack's hint
    import importlib
    g = importlib.import_module('checks.C09').gen_wrapped(rng, 'thorough')
    def no_reload_around_filtered(case):
        # documented limitation (reload.rs, module docs): a reload::Subscriber cannot be downcast through, so a per-layer-filtered
        # layer wrapped in one is not recognised as such — "prefer wrapping the Filter": such stacks are not generated here
        st, ops = case.split(' ;; ')
        toks = [(':'.join(p for p in t.split(':')[:-1] if p != 'r') + ':' + t.split(':')[-1]).lstrip(':')
                if (':' in t and t.split(':')[-1][:1] == 'F' and t.split(':')[-1][1:].isdigit()) else t for t in st.split()]
        # F32 (confirmed, recorded in DESIGN.md 7 / 12.7, not modelled here): an `Option::None` layer inside an and_then tree makes the
        # tree count as NOT per-layer-filtered, so a sibling filtered layer's hint caps the others.  Until the tree-hint model has
        # None nodes, None layers are generated only in stacks without per-layer-filtered layers.
        if any(t.split(':')[-1][:1] == 'F' and t.split(':')[-1][1:].isdigit() for t in toks):
            toks = [t for t in toks if t not in ('none', 'empty')]
        return ' '.join(toks) + ' ;; ' + ops
    for _ in range(600 if tier == 'quick' else 15000): yield no_reload_around_filtered(next(g))
_sw = Stream('stackwrapped', 'h_layers', mode='modelstack', gen=_gen_wrapped,
             nontrivial=lambda c, o: (':' in c.split(' ;; ')[0] or 'none' in c or 'empty' in c) and any(len(t) > 2 for t in o.split()), spec_mode='spec')
_sw.env = {'TV_HINT_GATE': '1'}
def _gen_treehint(rng, tier):
    # the hint itself, for stacks with wrappers AND absent subscribers anywhere (no restriction): compared with the tree-hint model
    # with None operands (Core/TreeHint) and judged for soundness against what the layers would receive
    import importlib
    g = importlib.import_module('checks.C09').gen_wrapped(rng, 'thorough')
    def strip_r(t):
        # (a reload::Subscriber around a per-layer-filtered layer hides the filter from the hint merge: documented limitation)
        if ':' in t and re.fullmatch(r'F\d+', t.split(':')[-1]):
            pre = [p for p in t.split(':')[:-1] if p != 'r']
            return ':'.join(pre + [t.split(':')[-1]])
        return t
    for _ in range(800 if tier == 'quick' else 20000):
        yield 'H ' + ' '.join(strip_r(t) for t in next(g).split(' ;; ')[0].split())
_th = Stream('treehint', 'h_layers', mode='modelhint', gen=_gen_treehint,
             nontrivial=lambda c, o: ('none' in c.split() or 'empty' in c.split() or ':' in c) and o.startswith('h:') and o != 'h:5', spec_mode='spechint')

def attribute(stream, case, impl, model, why):
    # F32: an absent subscriber (None / empty Vec) next to per-layer-filtered layers in an and_then tree
    t = case.split()
    if stream == 'treehint' and why.endswith('!unsound') and ('none' in t or 'empty' in t) and any(re.fullmatch(r'(\w:)*F\d+', x) for x in t):
        return 'F32'
    # F8: a SPAN callsite that a span-scoped directive of the env-filter cares about is answered `always` whatever its level
    if stream == 'envleaf' and 'always-but-rejected' in why and why.split()[-1] == 's':
        return 'F8'
    return None

_sc = Stream('stackchain', 'h_chain', mode='modelchain', gen=_gen_chain, nontrivial=lambda c, o: _c07('nontrivial')(c, o), spec_mode='spec')
_sc.env = {'TV_HINT_GATE': '1'}

# ---- the env-filter with span-scoped directives, asked directly: summary (register_callsite) against decision (enabled)
from checks import C11 as _c11
def gen_envleaf(rng, tier):
    n = 300 if tier == 'quick' else 8000
    for _ in range(n):
        case = _c11.gen_dyn_case(rng)
        head, ops = case.split(' ;; ')
        ops = [o for o in ops.split(' ; ') if o.strip()]
        out = []
        for op in ops:
            out.append(op)
            if rng.random() < 0.35:
                kind = rng.choice(['s', 's', 'e'])
                name = rng.choice(_c11.DYN_SPANS) if kind == 's' else 'event'
                out.append('qi %s %s %s %d %s' % (kind, name, rng.choice(_c11.DYN_TARGETS), rng.randrange(1, 6), rng.choice(_c11.DYN_FIELDSETS)))
        if not any(o.startswith('qi ') for o in out): out.append('qi s req app 4 -')
        yield head + ' ;; ' + ' ; '.join(out)

def judge_envleaf(case, out):
    ops = case.split(' ;; ')[1].split(' ; '); outs = out.split(' ')
    if len(ops) != len(outs): return 'bad ' + out[:60]
    for k, (op, o) in enumerate(zip(ops, outs)):
        if not op.startswith('qi '): continue
        if o.startswith('i:n') and o.endswith('q:1'): return 'bad never-but-accepted@%d' % k
        if o.startswith('i:a') and o.endswith('q:0'): return 'bad always-but-rejected@%d %s' % (k, op.split()[1])
    return 'ok'

_envleaf = Stream('envleaf', 'h_envdyn', mode='modeldyn', gen=gen_envleaf,
                  nontrivial=lambda case, out: 'i:a' in out and 'q:0' in out and ' en ' in case)
_envleaf.py_judge = judge_envleaf
_envleaf.valid_case = _c11.valid_dyn

PROPERTY = {
    'manifest': {
        'text': "Lean 4 theorems by structural induction over filter expressions of ANY depth (level thresholds, target tables, FilterFn/DynFilterFn with honest hints, Option, and/or/not, reload, Box): "
                "callsite_enabled = never implies no context enables it, = always implies every context enables it (interest_sound), and whatever is enabled has level <= max_level_hint (hint_sound, using C11's "
                "most_specific_wins for target tables). The transcribed combinators are compared with the real FilterExt combinators on random expressions over a 280-point metadata universe in two contexts, "
                "observing real delivery to a filtered layer, and the three implications are judged on the implementation's own answers. Whole stacks: stack_interest_sound (pick_interest + FilterState interest "
                "accumulation) and stack_hint_sound (pick_level_hint) over stacks of plain / global-filter / per-layer-filtered layers; real stacks (and_then trees and .with() chains) are driven through a front end that applies "
                "the macros' gates — level against the published max-level hint, then the cached interest — and what every layer receives is compared with the model and with the summary-free specification. Trees with absent subscribers: the hint merge with "
                "`Option::None` layers, empty Vecs and the pass-through wrappers is modelled operand by operand (Core/TreeHint: hint, counts-as-per-layer-filtered, counts-as-absent), agrees with the proved model where no "
                "subscriber is absent (tree_agrees, stack_agrees), is compared with the hint the real stack publishes on every generated wrapped stack, and judged for soundness; the unsound region is finding F32 (f32_witness).",
        'note': "Trusted: Lean kernel; propext/Classical.choice/Quot.sound; user closures are honest as the code's own debug_assert!s demand (hypothesis Honest); EnvFilter with span-scoped directives as a leaf is not in the expression model (C11 models the filter itself); pass-through wrappers, None "
                "layers and empty Vecs are erased by the stack model and exercised by stream stackwrapped (in the delivery stream None / empty layers only in stacks without per-layer-filtered layers; the treehint stream has them everywhere and reproduces finding F32). "
                "Repaired on the way: F31 (an empty Vec capped its neighbours' hint at OFF). Known findings F6 (Vec register_callsite), F8 (EnvFilter [span]=level) are stack/EnvFilter-level.",
        'technique': 'Lean 4 proof (structural induction on the expression type) + differential run against the real combinators',
    },
    'lean_module': 'TracingModel.Props.C08E',
    'leanchecker_modules': ['TracingModel.Props.C08', 'TracingModel.Props.C08S', 'TracingModel.Props.C08T'],
    'namespace': 'C08',
    'units': ['Forwarding'],
    'required_theorems': ['C08.vec_psf_needs_every_member', 'C08.interest_sound', 'C08.hint_sound', 'C08.stack_interest_sound', 'C08.stack_hint_sound', 'C08.tree_agrees', 'C08.stack_agrees', 'C08.f32_witness',
                          'C08.env_never_sound', 'C08.env_always_sound_partial', 'C08.f8_witness', 'C08.f33_repaired'],
    'streams': [_st, _sk, _sc, _sw, _th, _envleaf],
    'rule': 'random filter expressions (depth <= 4 quick / 6 thorough) over level thresholds, Targets strings, static closures with/without (honest) hints, context-dependent closures with/without hint and callsite closure, '
            'None/Some, and/or/not, reload and Box wrappers; each evaluated on 7 targets x 5 levels x span/event x 4 field sets in two contexts through the real Filtered layer; non-trivial = at least 2 operators/leaves and >=2 distinct interests. Streams stack / stackchain: the stack and history generators of C07 with the max-level-hint gate switched on in the front end; non-trivial as in C07',
    'trusted_base': ['hand-written model Core/FilterExpr.lean', 'executor h_filters (builds Box<dyn Filter> trees with the real FilterExt combinators)', 'hand-written models Core/Filtering.lean, Core/Reload.lean (stackInterest, stackHint)', 'executors h_layers, h_chain with TV_HINT_GATE'],
    'assumptions': ['closure hints are honest (generated so)'],
}
