"""History generator shared by C01 / C02 / C04 (core dispatch + callsite cache)."""
NCS = 30
def lvl(i): return i // 6 + 1

def gen_filter(rng):
    """self-consistent filter: (stat, dyn, hint) strings.  hint is a true upper bound of every callsite whose
    static interest is not `never`."""
    kind = rng.choice(['thresh_static', 'thresh_dynamic', 'mixed', 'all', 'nothing', 'mixed'])
    H = rng.randrange(1, 6)
    targets = [rng.random() < 0.7 for _ in range(3)]
    stat = []; dyn = []
    for i in range(NCS):
        tgt = (i // 2) % 3
        want = lvl(i) <= H and targets[tgt]
        if kind == 'all':
            s, d = 'a', '1'
        elif kind == 'nothing':
            s, d = 'n', '0'
        elif kind == 'thresh_static':
            s, d = ('a' if want else 'n'), ('1' if want else '0')
        elif kind == 'thresh_dynamic':
            s, d = ('s' if lvl(i) <= H else 'n'), ('1' if want else '0')
        else:
            if lvl(i) > H:
                s, d = 'n', '0'
            else:
                s = rng.choice('asn' if rng.random() < 0.5 else 'ssan')
                d = rng.choice('01')
        stat.append(s); dyn.append(d)
    mx = max([lvl(i) for i in range(NCS) if stat[i] != 'n'] or [0])
    hint = rng.choice(['-', '-', str(mx), str(mx), str(min(5, mx + 1)), '5'])
    return ''.join(stat), ''.join(dyn), hint

import re
def model_case(case):
    """`wc t c i` (an emission inside a future carrying collector c, polled on thread t) is `sd t c ; em t i ; pd t` to the model"""
    # a `&'static` collector (Dispatch::from_static) is a collector that lives for ever: dropping the program's handle to it
    # changes nothing (to the model: the handle is never dropped)
    static_ids = set(re.findall(r'\bncs (\d+)', case))
    if static_ids:
        case = ' ; '.join(op for op in case.split(' ; ') if not (op.split()[:1] == ['dh'] and op.split()[1] in static_ids))
    case = re.sub(r'\bncs (\d+)', r'nc \1', case)
    # `sgn t`: the collector that discards everything as global default = a collector (number 9) that refuses every callsite
    case = re.sub(r'\bsgn (\d+)', lambda m: 'nc 9 %s %s - ; sg %s 9' % ('n' * NCS, '0' * NCS, m.group(1)), case)
    return re.sub(r'wc (\d+) (\d+) (\d+)', r'sd \1 \2 ; em \1 \3 ; pd \1', case)

def gen_history(rng, nops, style='cache', static=5):
    ops = ['static=%d' % static]
    handles = set(); created = 0; nthreads = 1; statics = set()
    depth = {0: 0}
    global_set = False
    def emit_some(k):
        for _ in range(k):
            t = rng.randrange(nthreads)
            cs = rng.randrange(NCS)
            ops.append('%s %d %d' % ('sp' if cs % 2 else 'em', t, cs))
    w_scope = 3 if style == 'scope' else 1
    while len(ops) < nops:
        r = rng.random()
        if r < 0.10 and created < 6:
            created += 1
            # (style 'scope' = C02: which collector an emission goes to; its collectors accept everything, so that the
            #  verdict does not depend on filtering and caching, which are C01's subject)
            st, dy, h = gen_filter(rng) if style != 'scope' else ('a' * NCS, '1' * NCS, '-')
            kindw = 'ncs' if (style == 'scope' and rng.random() < 0.3) else 'nc'
            if kindw == 'ncs': statics.add(created)
            ops.append('%s %d %s %s %s' % (kindw, created, st, dy, h)); handles.add(created)
        elif r < 0.14 and handles:
            c = rng.choice(sorted(handles))
            if c not in statics: handles.discard(c); ops.append('dh %d' % c)      # (the handle to a `&'static` collector is kept)
        elif style == 'scope' and handles and rng.random() < 0.08:
            # a scope in its third form: a future carrying its own collector, polled on some thread
            ops.append('wc %d %d %d' % (rng.randrange(nthreads), rng.choice(sorted(handles)), rng.randrange(NCS)))
        elif r < 0.14 + 0.10 * w_scope and (handles or rng.random() < 0.05):
            t = rng.randrange(nthreads)
            c = rng.choice(sorted(handles)) if handles and rng.random() < 0.97 else rng.randrange(1, 8)
            ops.append('sd %d %d' % (t, c))
            if c in handles: depth[t] += 1
        elif r < 0.14 + 0.18 * w_scope:
            t = rng.randrange(nthreads)
            if depth[t] > 0 or rng.random() < 0.05:
                if depth[t] > 1 and rng.random() < 0.25 and style == 'scope':     # scopes left by unwinding belong to C02
                    k = rng.randrange(1, depth[t] + 1); ops.append('pp %d %d' % (t, k)); depth[t] -= k
                else:
                    ops.append('pd %d' % t); depth[t] = max(0, depth[t] - 1)
        elif r < 0.14 + 0.18 * w_scope + 0.03 and handles:
            if not global_set or rng.random() < 0.3:
                if style == 'scope' and not global_set and rng.random() < 0.35:
                    ops.append('sgn %d' % rng.randrange(nthreads)); global_set = True       # NoCollector through tracing::collect::set_global_default
                else:
                    c = rng.choice(sorted(handles)); ops.append('sg %d %d' % (rng.randrange(nthreads), c)); global_set = True
        elif r < 0.14 + 0.18 * w_scope + 0.06 and nthreads < 4:
            ops.append('ts'); depth[nthreads] = 0; nthreads += 1
        elif r < 0.14 + 0.18 * w_scope + 0.09:
            ops.append('rb')
        elif r < 0.14 + 0.18 * w_scope + 0.14 and created and style != 'scope':
            ops.append('fl %d %d' % (rng.randrange(1, created + 1), rng.randrange(NCS)))
        elif r < 0.14 + 0.18 * w_scope + 0.17:
            ops.append('cur')
        else:
            emit_some(rng.randrange(1, 4))
    return ' ; '.join(ops)

def stats(case, out):
    toks = out.split()
    return {'delivered': sum(1 for t in toks if t.startswith('c')), 'suppressed': toks.count('-'),
            'collectors': case.count('; nc '), 'drops': case.count('; dh '), 'flips': case.count('; fl '),
            'scopes': case.count('; sd '), 'threads': 1 + case.count('; ts'), 'global': case.count('; sg ')}
