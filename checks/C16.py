"""C16 — rolling appender: a write lands in its period's file; only the oldest are pruned."""
import calendar, datetime
from checklib.main import Stream

def hx(s): return s.encode().hex()
def unix(y, mo, d, h=0, mi=0, s=0): return calendar.timegm((y, mo, d, h, mi, s))

ANCHORS = [unix(2024, 2, 28, 23, 59, 58), unix(2023, 2, 28, 23, 59, 30), unix(2023, 12, 31, 23, 59, 0), unix(2000, 2, 29, 12, 0, 0), unix(1970, 1, 1, 0, 0, 0),
           unix(2038, 1, 19, 3, 14, 7), unix(2100, 2, 28, 23, 59, 59), unix(9999, 12, 1, 23, 58, 0), unix(2024, 6, 30, 23, 59, 59), unix(2021, 3, 1, 0, 0, 0)]
TMAX = unix(9999, 12, 29)      # the `time` crate cannot represent year 10000: deadlines must stay within 9999
PERIOD = {'m': 60, 'h': 3600, 'd': 86400, 'n': 86400}

def gen_case(rng):
    rot = rng.choice(['m', 'm', 'h', 'd', 'n'])
    pre = rng.choice(['-', hx('app'), hx('my.app'), hx('log')])
    suf = rng.choice(['-', hx('log'), hx('txt')])
    if rot == 'n' and pre == '-' and suf == '-': pre = hx('app')
    mx = rng.choice(['-', '-', '1', '2', '3', '5'])
    P = PERIOD[rot]
    t = rng.choice(ANCHORS + [rng.randrange(0, 4102444800)])       # (the `time` crate cannot represent year 10000: the last days of 9999 are not generated)
    t0 = t
    ops = []; n = 0
    for _ in range(rng.choice([6, 12, 24])):
        r = rng.random()
        if r < 0.30:
            # step the clock: within the period, exactly onto the boundary, just past it, several periods, or (rarely) backwards
            k = rng.random()
            if k < 0.3: t += rng.randrange(0, max(1, P // 3))
            elif k < 0.5: t = (t // P + 1) * P
            elif k < 0.65: t = (t // P + 1) * P + rng.choice([0, 1, P - 1])
            elif k < 0.8: t += P * rng.randrange(2, 50) + rng.randrange(P)
            elif k < 0.9: t = max(t0, t - rng.randrange(0, 2 * P))         # backwards, never before the first instant
            else: t += 0
            t = min(t, TMAX)
            ops.append('t %d' % t)
        elif r < 0.75:
            ops.append('%s %s' % (rng.choice(['w', 'w', 'mw']), hx('line%d\n' % n))); n += 1
        elif r < 0.80: ops.append('ls')
        elif r < 0.85 and rot != 'n':
            # a writer handed out by make_writer() is still alive on another thread when the next make_writer() crosses a boundary
            ops.append('hold %s' % hx('line%d\n' % n)); n += 1
            t = min((t // P + 1) * P + rng.choice([0, 7]), TMAX) if rng.random() < 0.8 else t
            ops.append('t %d' % t)
            # (one waiting make_writer only: a second one could lose the election and legitimately write into the file being replaced)
            ops.append('mwb %s' % hx('line%d\n' % n)); n += 1
            ops.append('rel')
        elif r < 0.9 and rot != 'n':
            t = min((t // P + 1) * P + rng.choice([0, 0, 5]), TMAX)
            ops.append('t %d' % t); ops.append('par %d' % rng.randrange(2, 9))
    ops.append('ls')
    return 'rot=%s pre=%s suf=%s max=%s t0=%d ;; %s' % (rot, pre, suf, mx, t0, ' ; '.join(ops))

def gen(rng, tier):
    n = 300 if tier == 'quick' else 6000
    for _ in range(n):
        yield gen_case(rng)

def name_for(rot, pre, suf, t):
    dt = datetime.datetime(1970, 1, 1) + datetime.timedelta(seconds=t)
    date = {'m': '%04d-%02d-%02d-%02d-%02d' % (dt.year, dt.month, dt.day, dt.hour, dt.minute), 'h': '%04d-%02d-%02d-%02d' % (dt.year, dt.month, dt.day, dt.hour)}.get(rot, '%04d-%02d-%02d' % (dt.year, dt.month, dt.day))
    parts = ([bytes.fromhex(pre).decode()] if pre != '-' else []) + ([date] if rot != 'n' or (pre == '-' and suf == '-') else []) + ([bytes.fromhex(suf).decode()] if suf != '-' else [])
    return '.'.join(parts)

def judge(case, out):
    """the property's oracle with an independent calendar (python datetime): in histories whose clock never steps back, after the
    last op every line is stored exactly once — in the file named for the period of its write unless pruned — and at most `max` files exist"""
    head, opsS = case.split(' ;; ')
    kv = dict(x.split('=') for x in head.split())
    rot, pre, suf, mx = kv['rot'], kv['pre'], kv['suf'], kv['max']
    ops = opsS.split(' ; '); outs = out.split(' ')
    if out.startswith('CRASH') or out == 'TIMEOUT': return 'bad ' + out[:80]
    if len(ops) != len(outs): return 'bad shape'
    t = int(kv['t0']); tmax = t; backwards = False
    expected = {}     # line -> file name
    for op in ops:
        a = op.split()
        if a[0] == 't':
            t = int(a[1])
            if t < tmax: backwards = True
            tmax = max(tmax, t)
        elif a[0] in ('w', 'mw', 'hold', 'mwb'):
            expected[bytes.fromhex(a[1]).decode()] = name_for(rot, pre, suf, t)
        elif a[0] == 'par':
            for i in range(int(a[1])): expected['P%d\n' % i] = name_for(rot, pre, suf, t)     # (same names reused by later par ops: last wins)
    final = outs[-1]
    files = {}
    if final != '-':
        for ent in final.split(','):
            n, c = ent.split('=')
            files[bytes.fromhex(n).decode()] = '' if c == '-' else bytes.fromhex(c).decode()
    if mx != '-' and len(files) > int(mx): return 'bad more-than-max-files %d>%s' % (len(files), mx)
    stored = {}
    for fname, content in files.items():
        for ln in content.splitlines(True):
            if ln in stored and not ln.startswith('P'): return 'bad duplicated-line ' + repr(ln)
            stored[ln] = fname
    if backwards or rot == 'n': return 'ok'
    for ln, fname in expected.items():
        if ln.startswith('P'): continue
        if ln in stored and stored[ln] != fname: return 'bad wrong-file line=%r in=%s expected=%s' % (ln, stored[ln], fname)
        if ln not in stored and mx == '-': return 'bad lost-line ' + repr(ln)
    return 'ok'

def nontrivial(case, out):
    return out.split(' ')[-1].count('=') >= 2 and ('max=-' not in case)

def classify(stream, case, out):
    kv = dict(x.split('=') for x in case.split(' ;; ')[0].split())
    return 'rot=%s pre=%s suf=%s max=%s par=%s' % (kv['rot'], 'y' if kv['pre'] != '-' else 'n', 'y' if kv['suf'] != '-' else 'n', kv['max'], 'y' if 'par ' in case else 'n')

def _parse_ls(tok):
    files = {}
    if tok != '-':
        for ent in tok.split(','):
            n, c = ent.split('=')
            files[bytes.fromhex(n).decode()] = (b'' if c == '-' else bytes.fromhex(c)).decode().splitlines(True)
    return files

def model_match(case, model, impl):
    """The model linearises a `par` step as "rotate, then every thread writes".  The real threads that lose the election (or
    arrive after the deadline moved) take the writer without waiting for the winner's refresh, so their lines may still land in
    the file being replaced — which the property allows ("may still land in the file being replaced") — and share that file's
    fate when the limit prunes it.  Everything else must be equal: tokens, file names, every non-`par` line, and each `par`
    line exactly once in the new file or the replaced one (absent only if the replaced file is no longer listed)."""
    if model == impl: return True
    head, opsS = case.split(' ;; ')
    kv = dict(x.split('=') for x in head.split())
    rot = kv['rot']
    mt, it = model.split(' '), impl.split(' ')
    ops = opsS.split(' ; ')
    if len(mt) != len(it) or len(mt) != len(ops) or rot == 'n': return False
    P = PERIOD[rot]
    t = int(kv['t0']); deadline = (t // P + 1) * P; cur = name_for(rot, kv['pre'], kv['suf'], t)
    steps = []        # (replaced file, new file, n) of every rotating par step so far
    for op, m, a in zip(ops, mt, it):
        w = op.split()
        if w[0] == 't': t = int(w[1])
        if w[0] in ('w', 'mw', 'par', 'mwb', 'hold') and t >= deadline:       # (every op that takes a writer may rotate)
            new = name_for(rot, kv['pre'], kv['suf'], t)
            if w[0] == 'par': steps.append((cur, new, int(w[1])))
            cur = new; deadline = (t // P + 1) * P
        if w[0] != 'ls':
            if m != a: return False
            continue
        mf, af = _parse_ls(m), _parse_ls(a)
        if sorted(mf) != sorted(af): return False
        diff = {}       # (file, line) -> impl count - model count
        for f in mf:
            if [l for l in mf[f] if not l.startswith('P')] != [l for l in af[f] if not l.startswith('P')]: return False
            for l in af[f]:
                if l.startswith('P'): diff[(f, l)] = diff.get((f, l), 0) + 1
            for l in mf[f]:
                if l.startswith('P'): diff[(f, l)] = diff.get((f, l), 0) - 1
        for old, new, n in steps:
            for i in range(n):
                l = 'P%d\n' % i
                if diff.get((new, l), 0) < 0 and (old not in mf or diff.get((old, l), 0) > 0):
                    diff[(new, l)] += 1
                    if old in mf: diff[(old, l)] -= 1
        if any(v != 0 for v in diff.values()): return False
    return True

_s = Stream('clock', 'h_rolling', gen=gen, per_process=True, nontrivial=nontrivial)
_s.py_judge = judge
_s.model_match = model_match

PROPERTY = {
    'manifest': {
        'text': "Lean 4 theorems over a model of the rolling appender (deadline arithmetic, file names as a function of the period index, should_rollover / advance_date / refresh_writer / prune_old_logs): round_is_floor, "
                "lands_in_period (for every rotation with a period, every prefix/suffix/limit and EVERY history whose clock does not step back out of the open period — exact boundaries, multi-period jumps, any calendar date — "
                "each write is appended to the file named for the period containing its time), no_rotation_backwards, never_is_one_file, one_rotation (of any number of compare-exchanges on one expired deadline exactly the "
                "first succeeds), names_injective (two instants get the same file name exactly when they lie in the same period: the day-number to year-month-day conversion is injective — every day of the 400-year era checked by kernel evaluation and lifted to all days —, padded decimals determine their value and the dashes split the name unambiguously) with same_file_iff_same_period, prune_bound (at most max-1 of the appender's files survive the prune step, so at most max after the rotation) and prune_oldest_first. Facts about rolling.rs (deadline from NOW, CAS, prune "
                "arithmetic and order, date formats) are extracted on every run. The model is compared with the real appender under a scripted clock (hook) over a scratch directory, through both the Write and the MakeWriter "
                "interface and with 2-8 threads released at one boundary; an independent calendar (python datetime) judges names, uniqueness of stored lines and the file limit.",
        'note': "Trusted: Lean kernel; propext/Classical.choice/Quot.sound; the file system (creation timestamps strictly increasing: the executor spaces file-creating operations by 12 ms, more than a kernel tick; append-mode writes are whole); the Gregorian date of a "
                "day number in the model (Hinnant's civil_from_days) is checked against the real `time` crate and python's calendar by the differential run (that it is the RIGHT date is not proved; that it is injective is); pre-1970 instants are outside the property's range; "
                "foreign files in the directory are not generated.",
        'technique': 'Lean 4 proof (arithmetic of periods, invariant over histories, permutation/sortedness of the prune step) + differential run of the real appender under a scripted clock + independent-calendar judge',
    },
    'lean_module': 'TracingModel.Props.C16',
    'namespace': 'C16',
    'units': ['RollingFacts'],
    'required_theorems': ['C16.code_facts', 'C16.round_is_floor', 'C16.lands_in_period', 'C16.no_rotation_backwards', 'C16.never_is_one_file', 'C16.one_rotation', 'C16.prune_bound', 'C16.prune_oldest_first', 'C16.names_injective', 'C16.same_file_iff_same_period'],
    'streams': [_s],
    'rule': 'one case = one process: rotation minutely/hourly/daily/never, prefix/suffix combinations, file limit none/1/2/3/5, a first instant drawn from month/year ends, leap days (2000, 2024, 2100), 1970, 2038, 9999 or random, '
            'then 6-24 ops: clock steps (inside the period, exactly onto / just past a boundary, 2-50 periods ahead, backwards, standing still), writes through io::Write and through make_writer, 2-8 threads released together '
            'at a boundary, directory listings; compared = every listing (names and bytes); judged = names by an independent calendar, no duplicated / lost line, at most max files. non-trivial = several files and a limit',
    'trusted_base': ['hand-written model Core/Rolling.lean', 'translator unit RollingFacts', 'hook in /repo (scripted UNIX clock for the rolling appender)', 'executor h_rolling'],
    'assumptions': ['file creation timestamps are strictly increasing at 12 ms spacing (coarse file-system clock)'],
}
