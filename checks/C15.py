"""C15 — the non-blocking writer neither loses, duplicates nor reorders accepted lines."""
from checklib.main import Stream

class Mirror:
    """the generator's own copy of the state machine — used ONLY to know which gate ops are meaningful and which
    writer event to wait for after an op (the executor's output is compared with the Lean model, not with this)"""
    def __init__(self, cap, lossy):
        self.cap = cap; self.lossy = lossy; self.q = []; self.w = 'idle'; self.cur = None; self.guard = False; self.exited = False
        self.pending = None; self.entered = False; self.pending_drop = False
    def wake(self):
        if self.w == 'idle' and self.q:
            m = self.q.pop(0)
            if m == 'S': self.w = 'flushT'; return 'af'
            self.w = 'write'; self.cur = m; return 'aw%d' % m
        return None
    def nxt(self):
        if self.q:
            m = self.q.pop(0)
            if m == 'S': self.w = 'flushT'; return 'af'
            self.w = 'write'; self.cur = m; return 'aw%d' % m
        self.w = 'flush'; return 'af'
    def settle(self):
        self.entered = False
        if self.pending is not None and not self.exited and len(self.q) < self.cap:
            self.q.append(self.pending); self.pending = None; self.entered = True
            return self.wake()
        if self.pending is None and self.pending_drop and (self.exited or len(self.q) < self.cap):
            # the guard that was waiting for room enqueues its Shutdown
            self.pending_drop = False
            if not self.exited and not self.guard:
                self.q.append('S'); self.guard = True
                return self.wake()
        return None
    def offer(self, i):
        if self.exited: return None
        if len(self.q) < self.cap:
            self.q.append(i); return self.wake()
        return None
    def write_done(self, ok):
        ev = self.nxt() if ok else (setattr(self, 'w', 'idle') or self.wake())
        ev = self.settle() or ev
        return (ev + ' +p' if ev else 'p') if self.entered else ev
    def flush_done(self, ok):
        if self.w == 'flushT':
            self.w = 'exited'; self.exited = True; return 'x'
        self.w = 'idle'
        ev = self.wake()
        ev = self.settle() or ev
        return (ev + ' +p' if ev else 'p') if self.entered else ev
    def drop(self):
        if self.guard or self.exited: return None
        if len(self.q) < self.cap:
            self.q.append('S'); self.guard = True; return self.wake()
        return 'FULL'

def gen_case(rng):
    cap = rng.choice([1, 1, 2, 3, 128])
    lossy = rng.random() < 0.6
    m = Mirror(cap, lossy)
    ops = []; nid = 0
    n = rng.choice([8, 16, 30])
    dropped = False
    for _ in range(n):
        r = rng.random()
        if m.exited:
            if r < 0.5: ops.append('of %d %d' % (rng.randrange(4), nid)); nid += 1
            else: break
            continue
        if m.w == 'write' and r < 0.45:
            ok = rng.random() < 0.75
            ev = m.write_done(ok)
            ops.append('gw %s%s' % ('ok' if ok else 'fail', ' +' + ev if ev else ''))
        elif m.w in ('flush', 'flushT') and r < 0.55:
            ok = rng.random() < 0.75
            ev = m.flush_done(ok)
            ops.append('gf %s%s' % ('ok' if ok else 'fail', ' +' + ev if ev else ''))
        elif r < 0.85:
            full = len(m.q) >= cap
            if full and not lossy:
                if m.pending is None and rng.random() < 0.5 and m.w in ('write',):
                    m.pending = nid; ops.append('ofb %d %d' % (rng.randrange(4), nid)); nid += 1
                continue
            ev = m.offer(nid)
            ops.append('of %d %d%s' % (rng.randrange(4), nid, ' +' + ev if ev else '')); nid += 1
        elif not dropped and m.pending is None:
            ev = m.drop()
            if ev == 'FULL':
                # the guard waits (send_timeout) for room; the next operation is the gate op that makes it
                if m.w not in ('write', 'flush'): continue
                dropped = True; m.pending_drop = True
                ops.append('dropf')
                ok = rng.random() < 0.8
                if m.w == 'write':
                    ev = m.write_done(ok); ops.append('gw %s%s' % ('ok' if ok else 'fail', ' +' + ev if ev else ''))
                else:
                    ev = m.flush_done(ok); ops.append('gf %s%s' % ('ok' if ok else 'fail', ' +' + ev if ev else ''))
                continue
            dropped = True
            ops.append('drop' + (' +' + ev if ev else ''))
    # drain: finish whatever the worker is doing so that a dropped guard can complete
    guardn = 0
    while not m.exited and m.w != 'idle' and guardn < 200:
        guardn += 1
        if m.w == 'write':
            ok = rng.random() < 0.8; ev = m.write_done(ok); ops.append('gw %s%s' % ('ok' if ok else 'fail', ' +' + ev if ev else ''))
        else:
            ok = rng.random() < 0.8; ev = m.flush_done(ok); ops.append('gf %s%s' % ('ok' if ok else 'fail', ' +' + ev if ev else ''))
    if m.pending is None and any(o.startswith('ofb') for o in ops): ops.append('jb')
    ops.append('end')
    return 'cap=%d lossy=%d ;; %s' % (cap, 1 if lossy else 0, ' ; '.join(ops))

def valid_case(case):
    """a script is meaningful iff every gate op matches what the worker is doing and carries the wait the state machine predicts"""
    try:
        head, opsS = case.split(' ;; ')
        cap = int(head.split()[0][4:]); lossy = head.split()[1] == 'lossy=1'
        m = Mirror(cap, lossy)
        after_dropf = False
        for op in opsS.split(' ; '):
            t = op.split(); core = [x for x in t if not x.startswith('+')]; waits = ' '.join(x for x in t if x.startswith('+'))
            if after_dropf and core[0] not in ('gw', 'gf'): return False       # (the waiting guard has 100 ms: room is made at once)
            after_dropf = False
            if core[0] == 'of':
                if not lossy and not m.exited and len(m.q) >= cap: return False
                ev = m.offer(int(core[2]))
            elif core[0] == 'ofb':
                if m.pending is not None or lossy or len(m.q) < cap: return False
                m.pending = int(core[2]); ev = None
            elif core[0] == 'gw':
                if m.w != 'write': return False
                ev = m.write_done(core[1] == 'ok')
            elif core[0] == 'gf':
                if m.w not in ('flush', 'flushT'): return False
                ev = m.flush_done(core[1] == 'ok')
            elif core[0] == 'dropf':
                if m.guard or m.exited or m.pending is not None or m.pending_drop or len(m.q) < cap or m.w not in ('write', 'flush'): return False
                m.pending_drop = True; ev = None; after_dropf = True
            elif core[0] == 'drop':
                ev = m.drop()
                if ev == 'FULL': return False
            elif core[0] in ('jb', 'end'): ev = None
            else: return False
            want = ' '.join('+' + x.lstrip('+') for x in (ev or '').split()) if ev else ''
            if want != waits: return False
        return True
    except Exception:
        return False

def gen(rng, tier):
    n = 300 if tier == 'quick' else 6000
    for _ in range(n):
        yield gen_case(rng)

def judge(case, out):
    """the property's end-to-end oracle on the implementation's own output: written ++ failed are distinct accepted lines in
    acceptance order; lossy: offered = accepted + dropped; a dropped guard whose worker left has drained everything accepted before it"""
    if out.endswith(' ITS-TIMEOUT-FIRED') and 'dropf' in case:
        # the implementation reported on stderr that one of ITS OWN timeouts fired (a 100 ms / 1 s wait in the guard's drop ran
        # out on this machine): the run is outside the assumption 'timeouts do not fire' and says nothing
        return 'ok'
    ops = case.split(' ;; ')[1].split(' ; '); outs = out.split(' ')
    if any('NOWAIT' in o or 'TIMEOUT' in o for o in outs): return 'bad stuck ' + ' '.join(o for o in outs if 'NOWAIT' in o or 'TIMEOUT' in o)[:60]
    if len(ops) != len(outs): return 'bad shape'
    if 'torn' in outs[-1]: return 'bad line-written-torn ' + outs[-1]
    lossy = 'lossy=1' in case
    accepted = []; done = []; offered = 0; dropped = 0; refused = 0; at_drop = None; pending = None; any_blocked = False
    for op, o in zip(ops, outs):
        t = [x for x in op.split() if not x.startswith('+')]
        if t[0] == 'of':
            offered += 1
            if o == 'a': accepted.append(int(t[2]))
            elif o == 'd': dropped += 1
            elif o == 'e': refused += 1
            else: return 'bad offer-output ' + o
        elif t[0] == 'ofb': pending = int(t[2]); any_blocked = True
        elif t[0] == 'jb':
            if pending is not None:
                offered += 1
                if o == 'a': accepted.append(pending)
                elif o == 'e': refused += 1
                pending = None
        elif t[0] == 'gw': done.append(int(o[1:].split(':')[0]))
        elif t[0] in ('drop', 'dropf'): at_drop = len(accepted)
        if '+p' in op.split() and pending is not None:
            offered += 1; accepted.append(pending); pending = None      # the blocked producer got in during this step
        if t[0] == 'end':
            kv = dict(x.split('=') for x in o.split(','))
            if len(set(done)) != len(done): return 'bad duplicate-write'
            pos = [accepted.index(d) if d in accepted else -1 for d in done]
            if -1 in pos: return 'bad wrote-unaccepted-line'
            if pos != sorted(pos): return 'bad reordered'
            if lossy and int(kv['dropped']) != dropped: return 'bad counter=%s observed-drops=%d' % (kv['dropped'], dropped)
            if lossy and offered != len(accepted) + int(kv['dropped']): return 'bad accounting offered=%d accepted=%d dropped=%s' % (offered, len(accepted), kv['dropped'])
            if not lossy and int(kv['dropped']) != 0: return 'bad nonlossy-dropped'
            if at_drop is not None and kv['writerdropped'] == '1':
                if len(done) < at_drop: return 'bad guard-drop-did-not-drain'
    return 'ok'

def nontrivial(case, out):
    return ':err' in out and ' d' in (' ' + out) and 'drop' in case

def classify(stream, case, out):
    h = case.split(' ;; ')[0]
    return '%s drop=%s fail=%s blockedproducer=%s after-exit-offer=%s' % (h, 'y' if 'drop' in case else 'n', 'y' if ':err' in out else 'n', 'y' if 'ofb' in case else 'n',
                                                                          'y' if 'writerdropped=1' in out and case.split(' ; ')[-2].startswith('of ') else 'n')

_s = Stream('script', 'h_appender', gen=gen, per_process=True, nontrivial=nontrivial)
# (only the 100 ms wait of a guard dropped on a FULL queue: the 1 s wait for the worker's answer running out is a failure)
_s.stderr_marks = [('Sending shutdown signal to logging worker timed out', 'ITS-TIMEOUT-FIRED')]
_s.model_match = lambda case, model, impl: (impl.endswith(' ITS-TIMEOUT-FIRED') and 'dropf' in case) or model == impl
_s.py_judge = judge
_s.valid_case = valid_case

def extra(tier, seed, rng, res, broken):
    """the search behind drop_counter_exact: producers on several real threads failing to enqueue at the same moments"""
    from checks import stressgen
    stressgen.stress_phase('lossycount', tier, res, broken, seed)

PROPERTY = {
    'manifest': {
        'text': "Lean 4 theorems over a transition system of the channel operations and the underlying writer's call completions (any number of producers and lines, any capacity, lossy and non-lossy, every interleaving, every fault "
                "script): fifo_exactly_once (dequeued ++ queued = accepted in acceptance order; every dequeued line has exactly one outcome in that order: nothing lost, duplicated or reordered, a failed write costs that line only), "
                "written_in_order, accounting (lossy: offered = accepted + dropped, whatever made the enqueue fail; non-lossy: never counted as dropped), drain_on_drop (once the guard is dropped and the worker has left, every "
                "line accepted before the drop has been handed to the writer and the writer released), shutdown_not_masked and f13_witness. Two facts the behaviour depends on (the lossy path counts EVERY failed try_send; a "
                "failed flush cannot hide a consumed Shutdown) and the step order of work() are extracted from non_blocking.rs / worker.rs on every run. The model is compared with the real NonBlocking over a scripted, gated "
                "writer (forced full and empty queues, failing writes and flushes, guard drop at any point, offers after the worker left).",
        'note': "Trusted: Lean kernel; propext/Classical.choice/Quot.sound; crossbeam's bounded channel is FIFO with the documented try_send/send/recv semantics; timeouts (100 ms / 1 s in the guard's drop) are modelled as "
                "'do not fire' — a writer stalled longer than that loses the tail on drop, which the model does not exhibit; at most one blocked producer at a time in the scripted runs. Repaired: F13 (a failed flush on the "
                "Shutdown iteration left the worker waiting forever).",
        'technique': 'Lean 4 proof (invariants over an interleaving transition system, parametrised by extracted facts) + scripted differential run against the real writer and worker thread',
    },
    'lean_module': 'TracingModel.Props.C15',
    'namespace': 'C15',
    'units': ['NonBlockingFacts'],
    'required_theorems': ['C15.drop_counter_exact', 'C15.drop_counter_lost_witness', 'C15.code_facts', 'C15.fifo_exactly_once', 'C15.written_in_order', 'C15.accounting', 'C15.drain_on_drop', 'C15.shutdown_not_masked', 'C15.f13_witness'],
    'extra_bins': ['h_stress'],
    'streams': [_s],
    'rule': 'one case = one process: capacity 1/2/3/128, lossy or not, 8-30 scripted steps: offers from 4 producers (incl. into a full queue, on a blocked background producer, after the worker has left), the underlying '
            'writer\'s write_all / flush released one call at a time with a scripted result, the guard dropped at a random point, then drained; compared = per step the outcome (accepted / dropped / refused, which line the '
            'writer got and its result, flush results, final dropped counter, whether the writer was released); judged = no duplicate, order, accounting, drain on drop. non-trivial = a failed write, a dropped line and a guard drop',
    'trusted_base': ['hand-written transition system Core/NonBlocking.lean', 'translator unit NonBlockingFacts', 'executor h_appender (gated writer; waits for the writer events the generator predicts)'],
    'assumptions': ['the 100 ms / 1 s timeouts of WorkerGuard::drop do not fire (gates are released promptly)'],
}
