"""Minimal Rust tokenizer + region finder + skeleton matcher used by the translator.

A *skeleton* is the exact token stream of a region of Rust source in which selected
tokens are replaced by holes `«name»` (any single token) or `«name:int»` (an integer
literal, underscores and type suffix stripped).  Everything that is not a hole has
to match token-for-token (whitespace and comments are not tokens).  The bindings of
the holes are what flows into the generated Lean files, so the Lean model is
re-derived from what the source says now; if the region no longer has the skeleton's
shape the translator says so (exit status 3) and `check` treats the translator tie of
that property as broken.
"""
import re, sys, hashlib

TOKEN_RE = re.compile(r'''
    (?P<ws>\s+)
  | (?P<lc>//[^\n]*)
  | (?P<bc>/\*.*?\*/)
  | (?P<str>b?"(?:\\.|[^"\\])*")
  | (?P<rstr>b?r(?P<h>\#*)".*?"(?P=h))
  | (?P<char>b?'(?:\\.[^']*|[^'\\])')
  | (?P<life>'[A-Za-z_][A-Za-z0-9_]*)
  | (?P<num>\d[\d_]*(?:\.\d[\d_]*)?(?:[eE][+-]?\d+)?(?:[iuf](?:8|16|32|64|128|size))?)
  | (?P<id>(?:r\#)?[A-Za-z_][A-Za-z0-9_]*)
  | (?P<op><<=|>>=|\.\.\.|\.\.=|::|->|=>|==|!=|<=|>=|&&|\|\||\+=|-=|\*=|/=|%=|\^=|&=|\|=|<<|>>|\.\.|[-+*/%^!&|=<>@.,;:\#$?~\[\](){}])
''', re.S | re.X)

def tokenize(src):
    out = []
    pos = 0
    n = len(src)
    while pos < n:
        m = TOKEN_RE.match(src, pos)
        if not m:
            raise ValueError("cannot tokenize at %d: %r" % (pos, src[pos:pos+40]))
        kind = m.lastgroup
        if kind == 'h':
            kind = 'rstr'
        if kind not in ('ws', 'lc', 'bc'):
            out.append((kind, m.group(0), m.start()))
        pos = m.end()
    return out

def strip_comments(src):
    return ''.join(
        (' ' if m.lastgroup in ('lc', 'bc') else m.group(0)) for m in TOKEN_RE.finditer(src))

def find_region(src, start_regex, nth=0):
    """text from the match of start_regex through the matching close brace of the first
    `{` at or after the match start.  Returns (text, line_start, line_end)."""
    ms = list(re.finditer(start_regex, src, re.S))
    if len(ms) <= nth:
        return None
    m = ms[nth]
    toks_from = m.start()
    depth = 0
    i = toks_from
    started = False
    # walk tokens so braces inside strings/comments are ignored
    for mm in TOKEN_RE.finditer(src, toks_from):
        k = mm.lastgroup
        if k in ('ws', 'lc', 'bc', 'str', 'rstr', 'char'):
            continue
        t = mm.group(0)
        if t == '{':
            depth += 1; started = True
        elif t == '}':
            depth -= 1
            if started and depth == 0:
                end = mm.end()
                return (src[toks_from:end], src.count('\n', 0, toks_from) + 1, src.count('\n', 0, end) + 1)
    return None

HOLE_RE = re.compile(r'«([A-Za-z0-9_]+)(?::([a-z]+))?»')

def parse_skeleton(text):
    """skeleton text -> list of ('tok', text) | ('hole', name, kind)"""
    items = []
    pos = 0
    for m in HOLE_RE.finditer(text):
        for (k, t, _) in tokenize(text[pos:m.start()]):
            items.append(('tok', t))
        items.append(('hole', m.group(1), m.group(2) or 'any'))
        pos = m.end()
    for (k, t, _) in tokenize(text[pos:]):
        items.append(('tok', t))
    return items

def int_of(tok):
    t = tok.replace('_', '')
    t = re.sub(r'(?:[iu](?:8|16|32|64|128|size))$', '', t)
    if re.fullmatch(r'\d+', t):
        return int(t)
    return None

def match_skeleton(skel_text, region_text):
    """returns (bindings, None) or (None, reason)"""
    items = parse_skeleton(skel_text)
    toks = tokenize(region_text)
    if len(items) != len(toks):
        # find first divergence for the message
        for i, (it, tk) in enumerate(zip(items, toks)):
            if it[0] == 'tok' and it[1] != tk[1]:
                return None, "token %d: expected %r, source has %r" % (i, it[1], tk[1])
        return None, "token count differs: skeleton %d, source %d" % (len(items), len(toks))
    b = {}
    for i, (it, tk) in enumerate(zip(items, toks)):
        if it[0] == 'tok':
            if it[1] != tk[1]:
                return None, "token %d: expected %r, source has %r" % (i, it[1], tk[1])
        else:
            _, name, kind = it
            val = tk[1]
            if kind == 'int':
                v = int_of(val)
                if v is None:
                    return None, "hole %s: expected integer literal, source has %r" % (name, val)
                val = v
            if name in b and b[name] != val:
                return None, "hole %s bound twice with different values (%r, %r)" % (name, b[name], val)
            b[name] = val
    return b, None

def sha(text):
    return hashlib.sha256(text.encode()).hexdigest()[:16]
