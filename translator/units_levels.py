"""Translator unit `Levels`: tracing-core/src/metadata.rs (Level / LevelFilter: discriminants,
the 24 hand-written comparison methods, FromStr / Display tables, current()/set_max) and the
tracing-log level conversions  ->  TracingModel/Gen/Levels.lean"""
import re, os
import rtok
from extract import Shape, region

LV = {'TRACE': 'trace', 'DEBUG': 'debug', 'INFO': 'info', 'WARN': 'warn', 'ERROR': 'error',
      'Trace': 'trace', 'Debug': 'debug', 'Info': 'info', 'Warn': 'warn', 'Error': 'error'}

def toks(text):
    return [t for (_, t, _) in rtok.tokenize(text)]

def split_top(ts, sep=','):
    """split a token list on top-level separators"""
    out = []; cur = []; depth = 0
    for t in ts:
        if t in '([{':
            depth += 1
        elif t in ')]}':
            depth -= 1
        if t == sep and depth == 0:
            out.append(cur); cur = []
        else:
            cur.append(t)
    if cur:
        out.append(cur)
    return out

def match_arms(ts, start=0):
    """ts: tokens; finds first `match … {` at/after start; returns (arms, end_index) with arms = [(pat_tokens, res_tokens)]"""
    i = ts.index('match', start)
    j = ts.index('{', i)
    depth = 0; k = j
    while True:
        if ts[k] == '{': depth += 1
        elif ts[k] == '}':
            depth -= 1
            if depth == 0: break
        k += 1
    body = ts[j+1:k]
    arms = []
    for arm in split_top(body):
        # drop attributes such as #[cfg(...)]
        while arm and arm[0] == '#':
            # skip `# [ ... ]`
            d = 0; n = 1
            while True:
                if arm[n] == '[': d += 1
                elif arm[n] == ']':
                    d -= 1
                    if d == 0: break
                n += 1
            arm = arm[n+1:]
        if '=>' not in arm:
            continue
        a = arm.index('=>')
        arms.append((arm[:a], arm[a+1:]))
    return arms, k

def fn_bodies(impl_text):
    """{fn name: body tokens} for `fn name(...) -> R { body }` inside an impl block"""
    ts = toks(impl_text)
    out = {}
    i = 0
    while i < len(ts):
        if ts[i] == 'fn':
            name = ts[i+1]
            j = ts.index('{', i)
            depth = 0; k = j
            while True:
                if ts[k] == '{': depth += 1
                elif ts[k] == '}':
                    depth -= 1
                    if depth == 0: break
                k += 1
            out[name] = ts[j+1:k]
            i = k
        i += 1
    return out

SIDES = [
    (['(', 'other', '.', '0', 'as', 'usize', ')'], ('L', 'other')),
    (['(', 'self', '.', '0', 'as', 'usize', ')'], ('L', 'self')),
    (['other', '.', '0', 'as', 'usize'], ('L', 'other')),
    (['self', '.', '0', 'as', 'usize'], ('L', 'self')),
    (['filter_as_usize', '(', '&', 'other', '.', '0', ')'], ('F', 'other')),
    (['filter_as_usize', '(', '&', 'self', '.', '0', ')'], ('F', 'self')),
]

def take_side(ts, i):
    for pat, v in SIDES:
        if ts[i:i+len(pat)] == pat:
            return v, i + len(pat)
    raise Shape("comparison operand not recognised at: %s" % ' '.join(ts[i:i+8]))

def side_lean(v):
    kind, who = v
    return ('levelRepr %s' if kind == 'L' else 'filterRepr %s') % who

OPS = {'<': '<', '<=': '≤', '>': '>', '>=': '≥', '==': '=', '!=': '≠'}

def body_lean(name, ts, selfkind, otherkind):
    """returns (lean expr, result type) for a comparison method body"""
    def check(v):
        kind, who = v
        want = selfkind if who == 'self' else otherkind
        if kind != want:
            raise Shape("method %s applies the %s representation to a %s" % (name, kind, want))
    if ts[:2] == ['Some', '(']:
        inner = ts[2:-1]
        if inner == ['self', '.', 'cmp', '(', 'other', ')']:
            return 'some (cmp self other)', 'osome'
        a, i = take_side(inner, 0)
        if inner[i:i+4] != ['.', 'cmp', '(', '&']:
            raise Shape("partial_cmp body not recognised")
        b, j = take_side(inner, i + 4)
        check(a); check(b)
        return 'some (compare (%s) (%s))' % (side_lean(a), side_lean(b)), 'oord'
    a, i = take_side(ts, 0)
    check(a)
    if ts[i:i+4] == ['.', 'cmp', '(', '&']:
        b, j = take_side(ts, i + 4)
        check(b)
        return 'compare (%s) (%s)' % (side_lean(a), side_lean(b)), 'ord'
    op = ts[i]
    if op not in OPS:
        raise Shape("operator %r in %s not recognised" % (op, name))
    b, j = take_side(ts, i + 1)
    check(b)
    if j != len(ts):
        raise Shape("trailing tokens in %s" % name)
    return 'decide (%s %s %s)' % (side_lean(a), OPS[op], side_lean(b)), 'bool'

def lvl_of_path(ts):
    """`Level::ERROR`, `tracing_core::Level::ERROR`, `LevelFilter::ERROR`, `log::Level::Error` -> ('L'|'F', name)"""
    name = ts[-1]
    kind = 'F' if 'LevelFilter' in ts else 'L'
    if name in ('OFF', 'Off'):
        return kind, None
    if name not in LV:
        raise Shape("unknown level name %r" % name)
    return kind, LV[name]

def lean_lvl(n):
    return '.' + n

def lean_flt(n):
    return 'none' if n is None else '(some .%s)' % n

def unit_Levels(repo):
    f = 'tracing-core/src/metadata.rs'
    src = open(os.path.join(repo, f)).read()
    sources = []
    def reg(start, nth=0):
        r = rtok.find_region(src, start, nth)
        if r is None:
            raise Shape("%s: no region /%s/" % (f, start))
        sources.append("%s:%d-%d sha256/16=%s" % (f, r[1], r[2], rtok.sha(r[0])))
        return r[0]
    L = ["/- GENERATED by /verif/translator (unit Levels) — do not edit. -/", "namespace TM.Gen.Levels", ""]
    L.append("inductive Lvl | trace | debug | info | warn | error deriving DecidableEq, Repr, Inhabited")
    L.append("abbrev Flt := Option Lvl")
    # ---- discriminants
    enum = toks(reg(r'enum LevelInner'))
    disc = {}
    for i, t in enumerate(enum):
        if t in LV and enum[i+1] == '=':
            disc[LV[t]] = rtok.int_of(enum[i+2])
    if sorted(disc) != sorted(set(LV.values())) or None in disc.values():
        raise Shape("LevelInner discriminants not recognised: %r" % disc)
    L.append("def levelRepr : Lvl → Nat")
    for n in ['trace', 'debug', 'info', 'warn', 'error']:
        L.append("  | .%s => %d" % (n, disc[n]))
    # ---- OFF_USIZE
    m = re.search(r'const OFF_USIZE: usize = LevelInner::(\w+) as usize \+ (\d+);', src)
    if not m or m.group(1) not in LV:
        raise Shape("OFF_USIZE definition not recognised")
    L.append("def OFF_USIZE : Nat := levelRepr .%s + %s" % (LV[m.group(1)], m.group(2)))
    # ---- filter_as_usize
    fa = toks(reg(r'fn filter_as_usize'))
    arms, _ = match_arms(fa)
    ok = (len(arms) == 2 and arms[0][0] == ['Some', '(', 'Level', '(', 'f', ')', ')'] and arms[0][1] == ['*', 'f', 'as', 'usize']
          and arms[1][0] == ['None'] and arms[1][1] == ['LevelFilter', '::', 'OFF_USIZE'])
    if not ok:
        raise Shape("filter_as_usize body not recognised")
    L.append("def filterRepr : Flt → Nat\n  | some l => levelRepr l\n  | none => OFF_USIZE")
    # named usize consts used by current()
    consts = {}
    for mm in re.finditer(r'const (\w+)_USIZE: usize = LevelInner::(\w+) as usize;', src):
        consts[mm.group(1) + '_USIZE'] = 'levelRepr .%s' % LV[mm.group(2)]
    consts['OFF_USIZE'] = 'OFF_USIZE'
    # ---- comparison impls
    impls = [
        ('LF', r'impl PartialEq<LevelFilter> for Level', 'L', 'F', ['eq']),
        ('LL', r'impl PartialOrd for Level\b', 'L', 'L', ['partial_cmp', 'lt', 'le', 'gt', 'ge']),
        ('LL', r'impl Ord for Level\b', 'L', 'L', ['cmp']),
        ('LF', r'impl PartialOrd<LevelFilter> for Level', 'L', 'F', ['partial_cmp', 'lt', 'le', 'gt', 'ge']),
        ('FL', r'impl PartialEq<Level> for LevelFilter', 'F', 'L', ['eq']),
        ('FF', r'impl PartialOrd for LevelFilter\b', 'F', 'F', ['partial_cmp', 'lt', 'le', 'gt', 'ge']),
        ('FF', r'impl Ord for LevelFilter\b', 'F', 'F', ['cmp']),
        ('FL', r'impl PartialOrd<Level> for LevelFilter', 'F', 'L', ['partial_cmp', 'lt', 'le', 'gt', 'ge']),
    ]
    ty = {'L': 'Lvl', 'F': 'Flt'}
    defs = {}
    for tag, start, sk, ok_, methods in impls:
        bodies = fn_bodies(reg(start))
        if sorted(bodies) != sorted(methods):
            raise Shape("impl /%s/ has methods %s, expected %s" % (start, sorted(bodies), sorted(methods)))
        for mname in methods:
            expr, rty = body_lean(mname, bodies[mname], sk, ok_)
            defs[(tag, mname)] = (expr, rty, sk, ok_)
    # emit: cmp first (partial_cmp may call it)
    order = ['cmp', 'partial_cmp', 'eq', 'lt', 'le', 'gt', 'ge']
    for (tag, mname) in sorted(defs, key=lambda k: (k[0], order.index(k[1]))):
        expr, rty, sk, ok_ = defs[(tag, mname)]
        if rty == 'osome':
            expr = 'some (%s_cmp self other)' % tag
        lty = {'bool': 'Bool', 'ord': 'Ordering', 'oord': 'Option Ordering', 'osome': 'Option Ordering'}[rty]
        L.append("def %s_%s (self : %s) (other : %s) : %s := %s" % (tag, mname, ty[sk], ty[ok_], lty, expr))
    # ---- FromStr for Level
    fs = toks(reg(r'impl FromStr for Level\b'))
    arms1, e1 = match_arms(fs)
    arms2, _ = match_arms(fs, e1)
    L.append("def levelOfDigit : Nat → Option Lvl")
    for pat, res in arms1:
        if pat == ['_']:
            continue
        n = rtok.int_of(pat[0])
        if n is None or res[:2] != ['Ok', '(']:
            raise Shape("Level::from_str digit arm not recognised: %s" % ' '.join(pat + res))
        L.append("  | %d => some %s" % (n, lean_lvl(lvl_of_path(res[2:-1])[1])))
    L.append("  | _ => none")
    names = []
    for pat, res in arms2:
        if pat == ['_']:
            continue
        if pat[:8] != ['s', 'if', 's', '.', 'eq_ignore_ascii_case', '('] + [pat[6], ')'] or res[:2] != ['Ok', '(']:
            raise Shape("Level::from_str name arm not recognised: %s" % ' '.join(pat))
        names.append((pat[6], lvl_of_path(res[2:-1])[1]))
    L.append("def levelNames : List (String × Lvl) := [%s]" % ", ".join('(%s, .%s)' % (s, n) for s, n in names))
    # ---- FromStr for LevelFilter
    fs = toks(reg(r'impl FromStr for LevelFilter\b'))
    arms1, e1 = match_arms(fs)
    arms2, _ = match_arms(fs, e1)
    L.append("def filterOfDigit : Nat → Option Flt")
    for pat, res in arms1:
        if pat == ['_']:
            continue
        n = rtok.int_of(pat[0])
        if n is None or res[:2] != ['Some', '(']:
            raise Shape("LevelFilter::from_str digit arm not recognised")
        L.append("  | %d => some %s" % (n, lean_flt(lvl_of_path(res[2:-1])[1])))
    L.append("  | _ => none")
    names = []; exact = []
    for pat, res in arms2:
        if pat == ['_']:
            continue
        if len(pat) == 1 and pat[0].startswith('"'):
            exact.append((pat[0], lvl_of_path(res[2:-1])[1])); continue
        if pat[:6] != ['s', 'if', 's', '.', 'eq_ignore_ascii_case', '('] or res[:2] != ['Some', '(']:
            raise Shape("LevelFilter::from_str name arm not recognised: %s" % ' '.join(pat))
        names.append((pat[6], lvl_of_path(res[2:-1])[1]))
    L.append("def filterExact : List (String × Flt) := [%s]" % ", ".join('(%s, %s)' % (s, lean_flt(n)) for s, n in exact))
    L.append("def filterNames : List (String × Flt) := [%s]" % ", ".join('(%s, %s)' % (s, lean_flt(n)) for s, n in names))
    # ---- Display
    for (start, nm, isf) in [(r'impl fmt::Display for Level\b', 'levelDisplay', False), (r'impl fmt::Display for LevelFilter\b', 'filterDisplay', True)]:
        ds = toks(reg(start))
        arms, _ = match_arms(ds)
        L.append("def %s : %s → String" % (nm, 'Flt' if isf else 'Lvl'))
        seen = set()
        for pat, res in arms:
            k, n = lvl_of_path(pat)
            if res[:4] != ['f', '.', 'pad', '('] or not res[4].startswith('"'):
                raise Shape("Display arm not recognised")
            L.append("  | %s => %s" % ('some .%s' % n if (isf and n) else ('none' if isf else '.%s' % n), res[4]))
            seen.add(n)
        if len(seen) != (6 if isf else 5):
            raise Shape("Display does not cover all values")
    # as_str
    ds = toks(reg(r'pub fn as_str\(&self\)'))
    arms, _ = match_arms(ds)
    L.append("def levelAsStr : Lvl → String")
    for pat, res in arms:
        L.append("  | .%s => %s" % (lvl_of_path(pat)[1], res[0]))
    # ---- current() / set_max
    cu = toks(reg(r'pub fn current\(\) -> Self'))
    arms, _ = match_arms(cu)
    rows = []
    for pat, res in arms:
        if pat[:2] == ['Self', '::'] and pat[2] in consts and res[:2] == ['Self', '::']:
            rows.append((consts[pat[2]], lean_flt(None if res[2] == 'OFF' else LV[res[2]])))
    L.append("def currentTable : List (Nat × Flt) := [%s]" % ", ".join('(%s, %s)' % r for r in rows))
    sm = toks(reg(r'pub\(crate\) fn set_max'))
    arms, _ = match_arms(sm)
    ok = (len(arms) == 2 and arms[0][0] == ['Some', '(', 'Level', '(', 'level', ')', ')'] and arms[0][1] == ['level', 'as', 'usize']
          and arms[1][0] == ['None'] and arms[1][1] == ['Self', '::', 'OFF_USIZE'])
    if not ok:
        raise Shape("set_max body not recognised")
    L.append("def setMax : Flt → Nat\n  | some l => levelRepr l\n  | none => OFF_USIZE")
    # ---- tracing-log conversions
    f2 = 'tracing-log/src/lib.rs'
    src2 = open(os.path.join(repo, f2)).read()
    def reg2(start):
        r = rtok.find_region(src2, start)
        if r is None:
            raise Shape("%s: no region /%s/" % (f2, start))
        sources.append("%s:%d-%d sha256/16=%s" % (f2, r[1], r[2], rtok.sha(r[0])))
        return toks(r[0])
    for start, nm, isf in [(r'impl AsLog for tracing_core::Level\b', 'levelAsLog', False), (r'impl AsTrace for log::Level\b', 'levelAsTrace', False),
                           (r'impl AsTrace for log::LevelFilter', 'filterAsTrace', True), (r'impl AsLog for tracing_core::LevelFilter', 'filterAsLog', True)]:
        arms, _ = match_arms(reg2(start))
        T = 'Flt' if isf else 'Lvl'
        L.append("/-- log's levels are named by the same constructors (Error..Trace, Off) -/")
        L.append("def %s : %s → %s" % (nm, T, T))
        for pat, res in arms:
            a = lvl_of_path(pat)[1]; b = lvl_of_path(res)[1]
            L.append("  | %s => %s" % ((lean_flt(a) if isf else '.' + a), (lean_flt(b) if isf else '.' + b)))
    L.append("")
    L.append("end TM.Gen.Levels")
    head = "/- sources:\n" + "\n".join("   " + s for s in sources) + " -/\n"
    return head + "\n".join(L) + "\n", sources

UNITS = {'Levels': unit_Levels}
