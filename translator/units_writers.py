"""Translator unit `WriterRouting`: what every MakeWriter combinator of tracing-subscriber/src/fmt/writer.rs does in
`make_writer` / `make_writer_for` (guard, which method of which inner maker it calls), how the Tee / Either writers
forward `write_all`, and how fmt's `on_event` uses the maker  ->  Gen/WriterRouting.lean"""
import os, re
import rtok
from extract import Shape
from units_levels import fn_bodies, toks

COMBINATORS = [
    ('WithMaxLevel', r"impl<'a, M: MakeWriter<'a>> MakeWriter<'a> for WithMaxLevel<M>"),
    ('WithMinLevel', r"impl<'a, M: MakeWriter<'a>> MakeWriter<'a> for WithMinLevel<M>"),
    ('WithFilter', r"impl<'a, M, F> MakeWriter<'a> for WithFilter<M, F>"),
    ('Tee', r"impl<'a, A, B> MakeWriter<'a> for Tee<A, B>"),
    ('OrElse', r"impl<'a, A, B, W> MakeWriter<'a> for OrElse<A, B>"),
    ('BoxMakeWriter', r"impl<'a> MakeWriter<'a> for BoxMakeWriter"),
    ('Boxed', r"impl<'a, M> MakeWriter<'a> for Boxed<M>"),
]

def calls(body):
    out = []
    for i, t in enumerate(body):
        if t == 'self' and body[i + 1] == '.' and body[i + 3] == '.' and body[i + 4] in ('make_writer', 'make_writer_for') and body[i + 5] == '(':
            out.append((body[i + 2], body[i + 4]))
    return out

def guard(body):
    """'le' (meta.level() <= &self.level), 'ge', 'filter' ((self.filter)(meta)), 'match-either' (OrElse), 'none', or 'other'"""
    j = ' '.join(body)
    if 'if' not in body and 'match' not in body: return 'none'
    if body[0] == 'match':
        m = re.match(r'match self \. inner \. (make_writer|make_writer_for) \( (meta )?\) \{ EitherWriter :: A \( writer \) => EitherWriter :: A \( writer \) , '
                     r'EitherWriter :: B \( _ \) => EitherWriter :: B \( self \. or_else \. (make_writer|make_writer_for) \( (meta )?\) \) , \}$', j)
        return 'match-either' if m else 'other'
    if body[0] == 'if':
        b = body.index('{')
        cond = ' '.join(body[1:b])
        then_end = None
        rest = ' '.join(body[b:])
        some_then = 'OptionalWriter :: some (' in rest.split('}')[0]
        none_after = 'OptionalWriter :: none ( )' in rest.split('}', 1)[1] if '}' in rest else False
        if not (some_then and none_after): return 'other'
        if cond == 'meta . level ( ) <= & self . level': return 'le'
        if cond == 'meta . level ( ) >= & self . level': return 'ge'
        if cond == '( self . filter ) ( meta )': return 'filter'
        return 'other:' + cond
    return 'other'

def unit_WriterRouting(repo):
    f = 'tracing-subscriber/src/fmt/writer.rs'
    src = open(os.path.join(repo, f)).read()
    rows = []
    for name, start in COMBINATORS:
        r = rtok.find_region(src, re.escape(start))
        if r is None: raise Shape("writer.rs: %s impl not found" % name)
        b = fn_bodies(r[0])
        for m in ('make_writer', 'make_writer_for'):
            if m not in b:
                rows.append((name, m, 'absent', [])); continue
            body = b[m]
            g = guard(body)
            if g == 'none' and 'OptionalWriter :: none ( )' in ' '.join(body) and not calls(body): g = 'always-none'
            rows.append((name, m, g, calls(body)))
    # the trait's default make_writer_for
    r = rtok.find_region(src, r"pub trait MakeWriter<'a>")
    if r is None: raise Shape("trait MakeWriter not found")
    tj = ' '.join(toks(r[0]))
    default_for = re.search(r"fn make_writer_for \( [^{]* \{ let _ = meta ; self \. make_writer \( \) \}", tj) is not None
    # Tee / EitherWriter write_all forwarding
    tee = rtok.find_region(src, r"impl<A, B> io::Write for Tee<A, B>")
    either = rtok.find_region(src, r"impl<A, B> io::Write for EitherWriter<A, B>")
    mac = re.search(r'macro_rules! impl_tee \{(.*?)\n\}', src, re.S)
    if not (tee and either and mac): raise Shape("Tee / EitherWriter io::Write impls or impl_tee! not found")
    tee_all = ' '.join(fn_bodies(tee[0]).get('write_all', []))
    mact = ' '.join(toks(mac.group(1)))
    tee_both = ('impl_tee ! ( self . write_all ( buf ) )' in tee_all and
                'let res_a = $ self_ . a . $ f ( $ ( $ arg ) , * ) ; let res_b = $ self_ . b . $ f ( $ ( $ arg ) , * ) ;' in mact)
    ei_all = ' '.join(fn_bodies(either[0]).get('write_all', []))
    either_one = ei_all == 'match self { EitherWriter :: A ( a ) => a . write_all ( buf ) , EitherWriter :: B ( b ) => b . write_all ( buf ) , }'
    # fmt on_event
    f2 = 'tracing-subscriber/src/fmt/fmt_subscriber.rs'
    src2 = open(os.path.join(repo, f2)).read()
    ob = fn_bodies(src2).get('on_event')
    if ob is None: raise Shape("fmt_subscriber.rs on_event not found")
    j = ' '.join(ob)
    ok_branch = j.split('. is_ok ( )', 1)
    n_for = n_plain = n_write = 0; order_ok = False; clears_first = False; busy_fallback = False
    if len(ok_branch) == 2:
        then = ok_branch[1].split('} else', 1)[0]
        n_for = then.count('self . make_writer . make_writer_for ( event . metadata ( ) )')
        n_plain = then.count('self . make_writer . make_writer ( )')
        n_write = then.count('io :: Write :: write_all ( & mut writer , buf . as_bytes ( ) )') + then.count('writer . write_all (')
        order_ok = n_for == 1 and n_write == 1 and then.find('make_writer_for') < then.find('write_all')
        before = ok_branch[0]
        busy_fallback = ('_ => { b = String :: new ( ) ; & mut b }' in before and 'return' not in before.split()
                         and 'let borrow = buf . try_borrow_mut ( ) ;' in before)
        clears_first = 'buf . clear ( )' in before[before.find('let mut buf = match borrow'):] if 'let mut buf = match borrow' in before else False
    clears_after = j.rstrip().endswith('buf . clear ( ) ; } ) ;') or 'buf . clear ( ) ; } )' in j
    L = ["/- GENERATED by /verif/translator (unit WriterRouting) from %s sha256/16=%s, %s sha256/16=%s — do not edit. -/" % (f, rtok.sha(src), f2, rtok.sha(src2)),
         "namespace TM.Gen.WriterRouting",
         "/-- (combinator, method, guard, calls (field, method of the inner maker)) -/",
         "def routing : List (String × String × String × List (String × String)) := ["]
    L.append(",\n".join('  ("%s", "%s", "%s", [%s])' % (n, m, g, ", ".join('("%s", "%s")' % c for c in cs)) for n, m, g, cs in rows))
    L.append("]")
    L.append("def defaultForCallsPlain : Bool := %s" % ('true' if default_for else 'false'))
    L.append("/-- `Tee::write_all` writes the whole buffer to BOTH halves, a then b; `EitherWriter::write_all` to the one it holds -/")
    L.append("def teeWritesBoth : Bool := %s" % ('true' if tee_both else 'false'))
    L.append("def eitherWritesOne : Bool := %s" % ('true' if either_one else 'false'))
    L.append("/-- fmt `on_event`, formatted-ok branch: `make_writer_for(event.metadata())` once, then one `write_all` of the buffer -/")
    L.append("def onEventMakeWriterFor : Nat := %d" % n_for)
    L.append("def onEventMakeWriterPlain : Nat := %d" % n_plain)
    L.append("def onEventWrites : Nat := %d" % n_write)
    L.append("def onEventMakeThenWrite : Bool := %s" % ('true' if order_ok else 'false'))
    L.append("/-- the thread-local buffer is cleared BEFORE formatting (so text left by a formatter that panicked cannot leak into the next record) / after writing -/")
    L.append("def onEventClearsBefore : Bool := %s" % ('true' if clears_first else 'false'))
    L.append("def onEventClearsAfter : Bool := %s" % ('true' if clears_after else 'false'))
    L.append("/-- when the thread-local buffer is already borrowed (the thread is formatting another event whose value's Debug / Display\nemits through the dispatcher) `on_event` formats into a fresh String and goes on: no early return before the record is written -/")
    L.append("def onEventBusyBufferFallsBack : Bool := %s" % ('true' if busy_fallback else 'false'))
    L.append("end TM.Gen.WriterRouting")
    return "\n".join(L) + "\n", ["%s sha256/16=%s" % (f, rtok.sha(src)), "%s sha256/16=%s" % (f2, rtok.sha(src2))]

UNITS = {'WriterRouting': unit_WriterRouting}
