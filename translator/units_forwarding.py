"""Translator unit `Forwarding`: the hand-written forwarding impls of the pass-through wrappers
(Box/Arc for Collect; Box, Box<dyn>, Option, Vec, reload::Subscriber, Identity for Subscribe;
Arc<dyn>/Box<dyn>, Option, reload::Subscriber for Filter) -> Gen/Forwarding.lean: for every
(wrapper, trait method): `forward` (the body calls exactly the same method on the wrapped value(s)),
`absent` (not overridden: the trait default runs and the wrapped value is not told), or `custom`."""
import os, re
import rtok
from extract import Shape
from units_levels import toks, fn_bodies

def trait_methods(src, start):
    r = rtok.find_region(src, start)
    if r is None:
        raise Shape("trait /%s/ not found" % start)
    body = r[0]
    # methods declared directly in the trait body
    names = []
    ts = toks(body)
    depth = 0
    for i, t in enumerate(ts):
        if t == '{': depth += 1
        elif t == '}': depth -= 1
        elif t == 'fn' and depth == 1:
            names.append(ts[i + 1])
    return names

def expand_macro(src, macro_name):
    m = re.search(r'macro_rules!\s+%s\s*\{\s*\(\)\s*=>\s*\{' % macro_name, src)
    if not m:
        raise Shape("macro %s not found" % macro_name)
    r = rtok.find_region(src[m.start():], r'macro_rules!')
    inner = r[0]
    # body between the `() => {` and its closing brace
    i = inner.index('=>')
    j = inner.index('{', i)
    depth = 0
    for k in range(j, len(inner)):
        if inner[k] == '{': depth += 1
        elif inner[k] == '}':
            depth -= 1
            if depth == 0:
                return inner[j + 1:k]
    raise Shape("macro %s body not delimited" % macro_name)

def classify(name, body, methods):
    """body: token list of the method"""
    callees = []
    for i, t in enumerate(body):
        if t == '.' and i + 2 < len(body) and body[i + 1] in methods and body[i + 2] == '(':
            # skip calls on things other than the wrapped value(s) — none occur in these impls
            callees.append(body[i + 1])
    if callees and all(c == name for c in callees):
        return 'forward'
    if not callees:
        return 'custom:none'
    return 'custom:' + '+'.join(callees)

def impl_table(text, methods, extra_macro=None):
    bodies = fn_bodies(text)
    if extra_macro:
        bodies.update(fn_bodies('impl X {' + extra_macro + '}'))
    out = {}
    for m in methods:
        if m in bodies:
            out[m] = classify(m, bodies[m], methods)
        else:
            out[m] = 'absent'
    return out

def unit_Forwarding(repo):
    srcs = {}
    def rd(rel):
        if rel not in srcs:
            srcs[rel] = open(os.path.join(repo, rel)).read()
        return srcs[rel]
    core = rd('tracing-core/src/collect.rs')
    sub = rd('tracing-subscriber/src/subscribe/mod.rs')
    flt = rd('tracing-subscriber/src/filter/subscriber_filters/mod.rs')
    rel = rd('tracing-subscriber/src/reload.rs')
    collect_methods = trait_methods(core, r'pub trait Collect\b')
    subscribe_methods = [m for m in trait_methods(sub, r'pub trait Subscribe<C>') if m not in ('and_then', 'with_collector', 'with_filter', 'boxed')]
    filter_methods = trait_methods(sub, r'pub trait Filter<S>')
    if len(collect_methods) < 10 or len(subscribe_methods) < 10 or len(filter_methods) < 5:
        raise Shape("trait method lists look wrong: %r %r %r" % (collect_methods, subscribe_methods, filter_methods))
    def reg(src, start, name):
        r = rtok.find_region(src, start)
        if r is None:
            raise Shape("impl /%s/ not found (%s)" % (start, name))
        return r[0]
    sub_macro = expand_macro(sub, 'subscriber_impl_body')
    flt_macro = expand_macro(flt, 'filter_impl_body')
    rows = []   # (wrapper, trait, {method: class})
    rows.append(('Box<C>', 'Collect', impl_table(reg(core, r'impl<C> Collect for alloc::boxed::Box<C>', 'Box'), collect_methods)))
    rows.append(('Arc<C>', 'Collect', impl_table(reg(core, r'impl<C> Collect for Arc<C>', 'Arc'), collect_methods)))
    rows.append(('Box<S>', 'Subscribe', impl_table(reg(sub, r'impl<S, C> Subscribe<C> for Box<S>', 'Box<S>'), subscribe_methods, sub_macro)))
    rows.append(('Box<dyn Subscribe>', 'Subscribe', impl_table(reg(sub, r'impl<C> Subscribe<C> for Box<dyn Subscribe<C>', 'Box<dyn>'), subscribe_methods, sub_macro)))
    rows.append(('Option<S>', 'Subscribe', impl_table(reg(sub, r'impl<S, C> Subscribe<C> for Option<S>', 'Option'), subscribe_methods)))
    rows.append(('Vec<S>', 'Subscribe', impl_table(reg(sub, r'impl<C, S> Subscribe<C> for alloc::vec::Vec<S>', 'Vec'), subscribe_methods)))
    rows.append(('reload::Subscriber', 'Subscribe', impl_table(reg(rel, r'impl<S, C> crate::Subscribe<C> for Subscriber<S>', 'reload'), subscribe_methods)))
    rows.append(('Arc<dyn Filter>', 'Filter', impl_table(reg(flt, r'impl<S> subscribe::Filter<S> for Arc<dyn', 'Arc<dyn Filter>'), filter_methods, flt_macro)))
    rows.append(('Box<dyn Filter>', 'Filter', impl_table(reg(flt, r'impl<S> subscribe::Filter<S> for Box<dyn', 'Box<dyn Filter>'), filter_methods, flt_macro)))
    rows.append(('Option<F>', 'Filter', impl_table(reg(flt, r'impl<F, S> subscribe::Filter<S> for Option<F>', 'Option<F>'), filter_methods)))
    rows.append(('reload::Subscriber', 'Filter', impl_table(reg(rel, r'impl<S, C> crate::subscribe::Filter<C> for Subscriber<S>', 'reload filter'), filter_methods)))
    # ---- Layered: the ordered calls `self.<field>.<method>(` of every method of both impls
    lay = rd('tracing-subscriber/src/subscribe/layered.rs')
    def call_seq(body):
        seq = []
        for i, t in enumerate(body):
            if t == 'self' and i + 4 < len(body) and body[i + 1] == '.' and body[i + 2] in ('inner', 'subscriber') and body[i + 3] == '.' and body[i + 5] == '(':
                seq.append((body[i + 2], body[i + 4]))
        return seq
    def ctl_shape(body):
        """how the calls of a Layered method are connected"""
        def has_self(toks, field):
            return any(toks[i:i + 3] == ['self', '.', field] for i in range(len(toks)))
        ctl = [t for t in body if t in ('if', 'match', 'return', '?', 'while', 'for', 'loop', 'else')]
        if not ctl:
            if body[:3] == ['self', '.', 'pick_interest']: return 'pick_interest'
            if body[:3] == ['self', '.', 'pick_level_hint']: return 'pick_level_hint'
            return 'seq'
        if body[0] == 'if' and body[1:3] == ['self', '.'] and body.count('else') == 1:
            e = body.index('else')
            then, els = body[:e], body[e:]
            cond_end = then.index('{')
            cond, then = then[:cond_end], then[cond_end:]
            if 'false' in els and not has_self(els, 'inner') and not has_self(els, 'subscriber'):
                if has_self(cond, 'subscriber') and has_self(then, 'inner') and not has_self(then, 'subscriber') and 'false' not in then:
                    return 'guard'        # if outer accepts { ask inner } else { false }
        if 'if' in body and body.count('else') == 1:
            i0 = body.index('if'); e = body.index('else')
            pre, then, els = body[:i0], body[i0:e], body[e:]
            cond_end = then.index('{')
            cond, then = then[:cond_end], then[cond_end:]
            if (has_self(cond, 'inner') and not has_self(cond, 'subscriber') and has_self(then, 'subscriber') and 'true' in then
                    and 'false' in els and not has_self(els, 'subscriber') and not has_self(els, 'inner') and not has_self(pre, 'subscriber')):
                return 'if_inner'         # if inner reports true { tell own layer; true } else { false }
        return 'other'
    lay_rows = []
    shape_rows = []
    for tag, start in (('Collect', r'impl<S, C> Collect for Layered<S, C>'), ('Subscribe', r'impl<C, A, B> Subscribe<C> for Layered<A, B, C>')):
        bodies = fn_bodies(reg(lay, start, 'Layered ' + tag))
        for name in sorted(bodies):
            lay_rows.append((tag, name, call_seq(bodies[name])))
            shape_rows.append((tag, name, ctl_shape(bodies[name])))
    L = ["/- GENERATED by /verif/translator (unit Forwarding) — do not edit. -/", "namespace TM.Gen.Forwarding"]
    def lst(xs): return '[' + ', '.join('"%s"' % x for x in xs) + ']'
    L.append("def collectMethods : List String := " + lst(collect_methods))
    L.append("def subscribeMethods : List String := " + lst(subscribe_methods))
    L.append("def filterMethods : List String := " + lst(filter_methods))
    L.append("/-- (wrapper, trait, method, classification) -/")
    L.append("def table : List (String × String × String × String) := [")
    items = []
    for w, tr, d in rows:
        for m in sorted(d):
            items.append('  ("%s", "%s", "%s", "%s")' % (w, tr, m, d[m]))
    L.append(",\n".join(items))
    L.append("]")
    L.append("/-- Layered: (impl, method, ordered calls (field, method)) -/")
    L.append("def layered : List (String × String × List (String × String)) := [")
    L.append(",\n".join('  ("%s", "%s", [%s])' % (tag, name, ", ".join('("%s", "%s")' % c for c in seq)) for tag, name, seq in lay_rows))
    L.append("]")
    L.append("/-- Layered: (impl, method, control shape connecting the calls) -/")
    L.append("def layeredShape : List (String × String × String) := [")
    L.append(",\n".join('  ("%s", "%s", "%s")' % r for r in shape_rows))
    L.append("]")
    # reload.rs: every callback of the reloadable wrapper WAITS for the lock (`self.inner.read()` / `.write()` through
    # `try_lock!`, which only gives up on a poisoned lock while panicking): a notification is never skipped because a reload
    # happens to be in progress
    import re as _re
    rel_toks = ' '.join(rtok.toks(rel)) if hasattr(rtok, 'toks') else rel
    blocking = ('try_read' not in rel) and ('try_write' not in rel) and ('TryLockError' not in rel)
    L.append("/-- reload.rs never polls its lock (`try_read` / `try_write`): callbacks wait for a reload in progress -/")
    L.append("def reloadLocksBlocking : Bool := %s" % ('true' if blocking else 'false'))
    # Vec<S>::downcast_raw: a Vec answers the per-subscriber-filter marker only if EVERY member does (a member that does not — a
    # plain layer, an absent one — makes the whole Vec an unfiltered subscriber for the enclosing Layered)
    vec_region = reg(sub, r'impl<C, S> Subscribe<C> for alloc::vec::Vec<S>', 'Vec')
    vt = ' '.join(t[1] for t in rtok.tokenize(vec_region))
    vec_all = ('if filter :: is_psf_downcast_marker ( id ) && self . iter ( ) . any ( | s | s . downcast_raw ( id ) . is_none ( ) ) { return None ; }' in vt)
    L.append("/-- `Vec::downcast_raw`: the per-subscriber-filter marker is answered only if every member answers it -/")
    L.append("def vecPsfNeedsEveryMember : Bool := %s" % ('true' if vec_all else 'false'))
    L.append("end TM.Gen.Forwarding")
    sources = ["%s sha256/16=%s" % (k, rtok.sha(v)) for k, v in sorted(srcs.items())]
    return "\n".join(L) + "\n", sources

UNITS = {'Forwarding': unit_Forwarding}
