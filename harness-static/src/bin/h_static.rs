//! C01 executor for the compile-time maximum level: built once per level feature of `tracing` (debug profile); prints the
//! STATIC_MAX_LEVEL the build got and, for every level, whether an event of that level reaches a collector that accepts everything.
use std::sync::atomic::{AtomicUsize, Ordering};
use tracing_core::{span, Collect, Event, Metadata};

static GOT: AtomicUsize = AtomicUsize::new(0);
struct All;
impl Collect for All {
    fn enabled(&self, _: &Metadata<'_>) -> bool { true }
    fn new_span(&self, _: &span::Attributes<'_>) -> span::Id { span::Id::from_u64(1) }
    fn record(&self, _: &span::Id, _: &span::Record<'_>) {}
    fn record_follows_from(&self, _: &span::Id, _: &span::Id) {}
    fn event(&self, _: &Event<'_>) { GOT.fetch_add(1, Ordering::SeqCst); }
    fn enter(&self, _: &span::Id) {}
    fn exit(&self, _: &span::Id) {}
    fn current_span(&self) -> span::Current { span::Current::unknown() }
}

fn rank(f: tracing::level_filters::LevelFilter) -> usize {
    match f.into_level() {
        None => 0,
        Some(l) => if l == tracing::Level::ERROR { 1 } else if l == tracing::Level::WARN { 2 } else if l == tracing::Level::INFO { 3 } else if l == tracing::Level::DEBUG { 4 } else { 5 },
    }
}

fn main() {
    let d = tracing_core::Dispatch::new(All);
    let mut got = Vec::new();
    tracing_core::dispatch::with_default(&d, || {
        macro_rules! one { ($m:ident) => {{ let b = GOT.load(Ordering::SeqCst); tracing::$m!("x"); got.push((GOT.load(Ordering::SeqCst) - b).to_string()); }}; }
        one!(error); one!(warn); one!(info); one!(debug); one!(trace);
    });
    println!("static={} delivered={}", rank(tracing::level_filters::STATIC_MAX_LEVEL), got.join(""));
}
