/-
tmdriver <property> <mode>  —  reads one case per line on stdin, prints one canonical
line per case.  Modes: `model` (what the model of the code does), `spec` (what the
property's specification demands, where it is a function of the case alone).
Only import-free model files may be imported here (the executable must link).
-/
import TracingModel.Core.Wire
import TracingModel.Core.DateTime
import TracingModel.Spec.CivilJudge
import TracingModel.Core.LevelsDriver
import TracingModel.Core.CoreDriver
import TracingModel.Core.ScopeRaceDriver
import TracingModel.Core.HandleRaceDriver
import TracingModel.Core.RegistryDriver
import TracingModel.Core.SpanDriver
import TracingModel.Core.DirectiveDriver
import TracingModel.Core.FilteringDriver
import TracingModel.Core.LookupDriver
import TracingModel.Core.TreeHintDriver
import TracingModel.Core.EnvDynDriver
import TracingModel.Core.NotifyDriver
import TracingModel.Core.ReloadDriver
import TracingModel.Core.RegRaceDriver
import TracingModel.Core.WritersDriver
import TracingModel.Core.JsonDriver
import TracingModel.Core.NonBlockingDriver
import TracingModel.Core.RollingDriver
import TracingModel.Core.MacrosDriver
import TracingModel.Core.InstrumentDriver
import TracingModel.Core.LogBridgeDriver
import TracingModel.Core.CloseGuardDriver

open TM TM.Wire

def c20Model (toks : List String) : String :=
  match toks with
  | [b, s, n] =>
    match parseBool b, s.toNat?, n.toNat? with
    | some b, some s, some n => DateTime.render b s n
    | _, _, _ => "bad-case"
  | _ => "bad-case"

def c20Spec (toks : List String) : String :=
  match toks with
  | [b, s, n] =>
    match parseBool b, s.toNat?, n.toNat? with
    | some b, some s, some n => DateTime.renderMath b s n
    | _, _, _ => "bad-case"
  | _ => "bad-case"

def c20Judge (toks : List String) : String :=
  match toks with
  | [b, s, n, "=>", out] =>
    match parseBool b, s.toNat?, n.toNat? with
    | some b, some s, some n => Spec.CivilJudge.judge b s n out
    | _, _, _ => "bad-case"
  | _ => "bad no-output"

def dispatch (prop mode : String) : Option (List String → String) :=
  match prop, mode with
  | "C01", "model" => some CoreDriver.model
  | "C01", "spec" => some CoreDriver.spec
  | "C02", "model" => some CoreDriver.model
  | "C02", "spec" => some CoreDriver.spec
  | "C02", "modelrace" => some ScopeRaceDriver.model
  | "C03", "model" => some SpanDriver.model
  | "C04", "judge" => some RegRaceDriver.judge
  | "C04", "model" => some CoreDriver.model
  | "C04", "spec" => some CoreDriver.spec
  | "C05", "model" => some RegistryDriver.model
  | "C05", "spec" => some RegistryDriver.spec
  | "C05", "modelhandle" => some HandleRaceDriver.model
  | "C05", "modelnested" => some CloseGuardDriver.model
  | "C05", "specnested" => some CloseGuardDriver.spec
  | "C06", "model" => some RegistryDriver.model
  | "C06", "spec" => some RegistryDriver.spec
  | "C07", "model" => some FilteringDriver.model
  | "C07", "spec" => some FilteringDriver.spec
  | "C07", "modelchain" => some FilteringDriver.modelChain
  | "C06", "modellookup" => some LookupDriver.model
  | "C06", "speclookup" => some LookupDriver.spec
  | "C07", "modellookup" => some LookupDriver.model
  | "C07", "speclookup" => some LookupDriver.spec
  | "C09", "model" => some NotifyDriver.model
  | "C09", "spec" => some NotifyDriver.spec
  | "C09", "modelfilt" => some FilteringDriver.model
  | "C09", "specfilt" => some FilteringDriver.spec
  | "C11", "modeldyn" => some EnvDynDriver.model
  | "C07", "modeldyn" => some EnvDynDriver.model
  | "C08", "modeldyn" => some EnvDynDriver.model
  | "C12", "modeldyn" => some EnvDynDriver.model
  | "C12", "specdyn" => some EnvDynDriver.spec
  | "C07", "specdyn" => some EnvDynDriver.spec
  | "C11", "specdyn" => some EnvDynDriver.spec
  | "C08", "modelhint" => some TreeHintDriver.model
  | "C08", "spechint" => some TreeHintDriver.spec
  | "C08", "model" => some DirectiveDriver.model2
  | "C08", "modelstack" => some FilteringDriver.model
  | "C08", "modelchain" => some FilteringDriver.modelChain
  | "C08", "spec" => some FilteringDriver.spec
  | "C18", "model" => some LogBridgeDriver.modelBridge
  | "C18", "modelfeat" => some LogBridgeDriver.modelFeat
  | "C18", "specfeat" => some LogBridgeDriver.specFeat
  | "C17", "model" => some InstrumentDriver.model
  | "C16", "model" => some RollingDriver.model
  | "C15", "model" => some NonBlockingDriver.model
  | "C14", "model" => some JsonDriver.model
  | "C13", "model" => some WritersDriver.model
  | "C13", "spec" => some WritersDriver.spec
  | "C12", "model" => some ReloadDriver.model
  | "C12", "spec" => some ReloadDriver.spec
  | "C10", "model" => some MacrosDriver.model
  | "C11", "model" => some DirectiveDriver.model
  | "C19", "model" => some LevelsDriver.model
  | "C19", "judge" => some LevelsDriver.judge
  | "C20", "model" => some c20Model
  | "C20", "spec" => some c20Spec
  | "C20", "judge" => some c20Judge
  | _, _ => none

partial def loop (h : IO.FS.Stream) (out : IO.FS.Stream) (f : List String → String) : IO Unit := do
  let line ← h.getLine
  if line.isEmpty then return ()
  out.putStrLn (f (tokens line))
  loop h out f

def main (args : List String) : IO UInt32 := do
  match args with
  | [prop, mode] =>
    match dispatch prop mode with
    | some f =>
      loop (← IO.getStdin) (← IO.getStdout) f
      return 0
    | none =>
      IO.eprintln s!"tmdriver: no mode {mode} for {prop}"
      return 2
  | _ =>
    IO.eprintln "usage: tmdriver <property> <mode>"
    return 2
