-- root of the `TracingModel` library: every property file (so that `lake build` re-checks all of them)
import TracingModel.Props.C01
import TracingModel.Props.C02
import TracingModel.Props.C03
import TracingModel.Props.C04
import TracingModel.Props.C05
import TracingModel.Props.C06
import TracingModel.Props.C07
import TracingModel.Props.C08
import TracingModel.Props.C09
import TracingModel.Props.C11
import TracingModel.Props.C12
import TracingModel.Props.C13
import TracingModel.Props.C14
import TracingModel.Props.C15
import TracingModel.Props.C19
import TracingModel.Props.C20
import TracingModel.AuditLib
