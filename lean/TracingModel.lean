-- root of the `TracingModel` library
import TracingModel.Core.DateTime
