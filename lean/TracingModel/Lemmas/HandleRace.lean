/- invariants of Core/HandleRace for atomic clone / close -/
import TracingModel.Core.HandleRace
import TracingModel.Lemmas.ScopeRace

namespace TM.HandleRace
open TM.ScopeRace (sum_map_upd le_sum_of_mem)

@[simp] theorem updF_same {α : Type} (f : Nat → α) (t : Nat) (v : α) : updF f t v t = v := by simp [updF]
theorem updF_ne {α : Type} (f : Nat → α) (t x : Nat) (v : α) (h : x ≠ t) : updF f t v x = f x := by simp [updF, h]

theorem sum_eq_zero_iff (l : List Nat) (f : Nat → Nat) : (l.map f).sum = 0 ↔ ∀ t ∈ l, f t = 0 := by
  induction l with
  | nil => simp
  | cons a r ih =>
    simp only [List.map_cons, List.sum_cons, List.mem_cons, forall_eq_or_imp]
    constructor
    · intro h; exact ⟨by omega, ih.mp (by omega)⟩
    · intro ⟨h1, h2⟩; have := ih.mpr h2; omega

structure Inv (ths : List Nat) (s : S) : Prop where
  count : s.refs = (ths.map s.held).sum
  once : s.closes = if s.refs = 0 then 1 else 0
  noHalf : ∀ t, s.pc t = .idle

theorem inv_start (ths : List Nat) (hnd : ths.Nodup) (t0 : Nat) (h0 : t0 ∈ ths) : Inv ths (start t0) := by
  refine ⟨?_, by simp [start], fun t => by simp [start]⟩
  have e := sum_map_upd ths hnd (fun _ => 0) (start t0).held t0 h0 (by intro x hx; simp [start, hx])
  have z : ∀ l : List Nat, (l.map fun _ => 0).sum = 0 := by
    intro l
    induction l with
    | nil => rfl
    | cons a r ih => simpa using ih
  have z := z ths
  simp only [start, if_true] at e ⊢
  omega

theorem step_inv (ths : List Nat) (hnd : ths.Nodup) (s : S) (h : Inv ths s) (t : Nat) (a : Act) (ht : t ∈ ths)
    (hu : ∀ u, a = .give u → u ∈ ths) : Inv ths (step true true s (t, a)) := by
  unfold step
  simp only [h.noHalf t]
  cases a with
  | clone =>
    simp only
    by_cases h0 : s.held t = 0
    · simpa [h0] using h
    · simp only [h0, if_false, if_true]
      have hle := le_sum_of_mem ths s.held t ht
      have e := sum_map_upd ths hnd s.held (updF s.held t (s.held t + 1)) t ht (by intro x hx; exact updF_ne _ _ _ _ hx)
      rw [updF_same] at e
      have hc := h.count
      have ho := h.once
      have hr : ¬ s.refs = 0 := by omega
      rw [if_neg hr] at ho
      refine ⟨?_, ?_, h.noHalf⟩
      · show s.refs + 1 = (ths.map (updF s.held t (s.held t + 1))).sum; omega
      · show s.closes = if s.refs + 1 = 0 then 1 else 0
        rw [if_neg (by omega)]; exact ho
  | drop =>
    simp only
    by_cases h0 : s.held t = 0
    · simpa [h0] using h
    · simp only [h0, if_false, if_true]
      have hle := le_sum_of_mem ths s.held t ht
      have e := sum_map_upd ths hnd s.held (updF s.held t (s.held t - 1)) t ht (by intro x hx; exact updF_ne _ _ _ _ hx)
      rw [updF_same] at e
      have hc := h.count
      have ho := h.once
      have hr : ¬ s.refs = 0 := by omega
      rw [if_neg hr] at ho
      refine ⟨?_, ?_, h.noHalf⟩
      · show s.refs - 1 = (ths.map (updF s.held t (s.held t - 1))).sum; omega
      · show s.closes + (if s.refs = 1 then 1 else 0) = if s.refs - 1 = 0 then 1 else 0
        by_cases e1 : s.refs = 1
        · rw [if_pos e1, if_pos (by omega)]; omega
        · rw [if_neg e1, if_neg (by omega)]; omega
  | step => simpa using h
  | give u =>
    simp only
    by_cases h0 : (s.held t = 0 || u = t) = true
    · simpa [h0] using h
    · simp only [h0]
      have h0' : ¬ s.held t = 0 ∧ ¬ u = t := by simpa using h0
      have e1 := sum_map_upd ths hnd s.held (updF s.held t (s.held t - 1)) t ht (by intro x hx; exact updF_ne _ _ _ _ hx)
      have e2 := sum_map_upd ths hnd (updF s.held t (s.held t - 1)) (updF (updF s.held t (s.held t - 1)) u (s.held u + 1)) u (hu u rfl)
        (by intro x hx; exact updF_ne _ _ _ _ hx)
      rw [updF_same] at e1 e2
      rw [updF_ne _ _ _ _ h0'.2] at e2
      have hc := h.count
      refine ⟨?_, h.once, h.noHalf⟩
      show s.refs = (ths.map (updF (updF s.held t (s.held t - 1)) u (s.held u + 1))).sum
      omega

/-- every thread a schedule mentions (as actor or as receiver of a handle) is one of `ths` -/
def Within (ths : List Nat) (sched : List (Nat × Act)) : Prop :=
  ∀ ta ∈ sched, ta.1 ∈ ths ∧ ∀ u, ta.2 = .give u → u ∈ ths

theorem run_inv (ths : List Nat) (hnd : ths.Nodup) (sched : List (Nat × Act)) (hs : Within ths sched)
    (s : S) (h : Inv ths s) : Inv ths (run true true s sched) := by
  induction sched generalizing s with
  | nil => exact h
  | cons ta rest ih =>
    obtain ⟨t, a⟩ := ta
    have hh := hs (t, a) (by simp)
    exact ih (fun x hx => hs x (List.mem_cons_of_mem _ hx)) _ (step_inv ths hnd s h t a hh.1 hh.2)

/-- closed at most once, and closed exactly when no thread holds a handle -/
theorem closed_iff_no_handles (ths : List Nat) (s : S) (h : Inv ths s) :
    s.closes ≤ 1 ∧ (s.closes = 1 ↔ ∀ t ∈ ths, s.held t = 0) := by
  have ho := h.once
  have hz := sum_eq_zero_iff ths s.held
  rw [← h.count] at hz
  by_cases e : s.refs = 0
  · rw [if_pos e] at ho
    exact ⟨by omega, ⟨fun _ => hz.mp e, fun _ => ho⟩⟩
  · rw [if_neg e] at ho
    refine ⟨by omega, ⟨fun h1 => by omega, fun h2 => absurd (hz.mpr h2) e⟩⟩

end TM.HandleRace
