import TracingModel.Core.Filtering
import TracingModel.Props.C08

namespace TM.FilteringLemmas
open TM.Filtering TM.FilterExpr TM.Directive
open TM.Callsite (Interest)

def fidOf : Node → Option Nat
  | .filt fid _ _ => some fid
  | _ => none

def fids (st : List Node) : List Nat := st.filterMap fidOf

/-- filter ids are distinct (each `Filtered` registers its own id with the registry) -/
def WF (st : List Node) : Prop := (fids st).Nodup

/-- every filter expression in the stack is honest (C08) -/
def HonestStack (st : List Node) : Prop :=
  ∀ nd ∈ st, match nd with
    | .glob g => C08.Honest g
    | .filt _ f _ => C08.Honest f
    | .plain _ => True

@[simp] theorem fids_plain (n : Nat) (r : List Node) : fids (Node.plain n :: r) = fids r := by
  simp [fids, List.filterMap_cons, fidOf]
@[simp] theorem fids_glob (g : FExpr) (r : List Node) : fids (Node.glob g :: r) = fids r := by
  simp [fids, List.filterMap_cons, fidOf]
@[simp] theorem fids_filt (fid : Nat) (f : FExpr) (n : Nat) (r : List Node) : fids (Node.filt fid f n :: r) = fid :: fids r := by
  simp [fids, List.filterMap_cons, fidOf]

theorem nodup_reverse' {α} (l : List α) (h : l.Nodup) : l.reverse.Nodup := by
  unfold List.Nodup at *
  rw [List.pairwise_reverse]
  exact h.imp (fun hab => fun e => hab e.symm)

theorem filterMap_congr' {α β} (f g : α → Option β) (l : List α) (h : ∀ a ∈ l, f a = g a) :
    l.filterMap f = l.filterMap g := by
  induction l with
  | nil => rfl
  | cons x xs ih =>
    simp only [List.filterMap_cons, h x (by simp), ih (fun a ha => h a (List.mem_cons_of_mem _ ha))]

/-! ### bitmap operations -/

theorem mem_setBit_true (b : Bits) (fid x : Nat) : x ∈ setBit b fid true ↔ x = fid ∨ x ∈ b := by
  unfold setBit
  simp only [if_true]
  by_cases hc : b.contains fid = true
  · simp only [hc, if_true]
    have : fid ∈ b := by simpa using hc
    constructor
    · intro hx; exact Or.inr hx
    · rintro (rfl | hx) <;> assumption
  · simp only [hc, Bool.false_eq_true, if_false, List.mem_cons]

theorem mem_setBit_false (b : Bits) (fid x : Nat) : x ∈ setBit b fid false ↔ x ∈ b ∧ x ≠ fid := by
  unfold setBit
  simp only [Bool.false_eq_true, if_false, List.mem_filter, decide_eq_true_eq]

/-- what the `enabled` pass computes (nodes outermost first): either some global filter vetoes
(clean bitmap, `false`), or the bitmap gains exactly the ids of the per-layer filters that reject -/
theorem enabledPass_spec (m : Meta) (c : Ctx) (l : List Node) (b : Bits) (hwf : (fids l).Nodup) :
    (∃ g, Node.glob g ∈ l ∧ enabledF g m c = false ∧ enabledPass m c l b = (Bits.clean, false)) ∨
    ((∀ g, Node.glob g ∈ l → enabledF g m c = true) ∧ (enabledPass m c l b).2 = true ∧
     ∀ x, x ∈ (enabledPass m c l b).1 ↔
       (∃ f n, Node.filt x f n ∈ l ∧ enabledF f m c = false) ∨ (x ∈ b ∧ x ∉ fids l)) := by
  induction l generalizing b with
  | nil => right; simp [enabledPass, fids]
  | cons nd rest ih =>
    cases nd with
    | plain n =>
      have hwf' : (fids rest).Nodup := by
        first | (rw [show fids (Node.plain n :: rest) = fids rest from by simp [fids, List.filterMap_cons, fidOf]] at hwf; exact hwf) | (rw [show fids (Node.glob g0 :: rest) = fids rest from by simp [fids, List.filterMap_cons, fidOf]] at hwf; exact hwf)
      simp only [enabledPass]
      rcases ih b hwf' with ⟨g, hg, he, hr⟩ | ⟨h1, h2, h3⟩
      · left; exact ⟨g, List.mem_cons_of_mem _ hg, he, hr⟩
      · right
        refine ⟨?_, h2, ?_⟩
        · intro g hg; rcases List.mem_cons.mp hg with h | h
          · cases h
          · exact h1 g h
        · intro x; rw [h3 x]
          simp [fids, fidOf]
    | glob g0 =>
      have hwf' : (fids rest).Nodup := by
        first | (rw [show fids (Node.plain n :: rest) = fids rest from by simp [fids, List.filterMap_cons, fidOf]] at hwf; exact hwf) | (rw [show fids (Node.glob g0 :: rest) = fids rest from by simp [fids, List.filterMap_cons, fidOf]] at hwf; exact hwf)
      simp only [enabledPass]
      by_cases hg0 : enabledF g0 m c = true
      · simp only [hg0, if_true]
        rcases ih b hwf' with ⟨g, hg, he, hr⟩ | ⟨h1, h2, h3⟩
        · left; exact ⟨g, List.mem_cons_of_mem _ hg, he, hr⟩
        · right
          refine ⟨?_, h2, ?_⟩
          · intro g hg; rcases List.mem_cons.mp hg with h | h
            · cases h; exact hg0
            · exact h1 g h
          · intro x; rw [h3 x]
            simp [fids, fidOf]
      · left
        refine ⟨g0, by simp, by simpa using hg0, ?_⟩
        simp [hg0]
    | filt fid f n =>
      have hwf2 : fid ∉ fids rest ∧ (fids rest).Nodup := by simpa [fids, fidOf] using hwf
      simp only [enabledPass]
      rcases ih (setBit b fid (!enabledF f m c)) hwf2.2 with ⟨g, hg, he, hr⟩ | ⟨h1, h2, h3⟩
      · left; exact ⟨g, List.mem_cons_of_mem _ hg, he, hr⟩
      · right
        refine ⟨?_, h2, ?_⟩
        · intro g hg; rcases List.mem_cons.mp hg with h | h
          · cases h
          · exact h1 g h
        · intro x
          rw [h3 x]
          have hfl : fids (Node.filt fid f n :: rest) = fid :: fids rest := by simp [fids, fidOf]
          rw [hfl]
          cases hef : enabledF f m c with
          | true =>
            simp only [Bool.not_true, mem_setBit_false, List.mem_cons, not_or, Node.filt.injEq]
            constructor
            · rintro (⟨f', n', hm, he⟩ | ⟨⟨hx, hne⟩, hnot⟩)
              · exact Or.inl ⟨f', n', Or.inr hm, he⟩
              · exact Or.inr ⟨hx, hne, hnot⟩
            · rintro (⟨f', n', (⟨rfl, rfl, rfl⟩ | hm), he⟩ | ⟨hx, hne, hnot⟩)
              · rw [hef] at he; cases he
              · exact Or.inl ⟨f', n', hm, he⟩
              · exact Or.inr ⟨⟨hx, hne⟩, hnot⟩
          | false =>
            simp only [Bool.not_false, mem_setBit_true, List.mem_cons, not_or, Node.filt.injEq]
            constructor
            · rintro (⟨f', n', hm, he⟩ | ⟨(rfl | hx), hnot⟩)
              · exact Or.inl ⟨f', n', Or.inr hm, he⟩
              · exact Or.inl ⟨f, n, Or.inl ⟨rfl, rfl, rfl⟩, hef⟩
              · by_cases e : x = fid
                · subst e; exact Or.inl ⟨f, n, Or.inl ⟨rfl, rfl, rfl⟩, hef⟩
                · exact Or.inr ⟨hx, e, hnot⟩
            · rintro (⟨f', n', (⟨rfl, rfl, rfl⟩ | hm), he⟩ | ⟨hx, hne, hnot⟩)
              · exact Or.inr ⟨Or.inl rfl, hwf2.1⟩
              · exact Or.inl ⟨f', n', hm, he⟩
              · exact Or.inr ⟨Or.inr hx, hnot⟩

/-- who a delivery pass reaches, given the bitmap it starts from -/
def recvOf (b : Bits) : Node → Option Nat
  | .plain n => some n
  | .glob _ => none
  | .filt fid _ n => if fid ∈ b then none else some n

theorem recv_congr (l : List Node) (b b' : Bits) (h : ∀ x ∈ fids l, (x ∈ b ↔ x ∈ b')) :
    l.filterMap (recvOf b) = l.filterMap (recvOf b') := by
  induction l with
  | nil => rfl
  | cons nd rest ih =>
    have hr : ∀ x ∈ fids rest, (x ∈ b ↔ x ∈ b') := by
      intro x hx; apply h
      cases nd with
      | plain n => rw [fids_plain]; exact hx
      | glob g => rw [fids_glob]; exact hx
      | filt fid f n => rw [fids_filt]; exact List.mem_cons_of_mem _ hx
    cases nd with
    | plain n => simp only [List.filterMap_cons, recvOf, ih hr]
    | glob g => simp only [List.filterMap_cons, recvOf, ih hr]
    | filt fid f n =>
      have := h fid (by simp)
      simp only [List.filterMap_cons, recvOf, ih hr]
      by_cases hb : fid ∈ b
      · have hb' := this.mp hb; simp [hb, hb']
      · have hb' : fid ∉ b' := fun x => hb (this.mpr x); simp [hb, hb']

theorem isDisabled_iff (b : Bits) (fid : Nat) : isDisabled b fid = true ↔ fid ∈ b := by
  simp [isDisabled]

/-- delivery reaches exactly the layers whose bit is not set, and consumes those bits -/
theorem deliverPass_spec (l : List Node) (b : Bits) (hwf : (fids l).Nodup) :
    (deliverPass l b).2 = l.filterMap (recvOf b) ∧
    ∀ x, x ∈ (deliverPass l b).1 ↔ x ∈ b ∧ x ∉ fids l := by
  induction l generalizing b with
  | nil => simp [deliverPass, fids]
  | cons nd rest ih =>
    cases nd with
    | plain n =>
      have hf : fids (Node.plain n :: rest) = fids rest := fids_plain n rest
      rw [hf] at hwf ⊢
      obtain ⟨i1, i2⟩ := ih b hwf
      simp only [deliverPass, List.filterMap_cons, recvOf, i1]
      exact ⟨trivial, i2⟩
    | glob g =>
      have hf : fids (Node.glob g :: rest) = fids rest := fids_glob g rest
      rw [hf] at hwf ⊢
      obtain ⟨i1, i2⟩ := ih b hwf
      simp only [deliverPass, List.filterMap_cons, recvOf, i1]
      exact ⟨trivial, i2⟩
    | filt fid f n =>
      have hf : fids (Node.filt fid f n :: rest) = fid :: fids rest := fids_filt fid f n rest
      rw [hf] at hwf ⊢
      have hwf2 : fid ∉ fids rest ∧ (fids rest).Nodup := by simpa using hwf
      simp only [deliverPass]
      by_cases hd : isDisabled b fid = true
      · have hin : fid ∈ b := (isDisabled_iff b fid).mp hd
        obtain ⟨i1, i2⟩ := ih (setBit b fid false) hwf2.2
        simp only [hd, if_true, List.filterMap_cons, recvOf, hin, i1]
        constructor
        · apply recv_congr
          intro x hx
          rw [mem_setBit_false]
          constructor
          · intro h; exact h.1
          · intro h; exact ⟨h, fun e => hwf2.1 (e ▸ hx)⟩
        · intro x
          rw [i2 x, mem_setBit_false]
          simp only [List.mem_cons, not_or]
          constructor
          · rintro ⟨⟨h1, h2⟩, h3⟩; exact ⟨h1, h2, h3⟩
          · rintro ⟨h1, h2, h3⟩; exact ⟨⟨h1, h2⟩, h3⟩
      · have hin : fid ∉ b := fun h => hd ((isDisabled_iff b fid).mpr h)
        obtain ⟨i1, i2⟩ := ih b hwf2.2
        simp only [hd, Bool.false_eq_true, if_false, List.filterMap_cons, recvOf, hin, i1]
        refine ⟨trivial, ?_⟩
        intro x
        rw [i2 x]
        simp only [List.mem_cons, not_or]
        constructor
        · rintro ⟨h1, h3⟩; exact ⟨h1, fun e => hin (e ▸ h1), h3⟩
        · rintro ⟨h1, _, h3⟩; exact ⟨h1, h3⟩

end TM.FilteringLemmas

namespace TM.FilteringLemmas
open TM.Filtering TM.FilterExpr TM.Directive
open TM.Callsite (Interest)

/-! ### interest accumulation (`FilterState::add_interest`) -/

theorem foldl_add_some (l : List Interest) (c : Interest) :
    ∃ r, l.foldl addInterest (some c) = some r ∧
      (r = .always ↔ c = .always ∧ ∀ i ∈ l, i = .always) ∧
      (r = .never ↔ c = .never ∧ ∀ i ∈ l, i = .never) := by
  induction l generalizing c with
  | nil => exact ⟨c, rfl, by simp, by simp⟩
  | cons x xs ih =>
    simp only [List.foldl_cons, addInterest]
    by_cases h : (c = .always ∧ x ≠ .always) ∨ (c = .never ∧ x ≠ .never)
    · simp only [h, if_true]
      obtain ⟨r, hr, h1, h2⟩ := ih .sometimes
      refine ⟨r, hr, ?_, ?_⟩
      · rw [h1]; constructor
        · rintro ⟨e, _⟩; cases e
        · rintro ⟨e, ha⟩
          rcases h with ⟨_, hx⟩ | ⟨hc, _⟩
          · exact absurd (ha x (by simp)) hx
          · rw [e] at hc; cases hc
      · rw [h2]; constructor
        · rintro ⟨e, _⟩; cases e
        · rintro ⟨e, ha⟩
          rcases h with ⟨hc, _⟩ | ⟨_, hx⟩
          · rw [e] at hc; cases hc
          · exact absurd (ha x (by simp)) hx
    · simp only [h, if_false]
      obtain ⟨r, hr, h1, h2⟩ := ih c
      refine ⟨r, hr, ?_, ?_⟩
      · rw [h1]; constructor
        · rintro ⟨e, ha⟩
          refine ⟨e, ?_⟩
          intro i hi
          rcases List.mem_cons.mp hi with rfl | hi
          · by_cases hx : i = .always
            · exact hx
            · exact absurd (Or.inl ⟨e, hx⟩) h
          · exact ha i hi
        · rintro ⟨e, ha⟩; exact ⟨e, fun i hi => ha i (List.mem_cons_of_mem _ hi)⟩
      · rw [h2]; constructor
        · rintro ⟨e, ha⟩
          refine ⟨e, ?_⟩
          intro i hi
          rcases List.mem_cons.mp hi with rfl | hi
          · by_cases hx : i = .never
            · exact hx
            · exact absurd (Or.inr ⟨e, hx⟩) h
          · exact ha i hi
        · rintro ⟨e, ha⟩; exact ⟨e, fun i hi => ha i (List.mem_cons_of_mem _ hi)⟩

/-- the interests of the per-layer filters of a node list, in order -/
def filtInterests (m : Meta) (l : List Node) : List Interest :=
  l.filterMap fun nd => match nd with | .filt _ f _ => some (callsiteF f m) | _ => none

def pendAfter (m : Meta) (pend : Option Interest) (l : List Node) : Option Interest :=
  (filtInterests m l).foldl addInterest pend

theorem pendAfter_cons_filt (m : Meta) (pend : Option Interest) (fid : Nat) (f : FExpr) (n : Nat) (l : List Node) :
    pendAfter m pend (.filt fid f n :: l) = pendAfter m (addInterest pend (callsiteF f m)) l := by
  simp [pendAfter, filtInterests]

theorem pendAfter_cons_other (m : Meta) (pend : Option Interest) (nd : Node) (l : List Node) (h : nd.isFilt = false) :
    pendAfter m pend (nd :: l) = pendAfter m pend l := by
  cases nd <;> simp_all [pendAfter, filtInterests, Node.isFilt]

theorem pick_always (i : Interest × Option Interest) :
    ((if i.1 = .never then ((Interest.sometimes, i.2) : Interest × Option Interest) else i).1 ≠ .never) ∧
    ((if i.1 = .never then ((Interest.sometimes, i.2) : Interest × Option Interest) else i).1 = .always →
      i.1 = .always ∧ (if i.1 = .never then ((Interest.sometimes, i.2) : Interest × Option Interest) else i).2 = i.2) := by
  by_cases h : i.1 = .never
  · simp [h]
  · simp [h]

/-- what `register_callsite` of the and_then tree answers -/
theorem regTree_spec (m : Meta) (l : List Node) (hl : l ≠ []) (pend : Option Interest) :
    ((regTree m l pend).1 = .never → ∃ g, Node.glob g ∈ l ∧ callsiteF g m = .never) ∧
    ((regTree m l pend).1 = .always →
      (∀ g, Node.glob g ∈ l → callsiteF g m = .always) ∧ (regTree m l pend).2 = pendAfter m pend l) := by
  induction l generalizing pend with
  | nil => exact absurd rfl hl
  | cons nd below ih =>
    cases below with
    | nil =>
      cases nd with
      | plain n => simp [regTree, nodeInterest, pendAfter, filtInterests]
      | glob g => simp [regTree, nodeInterest, pendAfter, filtInterests]
      | filt fid f n => simp [regTree, nodeInterest, pendAfter, filtInterests]
    | cons nd2 rest =>
      have ihb := ih (by simp)
      cases nd with
      | filt fid f n =>
        simp only [regTree, nodeInterest, Node.isFilt, if_true]
        obtain ⟨i1, i2⟩ := ihb (addInterest pend (callsiteF f m))
        constructor
        · intro h; obtain ⟨g, hg, he⟩ := i1 h; exact ⟨g, List.mem_cons_of_mem _ hg, he⟩
        · intro h
          obtain ⟨a, b⟩ := i2 h
          refine ⟨?_, by rw [b, pendAfter_cons_filt]⟩
          intro g hg
          rcases List.mem_cons.mp hg with e | hg
          · cases e
          · exact a g hg
      | plain n =>
        have hr : regTree m (Node.plain n :: nd2 :: rest) pend = regTree m (nd2 :: rest) pend := by
          simp [regTree, nodeInterest, Node.isFilt]
        rw [hr]
        obtain ⟨i1, i2⟩ := ihb pend
        constructor
        · intro h; obtain ⟨g, hg, he⟩ := i1 h; exact ⟨g, List.mem_cons_of_mem _ hg, he⟩
        · intro h
          obtain ⟨a, b⟩ := i2 h
          refine ⟨?_, by rw [b, pendAfter_cons_other m pend (Node.plain n) (nd2 :: rest) rfl]⟩
          intro g hg
          rcases List.mem_cons.mp hg with e | hg
          · cases e
          · exact a g hg
      | glob g0 =>
        obtain ⟨i1, i2⟩ := ihb pend
        by_cases h0 : callsiteF g0 m = .never
        · have hr : regTree m (Node.glob g0 :: nd2 :: rest) pend = (.never, none) := by
            simp [regTree, nodeInterest, Node.isFilt, h0]
          rw [hr]
          exact ⟨fun _ => ⟨g0, by simp, h0⟩, by intro h; simp at h⟩
        · by_cases hs : callsiteF g0 m = .sometimes
          · have hr : regTree m (Node.glob g0 :: nd2 :: rest) pend = (.sometimes, (regTree m (nd2 :: rest) pend).2) := by
              simp [regTree, nodeInterest, Node.isFilt, hs]
            rw [hr]
            exact ⟨by intro h; simp at h, by intro h; simp at h⟩
          · have ha : callsiteF g0 m = .always := by
              cases hc : callsiteF g0 m <;> simp_all
            have hr : regTree m (Node.glob g0 :: nd2 :: rest) pend = regTree m (nd2 :: rest) pend := by
              simp [regTree, nodeInterest, Node.isFilt, ha]
            rw [hr]
            constructor
            · intro h; obtain ⟨g, hg, he⟩ := i1 h; exact ⟨g, List.mem_cons_of_mem _ hg, he⟩
            · intro h
              obtain ⟨a, b⟩ := i2 h
              refine ⟨?_, by rw [b, pendAfter_cons_other m pend (Node.glob g0) (nd2 :: rest) rfl]⟩
              intro g hg
              rcases List.mem_cons.mp hg with e | hg
              · cases e; exact ha
              · exact a g hg

/-- an all-filtered tree answers `always` and only accumulates -/
theorem regTree_allFilt (m : Meta) (l : List Node) (hl : l ≠ []) (h : l.all Node.isFilt = true) (pend : Option Interest) :
    regTree m l pend = (.always, pendAfter m pend l) := by
  induction l generalizing pend with
  | nil => exact absurd rfl hl
  | cons nd below ih =>
    simp only [List.all_cons, Bool.and_eq_true] at h
    cases nd with
    | plain n => simp [Node.isFilt] at h
    | glob g => simp [Node.isFilt] at h
    | filt fid f n =>
      cases below with
      | nil => simp [regTree, nodeInterest, pendAfter, filtInterests]
      | cons nd2 rest =>
        simp only [regTree, nodeInterest, Node.isFilt, if_true]
        rw [ih (by simp) h.2, pendAfter_cons_filt]

end TM.FilteringLemmas
