import TracingModel.Lemmas.Civil.Check
namespace TM.Civil
theorem chunk0 : allFrom okDoe 0 37000 = true := by decide +kernel
end TM.Civil
