import TracingModel.Lemmas.Civil.Check
namespace TM.Civil
theorem chunk1 : allFrom okDoe 37000 37000 = true := by decide +kernel
end TM.Civil
