/- the year-of-era step of the day-number → date conversion, checked for every day of the 400-year era (kernel evaluation,
split over four modules so that they build in parallel) -/
namespace TM.Civil

def yoeOf (doe : Nat) : Nat := (doe - doe / 1460 + doe / 36524 - doe / 146096) / 365

/-- the year of the era is at most 399, its first day is not after `doe`, and `doe` is at most 365 days later -/
def okDoe (doe : Nat) : Bool :=
  let y := yoeOf doe
  decide (y ≤ 399) && decide (365 * y + y / 4 - y / 100 ≤ doe) && decide (doe - (365 * y + y / 4 - y / 100) ≤ 365)

/-- `okDoe` on `lo, lo+1, …, lo+n-1` -/
def allFrom (p : Nat → Bool) (lo : Nat) : Nat → Bool
  | 0 => true
  | n + 1 => p (lo + n) && allFrom p lo n

theorem allFrom_spec (p : Nat → Bool) (lo n : Nat) (h : allFrom p lo n = true) (i : Nat) (hi : i < n) : p (lo + i) = true := by
  induction n with
  | zero => omega
  | succ n ih =>
    simp only [allFrom, Bool.and_eq_true] at h
    by_cases e : i = n
    · subst e; exact h.1
    · exact ih h.2 (by omega)

end TM.Civil
