import TracingModel.Lemmas.Civil.Check
namespace TM.Civil
theorem chunk2 : allFrom okDoe 74000 37000 = true := by decide +kernel
end TM.Civil
