import TracingModel.Lemmas.Civil.Check
namespace TM.Civil
theorem chunk3 : allFrom okDoe 111000 35097 = true := by decide +kernel
end TM.Civil
