/- lemmas for C09: the table-interpreting fan-out model refines the list specification -/
import TracingModel.Core.Notify
import TracingModel.Spec.NotifySpec

namespace TM.Notify
open TM.NotifySpec
open TM.Callsite (Interest)

/-- what the generated table must say about a Subscribe-level data notification -/
abbrev SeqInnerFirst (m : String) : Prop :=
  shape "Subscribe" m = "seq" ∧ calls "Subscribe" m = [("inner", m), ("subscriber", m)]

abbrev SeqOuterFirst (m : String) : Prop :=
  shape "Subscribe" m = "seq" ∧ calls "Subscribe" m = [("subscriber", m), ("inner", m)]

abbrev GuardOuterFirst (m : String) : Prop :=
  shape "Subscribe" m = "guard" ∧ calls "Subscribe" m = [("subscriber", m), ("inner", m)]

theorem notifyT_inner_first {m : String} (h : SeqInnerFirst m) (t : Tree) :
    notifyT t m = sNotify (leaves t) m := by
  induction t with
  | leaf l => simp [notifyT, leaves, sNotify]
  | node i o ihi iho =>
    simp only [notifyT, h.1, h.2, beq_self_eq_true, if_true, List.flatMap_cons, List.flatMap_nil,
      List.append_nil, leaves, sNotify, List.map_append]
    simp only [show (("subscriber" : String) == "inner") = false by decide, Bool.false_eq_true, if_false]
    rw [ihi, iho]; simp [sNotify]

theorem notifyT_outer_first {m : String} (h : SeqOuterFirst m) (t : Tree) :
    notifyT t m = sNotify (leaves t).reverse m := by
  induction t with
  | leaf l => simp [notifyT, leaves, sNotify]
  | node i o ihi iho =>
    simp only [notifyT, h.1, h.2, beq_self_eq_true, if_true, List.flatMap_cons, List.flatMap_nil,
      List.append_nil, leaves, sNotify, List.reverse_append, List.map_append]
    simp only [show (("subscriber" : String) == "inner") = false by decide, Bool.false_eq_true, if_false]
    rw [ihi, iho]; simp [sNotify]

theorem sCheckGo_append (ans : Layer → Bool) (m : String) (a b : List Layer) :
    sCheckGo ans m (a ++ b) =
      (if (sCheckGo ans m a).1 then ((sCheckGo ans m b).1, (sCheckGo ans m a).2 ++ (sCheckGo ans m b).2)
       else (false, (sCheckGo ans m a).2)) := by
  induction a with
  | nil => simp [sCheckGo]
  | cons x rest ih =>
    simp only [List.cons_append, sCheckGo]
    by_cases hx : ans x = true
    · simp only [hx, if_true, ih]
      by_cases hr : (sCheckGo ans m rest).1 = true <;> simp [hr]
    · simp [hx]

theorem checkT_outer_first {m : String} (h : GuardOuterFirst m) (ans : Layer → Bool) (t : Tree) :
    checkT ans t m = sCheckGo ans m (leaves t).reverse := by
  induction t with
  | leaf l =>
    simp only [checkT, leaves, List.reverse_cons, List.reverse_nil, List.nil_append, sCheckGo]
    by_cases hl : ans l = true <;> simp [hl]
  | node i o ihi iho =>
    simp only [checkT, h.1, h.2, beq_self_eq_true, if_true, leaves, List.reverse_append]
    simp only [show (("subscriber" : String) == "inner") = false by decide, Bool.false_eq_true, if_false]
    rw [sCheckGo_append, ihi, iho]

/-- the answer of a check is the conjunction of the layers' answers -/
theorem sCheckGo_all (ans : Layer → Bool) (m : String) (ls : List Layer) :
    (sCheckGo ans m ls).1 = ls.all ans := by
  induction ls with
  | nil => rfl
  | cons x rest ih =>
    simp only [sCheckGo, List.all_cons]
    by_cases hx : ans x = true <;> simp [hx, ih]

/-- who was asked: the layers up to and including the first that vetoed, outermost first -/
theorem sCheckGo_log_prefix (ans : Layer → Bool) (m : String) (ls : List Layer) :
    (sCheckGo ans m ls).2 <+: ls.map (fun l => (l.n, m)) := by
  induction ls with
  | nil => simp [sCheckGo]
  | cons x rest ih =>
    simp only [sCheckGo, List.map_cons]
    by_cases hx : ans x = true
    · simp only [hx, if_true]
      exact List.prefix_cons_inj _ |>.mpr ih
    · simp only [hx, Bool.false_eq_true, if_false]
      exact ⟨rest.map (fun l => (l.n, m)), by simp⟩

theorem sCheckGo_log_full (ans : Layer → Bool) (m : String) (ls : List Layer)
    (h : (sCheckGo ans m ls).1 = true) : (sCheckGo ans m ls).2 = ls.map (fun l => (l.n, m)) := by
  induction ls with
  | nil => simp [sCheckGo]
  | cons x rest ih =>
    simp only [sCheckGo] at h ⊢
    by_cases hx : ans x = true
    · simp only [hx, if_true] at h ⊢
      simp [ih h]
    · simp [hx] at h

/-! ### registration -/

def NoNever (t : Tree) : Prop := ∀ l ∈ leaves t, ∀ k, l.kind ≠ .never k

theorem staticInterest_ne_never (lvl : Nat) (l : Layer) (h : ∀ k, l.kind ≠ .never k) :
    staticInterest lvl l.kind ≠ .never := by
  cases hk : l.kind with
  | plain => simp [staticInterest]
  | metaVeto k => simp [staticInterest]
  | eventVeto k => simp [staticInterest]
  | never k => exact absurd hk (h k)

theorem registerT_noNever (lvl : Nat) (t : Tree) (h : NoNever t) :
    registerT lvl t = sRegister lvl (leaves t) ∧ (registerT lvl t).1 ≠ .never := by
  induction t with
  | leaf l =>
    have hl := staticInterest_ne_never lvl l (h l (by simp [leaves]))
    refine ⟨?_, by simpa [registerT] using hl⟩
    simp only [registerT, sRegister, leaves, List.any_cons, List.any_nil, Bool.or_false,
      List.reverse_cons, List.reverse_nil, List.nil_append, List.map_cons, List.map_nil]
    cases hk : staticInterest lvl l.kind <;> simp_all
  | node i o ihi iho =>
    have hi : NoNever i := fun l hl k => h l (by simp [leaves, hl]) k
    have ho : NoNever o := fun l hl k => h l (by simp [leaves, hl]) k
    obtain ⟨ei, ni⟩ := ihi hi
    obtain ⟨eo, no⟩ := iho ho
    have key : registerT lvl (.node i o) =
        (if (registerT lvl o).1 = .sometimes then .sometimes else (registerT lvl i).1,
         (registerT lvl o).2 ++ (registerT lvl i).2) := by
      simp only [registerT, no, if_false, ni]
    refine ⟨?_, ?_⟩
    · rw [key, ei, eo]
      simp only [sRegister, leaves, List.any_append, List.reverse_append, List.map_append]
      by_cases a : (leaves o).any (fun l => staticInterest lvl l.kind == .sometimes) = true
      · simp [a]
      · by_cases b : (leaves i).any (fun l => staticInterest lvl l.kind == .sometimes) = true
        · simp [a, b]
        · simp [a, b]
    · rw [key]
      by_cases a : (registerT lvl o).1 = .sometimes
      · simp [a]
      · simp only [a, if_false]; exact ni

end TM.Notify

/-! ### absent layers (`None`, an empty `Vec`, `Identity`): numbered 0, always interested, accept everything -/

namespace TM.NotifySpec
open TM.Notify
open TM.Callsite (Interest)

def AbsentPlain (ls : List Layer) : Prop := ∀ l ∈ ls, l.n = 0 → l.kind = .plain

theorem vis_append (a b : List Entry) : vis (a ++ b) = vis a ++ vis b := by simp [vis]

theorem vis_sNotify (ls : List Layer) (m : String) : vis (sNotify ls m) = sNotify (present ls) m := by
  induction ls with
  | nil => rfl
  | cons x rest ih =>
    simp only [sNotify, vis, present, List.map_cons, List.filter_cons] at ih ⊢
    by_cases hx : x.n = 0 <;> simp [hx, ih]

theorem present_reverse (ls : List Layer) : present ls.reverse = (present ls).reverse := by
  simp [present, List.filter_reverse]

theorem sCheckGo_present (ans : Layer → Bool) (m : String) (ls : List Layer)
    (h : ∀ l ∈ ls, l.n = 0 → ans l = true) :
    (sCheckGo ans m ls).1 = (sCheckGo ans m (present ls)).1 ∧
    vis (sCheckGo ans m ls).2 = (sCheckGo ans m (present ls)).2 := by
  induction ls with
  | nil => exact ⟨rfl, rfl⟩
  | cons x rest ih =>
    have ih := ih (fun l hl => h l (List.mem_cons_of_mem _ hl))
    by_cases hx : x.n = 0
    · have hax := h x (by simp) hx
      have hp : present (x :: rest) = present rest := by simp [present, hx]
      simp only [sCheckGo, hax, if_true, hp]
      refine ⟨ih.1, ?_⟩
      have : vis ((x.n, m) :: (sCheckGo ans m rest).2) = vis (sCheckGo ans m rest).2 := by simp [vis, hx]
      rw [this]; exact ih.2
    · have hp : present (x :: rest) = x :: present rest := by simp [present, hx]
      simp only [sCheckGo, hp]
      by_cases hax : ans x = true
      · simp only [hax, if_true]
        refine ⟨ih.1, ?_⟩
        have : vis ((x.n, m) :: (sCheckGo ans m rest).2) = (x.n, m) :: vis (sCheckGo ans m rest).2 := by simp [vis, hx]
        rw [this, ih.2]
      · simp only [hax, Bool.false_eq_true, if_false]
        exact ⟨trivial, by simp [vis, hx]⟩

theorem sCheck_present (ans : Layer → Bool) (m : String) (ls : List Layer)
    (h : ∀ l ∈ ls, l.n = 0 → ans l = true) :
    (sCheck ans ls m).1 = (sCheck ans (present ls) m).1 ∧ vis (sCheck ans ls m).2 = (sCheck ans (present ls) m).2 := by
  simp only [sCheck, ← present_reverse]
  exact sCheckGo_present ans m ls.reverse (fun l hl => h l (List.mem_reverse.mp hl))

theorem sRegister_present (lvl : Nat) (ls : List Layer) (h : AbsentPlain ls) :
    (sRegister lvl ls).1 = (sRegister lvl (present ls)).1 ∧ vis (sRegister lvl ls).2 = (sRegister lvl (present ls)).2 := by
  constructor
  · have : ls.any (fun l => staticInterest lvl l.kind == .sometimes) = (present ls).any (fun l => staticInterest lvl l.kind == .sometimes) := by
      induction ls with
      | nil => rfl
      | cons x rest ih =>
        have ih := ih (fun l hl => h l (List.mem_cons_of_mem _ hl))
        by_cases hx : x.n = 0
        · have := h x (by simp) hx
          simp [present, hx, this, staticInterest] at ih ⊢
          exact ih
        · simp [present, hx] at ih ⊢
          rw [ih]
    simp only [sRegister, this]
  · simp only [sRegister]
    have := vis_sNotify ls.reverse "register_callsite"
    simp only [sNotify] at this
    rw [this, present_reverse]

def Rel (s s' : NState) : Prop := s'.cache = s.cache ∧ s'.spans = s.spans ∧ s'.log = vis s.log

theorem accepts_absent_meta (lvl : Nat) (ls : List Layer) (h : AbsentPlain ls) :
    ∀ l ∈ ls, l.n = 0 → acceptsMeta lvl l = true := by
  intro l hl h0; simp [acceptsMeta, h l hl h0]

theorem accepts_absent_event (lvl : Nat) (ls : List Layer) (h : AbsentPlain ls) :
    ∀ l ∈ ls, l.n = 0 → acceptsEvent lvl l = true := by
  intro l hl h0; simp [acceptsEvent, h l hl h0]

theorem sGate_rel (ls : List Layer) (h : AbsentPlain ls) (s s' : NState) (r : Rel s s') (mi : Nat) :
    Rel (sGate ls s mi).1 (sGate (present ls) s' mi).1 ∧ (sGate ls s mi).2 = (sGate (present ls) s' mi).2 := by
  obtain ⟨rc, rs, rl⟩ := r
  have hreg := sRegister_present (levelOf mi) ls h
  have hchk := sCheck_present (acceptsMeta (levelOf mi)) "enabled" ls (accepts_absent_meta _ ls h)
  unfold sGate sInterestFor
  rw [rc]
  cases hc : s.cache.lookup mi with
  | some i =>
    dsimp only
    cases i
    · exact ⟨⟨rc, rs, rl⟩, rfl⟩
    · refine ⟨⟨rc, rs, ?_⟩, hchk.1⟩
      simp only [vis_append, rl, hchk.2]
    · exact ⟨⟨rc, rs, rl⟩, rfl⟩
  | none =>
    dsimp only
    rw [← hreg.1]
    cases hi : (sRegister (levelOf mi) ls).1
    · dsimp only
      exact ⟨⟨by simp [rc], rs, by simp [vis_append, rl, hreg.2]⟩, rfl⟩
    · dsimp only
      refine ⟨⟨by simp [rc], rs, ?_⟩, hchk.1⟩
      simp only [vis_append, rl, hreg.2, hchk.2]
    · dsimp only
      exact ⟨⟨by simp [rc], rs, by simp [vis_append, rl, hreg.2]⟩, rfl⟩

theorem sStep_rel (ls : List Layer) (h : AbsentPlain ls) (s s' : NState) (r : Rel s s') (op : Op) :
    Rel (sStep ls s op) (sStep (present ls) s' op) := by
  cases op with
  | event mi =>
    obtain ⟨⟨gc, gs, gl⟩, gb⟩ := sGate_rel ls h s s' r mi
    have hchk := sCheck_present (acceptsEvent (levelOf mi)) "event_enabled" ls (accepts_absent_event _ ls h)
    simp only [sStep, ← gb]
    by_cases hg : (sGate ls s mi).2 = true
    · simp only [hg, if_true, ← hchk.1]
      by_cases hc : (sCheck (acceptsEvent (levelOf mi)) ls "event_enabled").1 = true
      · simp only [hc, if_true]
        exact ⟨gc, gs, by simp only [vis_append, gl, hchk.2, vis_sNotify]⟩
      · simp only [hc, Bool.false_eq_true, if_false]
        exact ⟨gc, gs, by simp only [vis_append, gl, hchk.2]⟩
    · simp only [hg, Bool.false_eq_true, if_false]
      exact ⟨gc, gs, gl⟩
  | span k mi =>
    obtain ⟨⟨gc, gs, gl⟩, gb⟩ := sGate_rel ls h s s' r mi
    simp only [sStep, ← gb]
    by_cases hg : (sGate ls s mi).2 = true
    · simp only [hg, if_true]
      exact ⟨gc, by simp [gs], by simp only [vis_append, gl, vis_sNotify]⟩
    · simp only [hg, Bool.false_eq_true, if_false]
      exact ⟨gc, gs, gl⟩
  | life m k =>
    obtain ⟨rc, rs, rl⟩ := r
    simp only [sStep, rs]
    by_cases hk : s.spans.contains k = true
    · simp only [hk, if_true]; exact ⟨rc, rfl, by simp only [vis_append, rl, vis_sNotify]⟩
    · simp only [hk, Bool.false_eq_true, if_false]; exact ⟨rc, rs, rl⟩
  | follows k j =>
    obtain ⟨rc, rs, rl⟩ := r
    simp only [sStep, rs]
    by_cases hk : (s.spans.contains k && s.spans.contains j) = true
    · simp only [hk, if_true]; exact ⟨rc, rfl, by simp only [vis_append, rl, vis_sNotify]⟩
    · simp only [hk, Bool.false_eq_true, if_false]; exact ⟨rc, rs, rl⟩
  | close k =>
    obtain ⟨rc, rs, rl⟩ := r
    simp only [sStep, rs]
    by_cases hk : s.spans.contains k = true
    · simp only [hk, if_true]; exact ⟨rc, by simp [rs], by simp only [vis_append, rl, vis_sNotify]⟩
    · simp only [hk, Bool.false_eq_true, if_false]; exact ⟨rc, rs, rl⟩

theorem sRun_rel (ls : List Layer) (h : AbsentPlain ls) (ops : List Op) :
    Rel (sRun ls ops) (sRun (present ls) ops) := by
  unfold sRun
  have h0 : Rel (sInit ls) (sInit (present ls)) := by
    refine ⟨rfl, rfl, ?_⟩
    simp only [sInit, vis_append, vis_sNotify, present_reverse]
  generalize sInit ls = s, sInit (present ls) = s' at h0
  induction ops generalizing s s' with
  | nil => exact h0
  | cons op rest ih => simp only [List.foldl_cons]; exact ih _ _ (sStep_rel ls h s s' h0 op)

end TM.NotifySpec
