import TracingModel.Lemmas.Core

namespace TM.CoreLemmas
open TM.Dispatch TM.Callsite TM.Spec.CoreSpec

/-! ### liveness (strong count > 0) as a proposition -/

def Alive (s : CState) (c : Cid) : Prop :=
  c = 0 ∨ s.handle c = true ∨ (∃ t, t < s.nthreads ∧ s.d.dflt t = some c) ∨
  (∃ g ∈ s.d.guards, g.2 = some c) ∨ s.d.gdisp = some c

theorem alive_iff (s : CState) (c : Cid) : alive s c = true ↔ Alive s c := by
  simp only [alive, referenced, Alive, Bool.or_eq_true, beq_iff_eq, List.any_eq_true, List.mem_range]
  constructor
  · rintro ((h | h) | ((⟨t, ht, h⟩ | ⟨g, hg, h⟩) | h))
    · exact Or.inl h
    · exact Or.inr (Or.inl h)
    · exact Or.inr (Or.inr (Or.inl ⟨t, ht, h⟩))
    · exact Or.inr (Or.inr (Or.inr (Or.inl ⟨g, hg, h⟩)))
    · exact Or.inr (Or.inr (Or.inr (Or.inr h)))
  · rintro (h | h | ⟨t, ht, h⟩ | ⟨g, hg, h⟩ | h)
    · exact Or.inl (Or.inl h)
    · exact Or.inl (Or.inr h)
    · exact Or.inr (Or.inl (Or.inl ⟨t, ht, h⟩))
    · exact Or.inr (Or.inl (Or.inr ⟨g, hg, h⟩))
    · exact Or.inr (Or.inr h)

/-! ### the fold of `Interest::and` -/

theorem and_always (a b : Interest) : a.and b = .always ↔ a = .always ∧ b = .always := by
  cases a <;> cases b <;> decide

theorem and_never (a b : Interest) : a.and b = .never ↔ a = .never ∧ b = .never := by
  cases a <;> cases b <;> decide

theorem foldl_and_always (f : Cid → Interest) (l : List Cid) (i : Interest) :
    l.foldl (fun a c => a.and (f c)) i = .always → i = .always ∧ ∀ c ∈ l, f c = .always := by
  induction l generalizing i with
  | nil => intro h; exact ⟨h, by simp⟩
  | cons x xs ih =>
    intro h
    simp only [List.foldl_cons] at h
    obtain ⟨h1, h2⟩ := ih _ h
    obtain ⟨h3, h4⟩ := (and_always _ _).mp h1
    exact ⟨h3, by intro c hc; rcases List.mem_cons.mp hc with rfl | hc; exact h4; exact h2 c hc⟩

theorem foldl_and_never (f : Cid → Interest) (l : List Cid) (i : Interest) :
    l.foldl (fun a c => a.and (f c)) i = .never → i = .never ∧ ∀ c ∈ l, f c = .never := by
  induction l generalizing i with
  | nil => intro h; exact ⟨h, by simp⟩
  | cons x xs ih =>
    intro h
    simp only [List.foldl_cons] at h
    obtain ⟨h1, h2⟩ := ih _ h
    obtain ⟨h3, h4⟩ := (and_never _ _).mp h1
    exact ⟨h3, by intro c hc; rcases List.mem_cons.mp hc with rfl | hc; exact h4; exact h2 c hc⟩

/-- a collector in the basis of a fold said `always` if the fold is `always`, and `never` if
the fold is `never` -/
theorem fold_mem (s : CState) (cs : Cs) (B : List Cid) (c : Cid) (hc : c ∈ B) :
    (foldInterest s cs B = .always → (s.filt c).stat cs = .always) ∧
    (foldInterest s cs B = .never → (s.filt c).stat cs = .never) := by
  cases B with
  | nil => exact absurd hc (by simp)
  | cons b rest =>
    simp only [foldInterest]
    constructor
    · intro h
      obtain ⟨h1, h2⟩ := foldl_and_always (fun c' => (s.filt c').stat cs) rest _ h
      rcases List.mem_cons.mp hc with rfl | hm
      · exact h1
      · exact h2 c hm
    · intro h
      obtain ⟨h1, h2⟩ := foldl_and_never (fun c' => (s.filt c').stat cs) rest _ h
      rcases List.mem_cons.mp hc with rfl | hm
      · exact h1
      · exact h2 c hm

theorem fold_congr (s s' : CState) (cs : Cs) (B : List Cid)
    (h : ∀ c, (s'.filt c).stat cs = (s.filt c).stat cs) : foldInterest s' cs B = foldInterest s cs B := by
  cases B with
  | nil => rfl
  | cons b rest =>
    simp only [foldInterest, h]

/-! ### the invariant -/

/-- a self-consistent filter: the hint is a true upper bound of every callsite it does not
statically reject (its dynamic answers may flip at any time) -/
def SCf (lvl : Cs → Nat) (f : Filt) : Prop := ∀ cs, f.stat cs ≠ .never → lvl cs ≤ hintRank f

structure Inv (lvl : Cs → Nat) (s : CState) : Prop where
  a1 : ∀ c, c ≠ 0 → Alive s c → c ∈ s.dispatchers
  a2 : ∀ c, s.handle c = true → c ≠ 0 ∧ s.created c = true
  a3 : (∀ t, s.d.dflt t ≠ some 0) ∧ (∀ g ∈ s.d.guards, g.2 ≠ some 0) ∧ s.d.gdisp ≠ some 0
  a5 : ∀ t, s.nthreads ≤ t → s.d.dflt t = none
  a6 : ∀ c, s.created c = false → (s.filt c).stat = fun _ => .never
  b : ∀ cs i, s.cache cs = some i → cs ∈ s.registered ∧
        ∃ B, i = foldInterest s cs B ∧ ∀ c, c ≠ 0 → Alive s c → c ∈ B
  c : ∀ c, c ≠ 0 → Alive s c → hintRank (s.filt c) ≤ s.maxLevel
  d : ∀ c, SCf lvl (s.filt c)

theorem Inv.init (lvl : Cs → Nat) : Inv lvl CState.init where
  a1 := by
    intro c hc h
    rcases h with h | h | ⟨t, _, h⟩ | ⟨g, hg, _⟩ | h
    · exact absurd h hc
    · simp [CState.init] at h
    · simp [CState.init, DState.init] at h
    · simp [CState.init, DState.init] at hg
    · simp [CState.init, DState.init] at h
  a2 := by intro c h; simp [CState.init] at h
  a3 := by simp [CState.init, DState.init]
  a5 := by intro t _; rfl
  a6 := by intro c _; rfl
  b := by intro cs i h; simp [CState.init] at h
  c := by
    intro c hc h
    rcases h with h | h | ⟨t, _, h⟩ | ⟨g, hg, _⟩ | h
    · exact absurd h hc
    · simp [CState.init] at h
    · simp [CState.init, DState.init] at h
    · simp [CState.init, DState.init] at hg
    · simp [CState.init, DState.init] at h
  d := by intro c cs h; simp [CState.init, Filt.none] at h

/-- the part of the invariant that does not speak about the caches -/
structure WInv (lvl : Cs → Nat) (s : CState) : Prop where
  a1 : ∀ c, c ≠ 0 → Alive s c → c ∈ s.dispatchers
  a2 : ∀ c, s.handle c = true → c ≠ 0 ∧ s.created c = true
  a3 : (∀ t, s.d.dflt t ≠ some 0) ∧ (∀ g ∈ s.d.guards, g.2 ≠ some 0) ∧ s.d.gdisp ≠ some 0
  a5 : ∀ t, s.nthreads ≤ t → s.d.dflt t = none
  a6 : ∀ c, s.created c = false → (s.filt c).stat = fun _ => .never
  bw : ∀ cs i, s.cache cs = some i → cs ∈ s.registered
  d : ∀ c, SCf lvl (s.filt c)

theorem Inv.weak {lvl : Cs → Nat} {s : CState} (h : Inv lvl s) : WInv lvl s :=
  ⟨h.a1, h.a2, h.a3, h.a5, h.a6, fun cs i hi => (h.b cs i hi).1, h.d⟩

theorem foldl_max_ge (hf : Cid → Nat) (l : List Cid) (m0 : Nat) :
    m0 ≤ l.foldl (fun m c => if hf c > m then hf c else m) m0 ∧
    ∀ c ∈ l, hf c ≤ l.foldl (fun m c => if hf c > m then hf c else m) m0 := by
  induction l generalizing m0 with
  | nil => exact ⟨Nat.le_refl _, by simp⟩
  | cons x xs ih =>
    simp only [List.foldl_cons]
    have hm : m0 ≤ (if hf x > m0 then hf x else m0) ∧ hf x ≤ (if hf x > m0 then hf x else m0) := by
      split <;> omega
    generalize (if hf x > m0 then hf x else m0) = m1 at *
    obtain ⟨h1, h2⟩ := ih m1
    constructor
    · omega
    · intro c hc
      rcases List.mem_cons.mp hc with rfl | hc
      · omega
      · exact h2 c hc

theorem alive_rebuild (s : CState) (c : Cid) : Alive (rebuildInterest s) c ↔ Alive s c := by
  simp [Alive, rebuildInterest]

/-- `rebuild_interest` (re-)establishes the cache invariant -/
theorem rebuild_inv {lvl : Cs → Nat} {s : CState} (h : WInv lvl s) : Inv lvl (rebuildInterest s) where
  a1 := by
    intro c hc ha
    have ha' := (alive_rebuild s c).mp ha
    simp only [rebuildInterest, List.mem_filter]
    exact ⟨h.a1 c hc ha', (alive_iff s c).mpr ha'⟩
  a2 := by simpa [rebuildInterest] using h.a2
  a3 := by simpa [rebuildInterest] using h.a3
  a5 := by simpa [rebuildInterest] using h.a5
  a6 := by simpa [rebuildInterest] using h.a6
  b := by
    intro cs i hi
    simp only [rebuildInterest] at hi
    by_cases hr : cs ∈ s.registered
    · simp only [hr, if_true, Option.some.injEq] at hi
      refine ⟨by simpa [rebuildInterest] using hr, s.dispatchers.filter (alive s), ?_, ?_⟩
      · rw [← hi]; simp only [callsiteInterest]
        exact (fold_congr s (rebuildInterest s) cs _ (by intro c; simp [rebuildInterest])).symm
      · intro c hc ha
        have ha' := (alive_rebuild s c).mp ha
        exact List.mem_filter.mpr ⟨h.a1 c hc ha', (alive_iff s c).mpr ha'⟩
    · simp only [hr, if_false] at hi
      exact absurd (h.bw cs i hi) hr
  c := by
    intro c hc ha
    have ha' := (alive_rebuild s c).mp ha
    have hm : c ∈ s.dispatchers.filter (alive s) := List.mem_filter.mpr ⟨h.a1 c hc ha', (alive_iff s c).mpr ha'⟩
    simp only [rebuildInterest]
    exact (foldl_max_ge (fun c => hintRank (s.filt c)) _ 0).2 c hm
  d := by simpa [rebuildInterest] using h.d

/-- states that differ only in the dispatch part / handles / dynamic answers, with no new live
collectors -/
theorem Inv.of_mono {lvl : Cs → Nat} {s s' : CState} (h : Inv lvl s)
    (hdis : s'.dispatchers = s.dispatchers) (hcache : s'.cache = s.cache) (hreg : s'.registered = s.registered)
    (hmax : s'.maxLevel = s.maxLevel)
    (hfilt : ∀ c, (s'.filt c).stat = (s.filt c).stat ∧ (s'.filt c).hint = (s.filt c).hint)
    (hcr : s'.created = s.created)
    (hmono : ∀ c, Alive s' c → Alive s c)
    (h2 : ∀ c, s'.handle c = true → c ≠ 0 ∧ s'.created c = true)
    (h3 : (∀ t, s'.d.dflt t ≠ some 0) ∧ (∀ g ∈ s'.d.guards, g.2 ≠ some 0) ∧ s'.d.gdisp ≠ some 0)
    (h5 : ∀ t, s'.nthreads ≤ t → s'.d.dflt t = none) : Inv lvl s' where
  a1 := by intro c hc ha; rw [hdis]; exact h.a1 c hc (hmono c ha)
  a2 := h2
  a3 := h3
  a5 := h5
  a6 := by intro c hc; rw [(hfilt c).1]; rw [hcr] at hc; exact h.a6 c hc
  b := by
    intro cs i hi
    rw [hcache] at hi
    obtain ⟨hr, B, hB, hm⟩ := h.b cs i hi
    refine ⟨by rw [hreg]; exact hr, B, ?_, fun c hc ha => hm c hc (hmono c ha)⟩
    rw [hB]; exact (fold_congr s s' cs B (by intro c; rw [(hfilt c).1])).symm
  c := by
    intro c hc ha
    have : hintRank (s'.filt c) = hintRank (s.filt c) := by simp [hintRank, (hfilt c).2]
    rw [this, hmax]; exact h.c c hc (hmono c ha)
  d := by
    intro c cs hcs
    have : hintRank (s'.filt c) = hintRank (s.filt c) := by simp [hintRank, (hfilt c).2]
    rw [this]; rw [(hfilt c).1] at hcs; exact h.d c cs hcs

theorem takeGuard_mem (t : Tid) (gs : List (Tid × Option Cid)) (p : Option Cid) (rest : List (Tid × Option Cid))
    (h : takeGuard t gs = some (p, rest)) : (t, p) ∈ gs ∧ ∀ g ∈ rest, g ∈ gs := by
  induction gs generalizing p rest with
  | nil => simp [takeGuard] at h
  | cons g r ih =>
    obtain ⟨o, q⟩ := g
    simp only [takeGuard] at h
    by_cases ho : o = t
    · simp only [ho, if_true, Option.some.injEq, Prod.mk.injEq] at h
      obtain ⟨rfl, rfl⟩ := h
      exact ⟨by simp [ho], fun g hg => List.mem_cons_of_mem _ hg⟩
    · simp only [ho, if_false] at h
      cases hr : takeGuard t r with
      | none => simp [hr] at h
      | some x =>
        obtain ⟨q', rest'⟩ := x
        simp only [hr, Option.some.injEq, Prod.mk.injEq] at h
        obtain ⟨rfl, rfl⟩ := h
        obtain ⟨h1, h2⟩ := ih q' rest' hr
        refine ⟨List.mem_cons_of_mem _ h1, ?_⟩
        intro g hg
        rcases List.mem_cons.mp hg with rfl | hg
        · simp
        · exact List.mem_cons_of_mem _ (h2 g hg)

end TM.CoreLemmas
