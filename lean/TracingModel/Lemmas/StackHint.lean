/-
The max-level hint a whole stack publishes (`Layered::max_level_hint` / `pick_level_hint`, model
`Core/Reload.stackHint`) is a sound upper bound on what any of its layers would receive.  Used by
C08 (summaries of whole stacks) and C12 (MAX_LEVEL after a reload).
-/
import TracingModel.Core.Reload
import TracingModel.Props.C07

namespace C12
open TM.Reload TM.Filtering TM.FilterExpr TM.Directive TM.FilteringLemmas
open TM.Callsite (Interest)

/-! ### the stack's max-level hint is a sound upper bound -/

def BuiltStack (st : List Node) : Prop :=
  ∀ nd ∈ st, match nd with
    | .glob g => C08.Built g
    | .filt _ f _ => C08.Built f
    | .plain _ => True

theorem le_of_hint {f : FExpr} (hh : C08.Honest f) (hb : C08.Built f) {m : Meta} {c : Ctx}
    (he : enabledF f m c = true) {o : Nat} (ho : hintF f = some o) : m.level ≤ o := by
  have := C08.hint_sound f hh hb m c he
  simpa [belowHint, ho] using this

theorem optMax_ge_left {a : Nat} {b : Option Nat} {i : Nat} (h : optMax (some a) b = some i) : a ≤ i := by
  cases b with
  | none => simp [optMax] at h; omega
  | some b => simp [optMax] at h; omega

theorem optMax_ge_right {a : Option Nat} {b : Nat} {i : Nat} (h : optMax a (some b) = some i) : b ≤ i := by
  cases a with
  | none => simp [optMax] at h; omega
  | some a => simp [optMax] at h; omega

theorem hintTree_sound (m : Meta) (c : Ctx) (l : List Node) (hh : HonestStack l) (hb : BuiltStack l) :
    ∀ i, hintTree l = some i →
      (l.all Node.isFilt = true → ∀ fid f n, Node.filt fid f n ∈ l → enabledF f m c = true → m.level ≤ i) ∧
      (l.all Node.isFilt = false → globalsOk l m c = true → m.level ≤ i) := by
  induction l with
  | nil => intro i h; simp [hintTree] at h
  | cons nd below ih =>
    have hhb : HonestStack below := fun x hx => hh x (List.mem_cons_of_mem _ hx)
    have hbb : BuiltStack below := fun x hx => hb x (List.mem_cons_of_mem _ hx)
    have hnd := hh nd (by simp)
    have bnd := hb nd (by simp)
    cases below with
    | nil =>
      intro i h
      simp only [hintTree] at h
      cases nd with
      | plain n => simp [leafHint] at h
      | glob g =>
        refine ⟨by simp [Node.isFilt], fun _ hg => ?_⟩
        simp only [globalsOk, List.all_cons, List.all_nil, Bool.and_true] at hg
        exact le_of_hint hnd bnd hg h
      | filt fid f n =>
        refine ⟨fun _ fid' f' n' hm he => ?_, by simp [Node.isFilt]⟩
        simp only [List.mem_singleton] at hm
        cases hm
        exact le_of_hint hnd bnd he h
    | cons nd2 rest =>
      have ih := ih hhb hbb
      intro i h
      simp only [hintTree] at h
      unfold pickHint at h
      cases hO : nd.isFilt <;> cases hI : (nd2 :: rest).all Node.isFilt <;> simp only [hO, hI] at h
      · -- neither side all per-layer filtered
        simp only [Bool.false_and, Bool.false_eq_true, if_false] at h
        refine ⟨by simp [hO], fun _ hg => ?_⟩
        simp only [globalsOk, List.all_cons, Bool.and_eq_true] at hg
        cases hoh : leafHint nd with
        | none =>
          rw [hoh] at h
          cases hih : hintTree (nd2 :: rest) with
          | none => simp [hih, optMax] at h
          | some b =>
            have : b = i := by simpa [hih, optMax] using h
            subst this
            exact (ih b hih).2 hI (by simpa [globalsOk] using hg.2)
        | some a =>
          rw [hoh] at h
          have hai := optMax_ge_left h
          cases nd with
          | plain n => simp [leafHint] at hoh
          | glob g => exact Nat.le_trans (le_of_hint hnd bnd hg.1 hoh) hai
          | filt fid f n => simp [Node.isFilt] at hO
      · -- outer not filtered, inner all filtered
        simp only [Bool.false_and, Bool.false_eq_true, if_false, Bool.true_and] at h
        refine ⟨by simp [hO], fun _ hg => ?_⟩
        simp only [globalsOk, List.all_cons, Bool.and_eq_true] at hg
        cases hoh : leafHint nd with
        | none => simp [hoh] at h
        | some a =>
          simp only [hoh, Option.isNone_some, Bool.false_eq_true, if_false] at h
          have hai := optMax_ge_left h
          cases nd with
          | plain n => simp [leafHint] at hoh
          | glob g => exact Nat.le_trans (le_of_hint hnd bnd hg.1 hoh) hai
          | filt fid f n => simp [Node.isFilt] at hO
      · -- outer filtered, inner not all filtered
        simp only [Bool.and_false, Bool.false_eq_true, if_false, Bool.true_and] at h
        refine ⟨by simp [hI], fun _ hg => ?_⟩
        cases hih : hintTree (nd2 :: rest) with
        | none => simp [hih] at h
        | some b =>
          simp only [hih, Option.isNone_some, Bool.false_eq_true, if_false, Bool.false_and] at h
          have hbi := optMax_ge_right h
          have hgb : globalsOk (nd2 :: rest) m c = true := by
            cases nd with
            | filt fid f n => simpa [globalsOk] using hg
            | plain n => simp [Node.isFilt] at hO
            | glob g => simp [Node.isFilt] at hO
          exact Nat.le_trans ((ih b hih).2 hI hgb) hbi
      · -- both per-layer filtered
        simp only [Bool.and_self, if_true] at h
        cases hoh : leafHint nd with
        | none => simp [hoh] at h
        | some a =>
          cases hih : hintTree (nd2 :: rest) with
          | none => simp [hoh, hih] at h
          | some b =>
            have hi : i = max a b := by simpa [hoh, hih] using h.symm
            refine ⟨fun _ fid f n hm he => ?_, by simp [hO, hI]⟩
            rcases List.mem_cons.mp hm with e | hm
            · subst e
              have := le_of_hint hnd bnd he (by simpa [leafHint] using hoh)
              omega
            · have := (ih b hih).1 hI fid f n hm he
              omega

/-- **C12.stack_hint_sound** — whatever any layer of the stack would receive has a level within the
stack's advertised maximum level (MAX_LEVEL never hides a wanted emission) -/
theorem stack_hint_sound (st : Stack) (hh : HonestStack st) (hb : BuiltStack st) (m : Meta) (c : Ctx)
    (i : Nat) (hi : stackHint st = some i) (hr : shouldReceive st m c ≠ []) : m.level ≤ i := by
  have hhr : HonestStack st.reverse := fun x hx => hh x (List.mem_reverse.mp hx)
  have hbr : BuiltStack st.reverse := fun x hx => hb x (List.mem_reverse.mp hx)
  obtain ⟨A, B⟩ := hintTree_sound m c st.reverse hhr hbr i hi
  simp only [shouldReceive] at hr
  by_cases hg : globalsOk st m c = true
  · simp only [hg, if_true] at hr
    cases hall : st.reverse.all Node.isFilt with
    | false =>
      apply B hall
      simpa [globalsOk, List.all_reverse] using hg
    | true =>
      obtain ⟨x, hx⟩ := List.exists_mem_of_ne_nil _ hr
      obtain ⟨nd, hnd, hs⟩ := List.mem_filterMap.mp hx
      have hf : nd.isFilt = true := by
        have := List.all_eq_true.mp hall nd (List.mem_reverse.mpr hnd)
        exact this
      cases nd with
      | plain n => simp [Node.isFilt] at hf
      | glob g => simp [Node.isFilt] at hf
      | filt fid f n =>
        simp only [specOf] at hs
        by_cases he : enabledF f m c = true
        · exact A hall fid f n (List.mem_reverse.mpr hnd) he
        · simp [he] at hs
  · simp [hg] at hr


end C12
