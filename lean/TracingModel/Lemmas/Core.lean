import TracingModel.Core.Callsite
import TracingModel.Spec.CoreSpec

namespace TM.CoreLemmas
open TM.Dispatch TM.Callsite TM.Spec.CoreSpec

@[simp] theorem update_same {α} (f : Nat → α) (k : Nat) (v : α) : update f k v k = v := by simp [update]
theorem update_other {α} (f : Nat → α) (k : Nat) (v : α) (x : Nat) (h : x ≠ k) : update f k v x = f x := by
  simp [update, h]

/-- priors held by the live guards of thread `t`, newest first -/
def priorsOf (t : Tid) : List (Tid × Option Cid) → List (Option Cid)
  | [] => []
  | (o, p) :: r => if o = t then p :: priorsOf t r else priorsOf t r

/-- thread-local default `d`, the priors of the thread's guards and the thread's stack of live
scopes describe the same nesting -/
def Chain : Option Cid → List (Option Cid) → List Cid → Prop
  | d, [], st => d = none ∧ st = []
  | d, p :: ps, c :: cs => d = some c ∧ Chain p ps cs
  | _, _ :: _, [] => False

theorem takeGuard_none (t : Tid) (gs : List (Tid × Option Cid)) (h : takeGuard t gs = none) :
    priorsOf t gs = [] := by
  induction gs with
  | nil => rfl
  | cons g r ih =>
    obtain ⟨o, p⟩ := g
    simp only [takeGuard] at h
    by_cases ho : o = t
    · simp [ho] at h
    · simp only [ho, if_false] at h
      cases hr : takeGuard t r with
      | none => simp [priorsOf, ho, ih hr]
      | some x => simp [hr] at h

theorem takeGuard_some (t : Tid) (gs : List (Tid × Option Cid)) (p : Option Cid) (rest : List (Tid × Option Cid))
    (h : takeGuard t gs = some (p, rest)) :
    priorsOf t gs = p :: priorsOf t rest ∧ (∀ t', t' ≠ t → priorsOf t' rest = priorsOf t' gs) ∧
    rest.length + 1 = gs.length := by
  induction gs generalizing p rest with
  | nil => simp [takeGuard] at h
  | cons g r ih =>
    obtain ⟨o, q⟩ := g
    simp only [takeGuard] at h
    by_cases ho : o = t
    · simp only [ho, if_true, Option.some.injEq, Prod.mk.injEq] at h
      obtain ⟨rfl, rfl⟩ := h
      refine ⟨by simp [priorsOf, ho], ?_, by simp⟩
      intro t' ht'
      have : ¬ o = t' := by rw [ho]; exact fun h => ht' h.symm
      simp [priorsOf, this]
    · simp only [ho, if_false] at h
      cases hr : takeGuard t r with
      | none => simp [hr] at h
      | some x =>
        obtain ⟨q', rest'⟩ := x
        simp only [hr, Option.some.injEq, Prod.mk.injEq] at h
        obtain ⟨rfl, rfl⟩ := h
        obtain ⟨h1, h2, h3⟩ := ih q' rest' hr
        refine ⟨by simp [priorsOf, ho, h1], ?_, by simp; omega⟩
        intro t' ht'
        by_cases hot : o = t'
        · simp [priorsOf, hot, h2 t' ht']
        · simp [priorsOf, hot, h2 t' ht']

/-- the dispatch part of the model state and the specification state describe the same situation -/
structure DRel (s : CState) (sp : SState) : Prop where
  nthreads : s.nthreads = sp.nthreads
  handle : s.handle = sp.handle
  created : s.created = sp.created
  filt : s.filt = sp.filt
  chain : ∀ t, Chain (s.d.dflt t) (priorsOf t s.d.guards) (sp.stack t)
  count : s.d.scount = s.d.guards.length
  ginit : s.d.ginit = 0 ∨ s.d.ginit = 2
  glob : getGlobal s.d = sp.glob
  gzero : s.d.ginit = 0 ↔ sp.glob = none

theorem chain_nil {d : Option Cid} {st : List Cid} (h : Chain d [] st) : d = none ∧ st = [] := h

/-- C02 core: the collector `get_default` resolves to is the top of the thread's live-scope
stack, else the global default -/
theorem current_eq (s : CState) (sp : SState) (h : DRel s sp) (t : Tid) :
    current s.d t = currentCollector sp t := by
  have hc := h.chain t
  simp only [current, currentCollector]
  by_cases h0 : s.d.scount = 0
  · have hg : s.d.guards = [] := by
      have := h.count; rw [h0] at this
      exact List.eq_nil_of_length_eq_zero this.symm
    rw [hg] at hc
    obtain ⟨_, hst⟩ := chain_nil hc
    simp [h0, hst, h.glob]
  · simp only [h0, if_false]
    cases hp : priorsOf t s.d.guards with
    | nil =>
      rw [hp] at hc
      obtain ⟨hd, hst⟩ := chain_nil hc
      simp [hd, hst, h.glob]
    | cons p ps =>
      rw [hp] at hc
      cases hst : sp.stack t with
      | nil => rw [hst] at hc; exact absurd hc (by simp [Chain])
      | cons c cs =>
        rw [hst] at hc
        simp only [Chain] at hc
        simp [hc.1]

theorem DRel.init : DRel CState.init SState.init where
  nthreads := rfl
  handle := rfl
  created := rfl
  filt := rfl
  chain := fun _ => ⟨rfl, rfl⟩
  count := rfl
  ginit := Or.inl rfl
  glob := rfl
  gzero := by simp [CState.init, DState.init, SState.init]


theorem rebuildInterest_d (s : CState) :
    (rebuildInterest s).d = s.d ∧ (rebuildInterest s).nthreads = s.nthreads ∧ (rebuildInterest s).handle = s.handle ∧
    (rebuildInterest s).created = s.created ∧ (rebuildInterest s).filt = s.filt ∧ (rebuildInterest s).registered = s.registered := by
  simp [rebuildInterest]

theorem interestOf_d (s : CState) (cs : Cs) :
    (interestOf s cs).1.d = s.d ∧ (interestOf s cs).1.nthreads = s.nthreads ∧ (interestOf s cs).1.handle = s.handle ∧
    (interestOf s cs).1.created = s.created ∧ (interestOf s cs).1.filt = s.filt ∧
    (interestOf s cs).1.dispatchers = s.dispatchers ∧ (interestOf s cs).1.maxLevel = s.maxLevel := by
  unfold interestOf
  split <;> simp

theorem emit_d (st : Nat) (lvl : Cs → Nat) (s : CState) (t : Tid) (cs : Cs) :
    (emit st lvl s t cs).1.d = s.d ∧ (emit st lvl s t cs).1.nthreads = s.nthreads ∧ (emit st lvl s t cs).1.handle = s.handle ∧
    (emit st lvl s t cs).1.created = s.created ∧ (emit st lvl s t cs).1.filt = s.filt := by
  unfold emit
  split
  · have := interestOf_d s cs
    simp only []
    exact ⟨this.1, this.2.1, this.2.2.1, this.2.2.2.1, this.2.2.2.2.1⟩
  · simp

theorem drel_of_eq {s s' : CState} {sp : SState} (h : DRel s sp)
    (hd : s'.d = s.d) (hn : s'.nthreads = s.nthreads) (hh : s'.handle = s.handle) (hc : s'.created = s.created)
    (hf : s'.filt = s.filt) : DRel s' sp where
  nthreads := by rw [hn]; exact h.nthreads
  handle := by rw [hh]; exact h.handle
  created := by rw [hc]; exact h.created
  filt := by rw [hf]; exact h.filt
  chain := by rw [hd]; exact h.chain
  count := by rw [hd]; exact h.count
  ginit := by rw [hd]; exact h.ginit
  glob := by rw [hd]; exact h.glob
  gzero := by rw [hd]; exact h.gzero

/-- every step keeps the dispatch state and the specification's scope stacks in correspondence -/
theorem step_drel (st : Nat) (lvl : Cs → Nat) (s : CState) (sp : SState) (op : Op) (h : DRel s sp) :
    DRel (TM.Callsite.step st lvl s op).1 (TM.Spec.CoreSpec.step st lvl sp op).1 := by
  have en : sp.nthreads = s.nthreads := h.nthreads.symm
  have eh : sp.handle = s.handle := h.handle.symm
  have ec : sp.created = s.created := h.created.symm
  have ef : sp.filt = s.filt := h.filt.symm
  cases op with
  | threadStart =>
    simp only [TM.Callsite.step, TM.Spec.CoreSpec.step]
    exact ⟨by simp [en], h.handle, h.created, h.filt, h.chain, h.count, h.ginit, h.glob, h.gzero⟩
  | newCollector c f =>
    simp only [TM.Callsite.step, TM.Spec.CoreSpec.step, newCollector, ec]
    by_cases hc : c = 0 ∨ s.created c = true
    · simp only [hc, if_true]; try exact h
    · simp only [hc, if_false]
      obtain ⟨r1, r2, r3, r4, r5, _⟩ := rebuildInterest_d
        { s with filt := update s.filt c f, handle := update s.handle c true, created := update s.created c true,
                 dispatchers := s.dispatchers ++ [c] }
      refine ⟨?_, ?_, ?_, ?_, ?_, ?_, ?_, ?_, ?_⟩
      · rw [r2]; exact h.nthreads
      · rw [r3]; simp [eh]
      · rw [r4]
      · rw [r5]; simp [ef]
      · rw [r1]; exact h.chain
      · rw [r1]; exact h.count
      · rw [r1]; exact h.ginit
      · rw [r1]; exact h.glob
      · rw [r1]; exact h.gzero
  | dropHandle c =>
    simp only [TM.Callsite.step, TM.Spec.CoreSpec.step, dropHandle]
    exact ⟨h.nthreads, by simp [eh], h.created, h.filt, h.chain, h.count, h.ginit, h.glob, h.gzero⟩
  | setDefault t c =>
    simp only [TM.Callsite.step, TM.Spec.CoreSpec.step, en, eh]
    by_cases hc : t < s.nthreads ∧ s.handle c = true
    · simp only [hc, and_self, if_true]
      refine ⟨(by first | rfl | exact h.nthreads), (by first | rfl | exact h.handle), (by first | rfl | exact h.created), (by first | rfl | exact h.filt), ?_, ?_, h.ginit, h.glob, h.gzero⟩
      · intro t'
        by_cases ht : t' = t
        · subst ht
          simp only [setDefault, update_same, priorsOf, if_true, Chain]
          exact ⟨trivial, h.chain t'⟩
        · have hne : ¬ t = t' := fun e => ht e.symm
          simp only [setDefault, update_other _ _ _ _ ht, priorsOf, hne, if_false]
          exact h.chain t'
      · simp [setDefault, h.count]
    · simp only [hc, if_false]; exact h
  | popDefault t =>
    simp only [TM.Callsite.step, TM.Spec.CoreSpec.step, en]
    by_cases hc : t < s.nthreads
    · simp only [hc, if_true, popGuard]
      cases htg : takeGuard t s.d.guards with
      | none =>
        have hp := takeGuard_none t _ htg
        have hct := h.chain t
        rw [hp] at hct
        obtain ⟨_, hst⟩ := chain_nil hct
        simp only []
        refine ⟨(by first | rfl | exact h.nthreads), (by first | rfl | exact h.handle), (by first | rfl | exact h.created), (by first | rfl | exact h.filt), ?_, h.count, h.ginit, h.glob, h.gzero⟩
        intro t'
        by_cases ht : t' = t
        · subst ht; simp only [update_same, hst, List.tail_nil]; rw [← hst]; exact h.chain t'
        · simp only [update_other _ _ _ _ ht]; exact h.chain t'
      | some x =>
        obtain ⟨p, rest⟩ := x
        obtain ⟨h1, h2, h3⟩ := takeGuard_some t _ p rest htg
        have hct := h.chain t
        rw [h1] at hct
        simp only []
        refine ⟨(by first | rfl | exact h.nthreads), (by first | rfl | exact h.handle), (by first | rfl | exact h.created), (by first | rfl | exact h.filt), ?_, ?_, h.ginit, h.glob, h.gzero⟩
        · intro t'
          by_cases ht : t' = t
          · subst ht
            simp only [update_same]
            cases hst : sp.stack t' with
            | nil => rw [hst] at hct; exact absurd hct (by simp [Chain])
            | cons c cs =>
              rw [hst] at hct
              simp only [Chain] at hct
              simpa using hct.2
          · simp only [update_other _ _ _ _ ht, h2 t' ht]; exact h.chain t'
        · simp only []; have := h.count; omega
    · simp only [hc, if_false]; exact h
  | setGlobal c =>
    simp only [TM.Callsite.step, TM.Spec.CoreSpec.step, eh]
    by_cases hc : s.handle c = true
    · simp only [hc, if_true, setGlobal]
      rcases h.ginit with h0 | h2
      · have hg : sp.glob = none := h.gzero.mp h0
        simp only [h0, if_true, hg]
        refine ⟨(by first | rfl | exact h.nthreads), (by first | rfl | exact h.handle), (by first | rfl | exact h.created), (by first | rfl | exact h.filt), h.chain, h.count, Or.inr rfl, ?_, ?_⟩
        · simp [getGlobal]
        · simp
      · have hne : ¬ s.d.ginit = 0 := by omega
        have hg : sp.glob ≠ none := fun e => hne (h.gzero.mpr e)
        simp only [hne, if_false]
        cases hgl : sp.glob with
        | none => exact absurd hgl hg
        | some g => simp only []; exact h
    · simp only [hc]; exact h
  | emit t cs =>
    simp only [TM.Callsite.step, TM.Spec.CoreSpec.step, en]
    by_cases hc : t < s.nthreads
    · simp only [hc, if_true]
      obtain ⟨e1, e2, e3, e4, e5⟩ := emit_d st lvl s t cs
      exact drel_of_eq h e1 e2 e3 e4 e5
    · simp only [hc, if_false]; exact h
  | rebuild =>
    simp only [TM.Callsite.step, TM.Spec.CoreSpec.step, rebuildCache]
    obtain ⟨r1, r2, r3, r4, r5, _⟩ := rebuildInterest_d s
    exact drel_of_eq h r1 r2 r3 r4 r5
  | flip c cs =>
    simp only [TM.Callsite.step, TM.Spec.CoreSpec.step, Callsite.flip]
    exact ⟨h.nthreads, h.handle, h.created, by simp [ef], h.chain, h.count, h.ginit, h.glob, h.gzero⟩

end TM.CoreLemmas
