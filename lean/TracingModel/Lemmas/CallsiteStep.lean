import TracingModel.Lemmas.CallsiteInv

namespace TM.CoreLemmas
open TM.Dispatch TM.Callsite TM.Spec.CoreSpec

/-- the filters created by a history are self-consistent -/
def OpSC (lvl : Cs → Nat) : Op → Prop
  | .newCollector _ f => SCf lvl f
  | _ => True

theorem interestOf_inv {lvl : Cs → Nat} {s : CState} (h : Inv lvl s) (cs : Cs) :
    Inv lvl (interestOf s cs).1 := by
  unfold interestOf
  cases hc : s.cache cs with
  | some i => simpa using h
  | none =>
    simp only []
    have hal : ∀ c, Alive { s with cache := update s.cache cs (some (callsiteInterest s (s.dispatchers.filter (alive s)) cs)),
                                   registered := cs :: s.registered } c ↔ Alive s c := by
      intro c; simp [Alive]
    exact {
      a1 := fun c hc' ha => h.a1 c hc' ((hal c).mp ha)
      a2 := h.a2
      a3 := h.a3
      a5 := h.a5
      a6 := h.a6
      b := by
        intro cs' i hi
        by_cases e : cs' = cs
        · subst e
          simp only [update_same, Option.some.injEq] at hi
          refine ⟨by simp, s.dispatchers.filter (alive s), ?_, ?_⟩
          · rw [← hi]; simp only [callsiteInterest]
            exact (fold_congr s _ cs' _ (by intro c; rfl)).symm
          · intro c hc' ha
            have ha' := (hal c).mp ha
            exact List.mem_filter.mpr ⟨h.a1 c hc' ha', (alive_iff s c).mpr ha'⟩
        · simp only [update_other _ _ _ _ e] at hi
          obtain ⟨hr, B, hB, hm⟩ := h.b cs' i hi
          refine ⟨List.mem_cons_of_mem _ hr, B, ?_, fun c hc' ha => hm c hc' ((hal c).mp ha)⟩
          rw [hB]; exact (fold_congr s _ cs' B (by intro c; rfl)).symm
      c := fun c hc' ha => h.c c hc' ((hal c).mp ha)
      d := h.d }

theorem emit_inv {lvl : Cs → Nat} {s : CState} (st : Nat) (h : Inv lvl s) (t : Tid) (cs : Cs) :
    Inv lvl (emit st lvl s t cs).1 := by
  unfold emit
  split
  · exact interestOf_inv h cs
  · exact h

/-- every step of a history whose created filters are self-consistent preserves the invariant -/
theorem step_inv (st : Nat) (lvl : Cs → Nat) (s : CState) (op : Op) (h : Inv lvl s) (hop : OpSC lvl op) :
    Inv lvl (TM.Callsite.step st lvl s op).1 := by
  cases op with
  | threadStart =>
    simp only [TM.Callsite.step]
    refine h.of_mono rfl rfl rfl rfl (fun _ => ⟨rfl, rfl⟩) rfl ?_ h.a2 h.a3 ?_
    · intro c ha
      rcases ha with ha | ha | ⟨t, ht, hd⟩ | ha | ha
      · exact Or.inl ha
      · exact Or.inr (Or.inl ha)
      · by_cases htn : t < s.nthreads
        · exact Or.inr (Or.inr (Or.inl ⟨t, htn, hd⟩))
        · have := h.a5 t (by omega)
          simp only [] at hd
          rw [this] at hd; cases hd
      · exact Or.inr (Or.inr (Or.inr (Or.inl ha)))
      · exact Or.inr (Or.inr (Or.inr (Or.inr ha)))
    · intro t ht; exact h.a5 t (by simp only [] at ht; omega)
  | newCollector c f =>
    simp only [TM.Callsite.step, newCollector]
    by_cases hc : c = 0 ∨ s.created c = true
    · simp only [hc, if_true]; exact h
    · simp only [hc, if_false]
      have hc0 : c ≠ 0 := fun e => hc (Or.inl e)
      have hcr : s.created c = false := by
        cases hh : s.created c with
        | true => exact absurd (Or.inr hh) hc
        | false => rfl
      apply rebuild_inv
      exact {
        a1 := by
          intro c' hc' ha
          simp only [List.mem_append, List.mem_singleton]
          by_cases e : c' = c
          · exact Or.inr e
          · left
            apply h.a1 c' hc'
            rcases ha with ha | ha | ha | ha | ha
            · exact Or.inl ha
            · simp only [update_other _ _ _ _ e] at ha; exact Or.inr (Or.inl ha)
            · exact Or.inr (Or.inr (Or.inl ha))
            · exact Or.inr (Or.inr (Or.inr (Or.inl ha)))
            · exact Or.inr (Or.inr (Or.inr (Or.inr ha)))
        a2 := by
          intro c' hh
          by_cases e : c' = c
          · subst e; exact ⟨hc0, by simp⟩
          · simp only [update_other _ _ _ _ e] at hh ⊢
            exact h.a2 c' hh
        a3 := h.a3
        a5 := h.a5
        a6 := by
          intro c' hh
          by_cases e : c' = c
          · subst e; simp at hh
          · simp only [update_other _ _ _ _ e] at hh ⊢
            exact h.a6 c' hh
        bw := fun cs i hi => (h.b cs i hi).1
        d := by
          intro c'
          by_cases e : c' = c
          · subst e; simp only [update_same]; exact hop
          · simp only [update_other _ _ _ _ e]; exact h.d c' }
  | dropHandle c =>
    simp only [TM.Callsite.step, dropHandle]
    refine h.of_mono rfl rfl rfl rfl (fun _ => ⟨rfl, rfl⟩) rfl ?_ ?_ h.a3 h.a5
    · intro c' ha
      rcases ha with ha | ha | ha | ha | ha
      · exact Or.inl ha
      · by_cases e : c' = c
        · subst e; simp at ha
        · simp only [update_other _ _ _ _ e] at ha; exact Or.inr (Or.inl ha)
      · exact Or.inr (Or.inr (Or.inl ha))
      · exact Or.inr (Or.inr (Or.inr (Or.inl ha)))
      · exact Or.inr (Or.inr (Or.inr (Or.inr ha)))
    · intro c' hh
      by_cases e : c' = c
      · subst e; simp at hh
      · simp only [update_other _ _ _ _ e] at hh; exact h.a2 c' hh
  | setDefault t c =>
    simp only [TM.Callsite.step]
    by_cases hc : t < s.nthreads ∧ s.handle c = true
    · simp only [hc, and_self, if_true]
      have hc0 := (h.a2 c hc.2).1
      refine h.of_mono rfl rfl rfl rfl (fun _ => ⟨rfl, rfl⟩) rfl ?_ h.a2 ?_ ?_
      · intro c' ha
        rcases ha with ha | ha | ⟨t', ht', hd⟩ | ⟨g, hg, hgc⟩ | ha
        · exact Or.inl ha
        · exact Or.inr (Or.inl ha)
        · by_cases e : t' = t
          · subst e
            simp only [setDefault, update_same, Option.some.injEq] at hd
            subst hd; exact Or.inr (Or.inl hc.2)
          · simp only [setDefault, update_other _ _ _ _ e] at hd
            exact Or.inr (Or.inr (Or.inl ⟨t', ht', hd⟩))
        · simp only [setDefault, List.mem_cons] at hg
          rcases hg with rfl | hg
          · exact Or.inr (Or.inr (Or.inl ⟨t, hc.1, hgc⟩))
          · exact Or.inr (Or.inr (Or.inr (Or.inl ⟨g, hg, hgc⟩)))
        · exact Or.inr (Or.inr (Or.inr (Or.inr ha)))
      · refine ⟨?_, ?_, h.a3.2.2⟩
        · intro t'
          by_cases e : t' = t
          · subst e; simp only [setDefault, update_same, ne_eq, Option.some.injEq]; exact hc0
          · simp only [setDefault, update_other _ _ _ _ e]; exact h.a3.1 t'
        · intro g hg
          simp only [setDefault, List.mem_cons] at hg
          rcases hg with rfl | hg
          · exact h.a3.1 t
          · exact h.a3.2.1 g hg
      · intro t' ht'
        have e : t' ≠ t := by
          intro e; subst e; exact Nat.lt_irrefl _ (Nat.lt_of_lt_of_le hc.1 ht')
        simp only [setDefault, update_other _ _ _ _ e]
        exact h.a5 t' ht'
    · simp only [hc, if_false]; exact h
  | popDefault t =>
    simp only [TM.Callsite.step]
    by_cases hc : t < s.nthreads
    · simp only [hc, if_true, popGuard]
      cases htg : takeGuard t s.d.guards with
      | none => simpa using h
      | some x =>
        obtain ⟨p, rest⟩ := x
        obtain ⟨hm1, hm2⟩ := takeGuard_mem t _ p rest htg
        simp only []
        refine h.of_mono rfl rfl rfl rfl (fun _ => ⟨rfl, rfl⟩) rfl ?_ h.a2 ?_ ?_
        · intro c' ha
          rcases ha with ha | ha | ⟨t', ht', hd⟩ | ⟨g, hg, hgc⟩ | ha
          · exact Or.inl ha
          · exact Or.inr (Or.inl ha)
          · by_cases e : t' = t
            · subst e
              simp only [update_same] at hd
              exact Or.inr (Or.inr (Or.inr (Or.inl ⟨(t', p), hm1, hd⟩)))
            · simp only [update_other _ _ _ _ e] at hd
              exact Or.inr (Or.inr (Or.inl ⟨t', ht', hd⟩))
          · exact Or.inr (Or.inr (Or.inr (Or.inl ⟨g, hm2 g hg, hgc⟩)))
          · exact Or.inr (Or.inr (Or.inr (Or.inr ha)))
        · refine ⟨?_, fun g hg => h.a3.2.1 g (hm2 g hg), h.a3.2.2⟩
          intro t'
          by_cases e : t' = t
          · subst e; simp only [update_same]; exact h.a3.2.1 (t', p) hm1
          · simp only [update_other _ _ _ _ e]; exact h.a3.1 t'
        · intro t' ht'
          have e : t' ≠ t := by
            intro e; subst e; exact Nat.lt_irrefl _ (Nat.lt_of_lt_of_le hc ht')
          simp only [update_other _ _ _ _ e]
          exact h.a5 t' ht'
    · simp only [hc, if_false]; exact h
  | setGlobal c =>
    simp only [TM.Callsite.step]
    by_cases hc : s.handle c = true
    · simp only [hc, if_true, setGlobal]
      have hc0 := (h.a2 c hc).1
      by_cases h0 : s.d.ginit = 0
      · simp only [h0, if_true]
        refine h.of_mono rfl rfl rfl rfl (fun _ => ⟨rfl, rfl⟩) rfl ?_ h.a2 ⟨h.a3.1, h.a3.2.1, ?_⟩ h.a5
        · intro c' ha
          rcases ha with ha | ha | ha | ha | ha
          · exact Or.inl ha
          · exact Or.inr (Or.inl ha)
          · exact Or.inr (Or.inr (Or.inl ha))
          · exact Or.inr (Or.inr (Or.inr (Or.inl ha)))
          · simp only [Option.some.injEq] at ha; subst ha; exact Or.inr (Or.inl hc)
        · simp only [ne_eq, Option.some.injEq]; exact hc0
      · simp only [h0, if_false]; exact h
    · simp only [hc]; exact h
  | emit t cs =>
    simp only [TM.Callsite.step]
    by_cases hc : t < s.nthreads
    · simp only [hc, if_true]; exact emit_inv st h t cs
    · simp only [hc, if_false]; exact h
  | rebuild =>
    simp only [TM.Callsite.step, rebuildCache]
    exact rebuild_inv h.weak
  | flip c cs =>
    simp only [TM.Callsite.step, Callsite.flip]
    refine h.of_mono rfl rfl rfl rfl ?_ rfl (fun _ ha => ha) h.a2 h.a3 h.a5
    intro c'
    by_cases e : c' = c
    · subst e; simp
    · simp [update_other _ _ _ _ e]

end TM.CoreLemmas
