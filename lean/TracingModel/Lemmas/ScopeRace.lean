/- invariants of Core/ScopeRace for an atomic counter bump -/
import TracingModel.Core.ScopeRace

namespace TM.ScopeRace

@[simp] theorem updF_same {α : Type} (f : Nat → α) (t : Nat) (v : α) : updF f t v t = v := by simp [updF]
theorem updF_ne {α : Type} (f : Nat → α) (t x : Nat) (v : α) (h : x ≠ t) : updF f t v x = f x := by simp [updF, h]

theorem sum_map_upd (l : List Nat) (hnd : l.Nodup) (f f' : Nat → Nat) (t : Nat) (ht : t ∈ l) (h : ∀ x, x ≠ t → f' x = f x) :
    (l.map f').sum + f t = (l.map f).sum + f' t := by
  induction l with
  | nil => cases ht
  | cons a rest ih =>
    have hnd' : a ∉ rest ∧ rest.Nodup := by simpa using hnd
    by_cases e : a = t
    · subst e
      have : rest.map f' = rest.map f := by
        apply List.map_congr_left
        intro x hx
        exact h x (fun e => hnd'.1 (e ▸ hx))
      simp only [List.map_cons, List.sum_cons, this]
      omega
    · have ht' : t ∈ rest := by
        rcases List.mem_cons.mp ht with h1 | h1
        · exact absurd h1.symm e
        · exact h1
      have := ih hnd'.2 ht'
      simp only [List.map_cons, List.sum_cons, h a e]
      omega

theorem le_sum_of_mem (l : List Nat) (f : Nat → Nat) (t : Nat) (ht : t ∈ l) : f t ≤ (l.map f).sum := by
  induction l with
  | nil => cases ht
  | cons a rest ih =>
    simp only [List.map_cons, List.sum_cons]
    rcases List.mem_cons.mp ht with h1 | h1
    · subst h1; omega
    · have := ih h1; omega

def pend (s : S) (t : Nat) : Nat := if s.pc t = .idle then 0 else 1
/-- what thread `t` has contributed to the counter: its live guards, minus the one whose bump / restore is still under way -/
def contrib (s : S) (t : Nat) : Nat := (s.guards t).length - pend s t

/-- every guard holds as prior value the collector of the guard below it -/
def Chain : List (Nat × Option Nat) → Prop
  | [] => True
  | (_, prior) :: rest => prior = rest.head?.map (·.1) ∧ Chain rest

structure Inv (ths : List Nat) (s : S) : Prop where
  count : s.c = (ths.map (contrib s)).sum
  noLoaded : ∀ t v, s.pc t ≠ .loaded v
  top : ∀ t, s.tl t = (s.guards t).head?.map (·.1)
  chain : ∀ t, Chain (s.guards t)
  busy : ∀ t, s.pc t ≠ .idle → s.guards t ≠ []

theorem inv_start (ths : List Nat) : Inv ths start := by
  refine ⟨?_, fun t v => by simp [start], fun t => by simp [start], fun t => by simp [start, Chain], fun t h => by simp [start] at h⟩
  have : ∀ l : List Nat, (l.map (contrib start)).sum = 0 := by
    intro l; induction l with
    | nil => rfl
    | cons a r ih => simp [contrib, start, pend] at ih ⊢; exact ih
  exact (this ths).symm

theorem step_inv (g : Option Nat) (ths : List Nat) (hnd : ths.Nodup) (s : S) (h : Inv ths s) (t : Nat) (a : Act) (ht : t ∈ ths) :
    Inv ths (step true g s (t, a)) := by
  unfold step
  simp only
  cases hp : s.pc t with
  | idle =>
    cases a with
    | «open» col =>
      simp only
      refine ⟨?_, ?_, ?_, ?_, ?_⟩
      · -- the new guard is pending: the thread's contribution is unchanged
        have e := sum_map_upd ths hnd (contrib s)
          (contrib { s with tl := updF s.tl t (some col), guards := updF s.guards t ((col, s.tl t) :: s.guards t), pc := updF s.pc t .opened }) t ht
          (by intro x hx; simp [contrib, pend, updF_ne _ _ _ _ hx])
        have c1 : contrib { s with tl := updF s.tl t (some col), guards := updF s.guards t ((col, s.tl t) :: s.guards t), pc := updF s.pc t .opened } t = (s.guards t).length := by
          simp [contrib, pend]
        have c0 : contrib s t = (s.guards t).length := by simp [contrib, pend, hp]
        have := h.count
        show s.c = _
        omega
      · intro x v
        by_cases e : x = t
        · subst e; simp
        · show updF s.pc t PC.opened x ≠ PC.loaded v
          rw [updF_ne _ _ _ _ e]; exact h.noLoaded x v
      · intro x
        by_cases e : x = t
        · subst e; simp
        · show updF s.tl t (some col) x = (updF s.guards t ((col, s.tl t) :: s.guards t) x).head?.map (·.1)
          rw [updF_ne _ _ _ _ e, updF_ne _ _ _ _ e]; exact h.top x
      · intro x
        by_cases e : x = t
        · subst e
          show Chain (updF s.guards x ((col, s.tl x) :: s.guards x) x)
          rw [updF_same]
          exact ⟨h.top x, h.chain x⟩
        · show Chain (updF s.guards t ((col, s.tl t) :: s.guards t) x)
          rw [updF_ne _ _ _ _ e]; exact h.chain x
      · intro x hx
        by_cases e : x = t
        · subst e
          show updF s.guards x ((col, s.tl x) :: s.guards x) x ≠ []
          simp
        · show updF s.guards t ((col, s.tl t) :: s.guards t) x ≠ []
          rw [updF_ne _ _ _ _ e]
          exact h.busy x (by simpa [updF_ne _ _ _ _ e] using hx)
    | close =>
      simp only
      cases hg : s.guards t with
      | nil => simpa [hg] using h
      | cons top rest =>
        simp only
        have c0 : contrib s t = rest.length + 1 := by simp [contrib, pend, hp, hg]
        have hle := le_sum_of_mem ths (contrib s) t ht
        have hc := h.count
        refine ⟨?_, ?_, ?_, ?_, ?_⟩
        · have e := sum_map_upd ths hnd (contrib s) (contrib { s with c := s.c - 1, pc := updF s.pc t .closing }) t ht
            (by intro x hx; simp [contrib, pend, updF_ne _ _ _ _ hx])
          have c1 : contrib { s with c := s.c - 1, pc := updF s.pc t .closing } t = rest.length := by
            simp [contrib, pend, hg]
          show s.c - 1 = _
          omega
        · intro x v
          by_cases e : x = t
          · subst e; simp
          · show updF s.pc t PC.closing x ≠ PC.loaded v
            rw [updF_ne _ _ _ _ e]; exact h.noLoaded x v
        · exact h.top
        · exact h.chain
        · intro x hx
          by_cases e : x = t
          · subst e; simp [hg]
          · exact h.busy x (by simpa [updF_ne _ _ _ _ e] using hx)
    | step => simpa using h
    | get => exact ⟨h.count, h.noLoaded, h.top, h.chain, h.busy⟩
  | opened =>
    cases a with
    | step =>
      simp only [if_true]
      have hne := h.busy t (by simp [hp])
      have c0 : contrib s t + 1 = (s.guards t).length := by
        have : 1 ≤ (s.guards t).length := by
          cases hg : s.guards t with
          | nil => exact absurd hg hne
          | cons _ _ => simp
        simp [contrib, pend, hp]; omega
      refine ⟨?_, ?_, h.top, h.chain, ?_⟩
      · have e := sum_map_upd ths hnd (contrib s) (contrib { s with c := s.c + 1, pc := updF s.pc t .idle }) t ht
          (by intro x hx; simp [contrib, pend, updF_ne _ _ _ _ hx])
        have c1 : contrib { s with c := s.c + 1, pc := updF s.pc t .idle } t = (s.guards t).length := by
          simp [contrib, pend]
        have := h.count
        show s.c + 1 = _
        omega
      · intro x v
        by_cases e : x = t
        · subst e; simp
        · show updF s.pc t PC.idle x ≠ PC.loaded v
          rw [updF_ne _ _ _ _ e]; exact h.noLoaded x v
      · intro x hx
        by_cases e : x = t
        · subst e; simp at hx
        · exact h.busy x (by simpa [updF_ne _ _ _ _ e] using hx)
    | «open» _ => simpa using h
    | close => simpa using h
    | get => simpa using h
  | loaded v => exact absurd hp (h.noLoaded t v)
  | closing =>
    cases a with
    | step =>
      simp only
      have hne := h.busy t (by simp [hp])
      cases hg : s.guards t with
      | nil => exact absurd hg hne
      | cons top rest =>
        obtain ⟨col, prior⟩ := top
        simp only
        have hch := h.chain t
        rw [hg] at hch
        refine ⟨?_, ?_, ?_, ?_, ?_⟩
        · have e := sum_map_upd ths hnd (contrib s)
            (contrib { s with tl := updF s.tl t prior, guards := updF s.guards t rest, pc := updF s.pc t .idle }) t ht
            (by intro x hx; simp [contrib, pend, updF_ne _ _ _ _ hx])
          have c0 : contrib s t = rest.length := by simp [contrib, pend, hp, hg]
          have c1 : contrib { s with tl := updF s.tl t prior, guards := updF s.guards t rest, pc := updF s.pc t .idle } t = rest.length := by
            simp [contrib, pend]
          have := h.count
          show s.c = _
          omega
        · intro x v
          by_cases e : x = t
          · subst e; simp
          · show updF s.pc t PC.idle x ≠ PC.loaded v
            rw [updF_ne _ _ _ _ e]; exact h.noLoaded x v
        · intro x
          by_cases e : x = t
          · subst e
            show updF s.tl x prior x = (updF s.guards x rest x).head?.map (·.1)
            rw [updF_same, updF_same]; exact hch.1
          · show updF s.tl t prior x = (updF s.guards t rest x).head?.map (·.1)
            rw [updF_ne _ _ _ _ e, updF_ne _ _ _ _ e]; exact h.top x
        · intro x
          by_cases e : x = t
          · subst e
            show Chain (updF s.guards x rest x)
            rw [updF_same]; exact hch.2
          · show Chain (updF s.guards t rest x)
            rw [updF_ne _ _ _ _ e]; exact h.chain x
        · intro x hx
          by_cases e : x = t
          · subst e; simp at hx
          · show updF s.guards t rest x ≠ []
            rw [updF_ne _ _ _ _ e]
            exact h.busy x (by simpa [updF_ne _ _ _ _ e] using hx)
    | «open» _ => simpa using h
    | close => simpa using h
    | get => simpa using h

theorem run_inv (g : Option Nat) (ths : List Nat) (hnd : ths.Nodup) (sched : List (Nat × Act)) (hs : ∀ ta ∈ sched, ta.1 ∈ ths)
    (s : S) (h : Inv ths s) : Inv ths (run true g s sched) := by
  induction sched generalizing s with
  | nil => exact h
  | cons ta rest ih =>
    obtain ⟨t, a⟩ := ta
    exact ih (fun x hx => hs x (List.mem_cons_of_mem _ hx)) _ (step_inv g ths hnd s h t a (hs (t, a) (by simp)))

/-- a thread that is between calls and has a live scope: the counter is not zero (the fast path is not taken) -/
theorem live_scope_counted (ths : List Nat) (s : S) (h : Inv ths s) (t : Nat) (ht : t ∈ ths) (hidle : s.pc t = .idle)
    (hlive : s.guards t ≠ []) : 1 ≤ s.c := by
  have hle := le_sum_of_mem ths (contrib s) t ht
  have : 1 ≤ contrib s t := by
    cases hg : s.guards t with
    | nil => exact absurd hg hlive
    | cons _ _ => simp [contrib, pend, hidle, hg]
  have := h.count
  omega

/-- what `get_default` answers in a state satisfying the invariant -/
theorem get_expected (g : Option Nat) (ths : List Nat) (s : S) (h : Inv ths s) (t : Nat) (ht : t ∈ ths) (hidle : s.pc t = .idle) :
    (step true g s (t, .get)).last t = some (expected g s t) := by
  unfold step
  simp only [hidle, updF_same]
  congr 1
  unfold expected
  cases hg : s.guards t with
  | nil =>
    have := h.top t
    rw [hg] at this
    simp at this
    simp [this]
  | cons top rest =>
    obtain ⟨col, prior⟩ := top
    have hc := live_scope_counted ths s h t ht hidle (by simp [hg])
    have hz : ¬ s.c = 0 := by omega
    have := h.top t
    rw [hg] at this
    simp at this
    simp [hz, this]

end TM.ScopeRace
