/- invariants of the shared-counter transition system (Core/AtomicCount) for atomic read-modify-write updates -/
import TracingModel.Core.AtomicCount

namespace TM.AtomicCount

theorem upd_same (f : Nat → PC) (t : Nat) (v : PC) : upd f t v t = v := by simp [upd]
theorem upd_other (f : Nat → PC) (t x : Nat) (v : PC) (h : x ≠ t) : upd f t v x = f x := by simp [upd, h]

/-- changing one thread's pc changes a count over a duplicate-free thread list by that thread's contribution -/
theorem count_upd (p : PC → Bool) (l : List Nat) (hnd : l.Nodup) (f : Nat → PC) (t : Nat) (v : PC) (ht : t ∈ l) :
    (l.filter fun x => p (upd f t v x)).length + (if p (f t) then 1 else 0) =
    (l.filter fun x => p (f x)).length + (if p v then 1 else 0) := by
  induction l with
  | nil => cases ht
  | cons a rest ih =>
    have hnd' : a ∉ rest ∧ rest.Nodup := by simpa using hnd
    by_cases e : a = t
    · subst e
      have hrest : (rest.filter fun x => p (upd f a v x)) = rest.filter fun x => p (f x) := by
        apply List.filter_congr
        intro x hx
        have : x ≠ a := fun e => hnd'.1 (e ▸ hx)
        rw [upd_other _ _ _ _ this]
      simp only [List.filter_cons, upd_same, hrest]
      cases p v <;> cases p (f a) <;> simp
    · have ht' : t ∈ rest := by
        rcases List.mem_cons.mp ht with h | h
        · exact absurd h.symm e
        · exact h
      have := ih hnd'.2 ht'
      simp only [List.filter_cons, upd_other _ _ _ _ e]
      cases p (f a) <;> simp <;> omega

theorem finished_eq (s : S) (ths : List Nat) : finished s ths = (ths.filter fun t => isDone (s.pc t)).length := rfl
@[simp] theorem isDone_todo : isDone .todo = false := rfl
@[simp] theorem isDone_done (b : Bool) : isDone (.done b) = true := rfl
@[simp] theorem isCloser_todo : isCloser .todo = false := rfl
@[simp] theorem isCloser_done (b : Bool) : isCloser (.done b) = b := by cases b <;> rfl
theorem closers_eq (s : S) (ths : List Nat) : closers s ths = (ths.filter fun t => isCloser (s.pc t)).length := rfl

/-! ### increments: none is lost -/

structure IncInv (c0 : Nat) (ths : List Nat) (s : S) : Prop where
  count : s.c = c0 + finished s ths
  noHalf : ∀ t, (∀ v, s.pc t ≠ .loaded v) ∧ s.pc t ≠ .decremented

theorem inc_step (c0 : Nat) (ths : List Nat) (hnd : ths.Nodup) (kind : Nat → Kind) (hk : ∀ t, kind t = .inc)
    (s : S) (h : IncInv c0 ths s) (t : Nat) (ht : t ∈ ths) : IncInv c0 ths (step true true kind s t) := by
  unfold step
  rw [hk t]
  cases hp : s.pc t with
  | todo =>
    simp only [if_true]
    constructor
    · have := count_upd isDone ths hnd s.pc t (.done false) ht
      simp only [hp, isDone_todo, isDone_done, Bool.false_eq_true, if_false, if_true] at this
      have hc := h.count; rw [finished_eq] at hc
      rw [finished_eq]
      show s.c + 1 = c0 + (ths.filter fun x => isDone (upd s.pc t (PC.done false) x)).length
      omega
    · intro x
      by_cases e : x = t
      · subst e
        show (∀ v, upd s.pc x (PC.done false) x ≠ PC.loaded v) ∧ upd s.pc x (PC.done false) x ≠ PC.decremented
        simp [upd_same]
      · show (∀ v, upd s.pc t (PC.done false) x ≠ PC.loaded v) ∧ upd s.pc t (PC.done false) x ≠ PC.decremented
        rw [upd_other _ _ _ _ e]; exact h.noHalf x
  | loaded v => exact absurd hp ((h.noHalf t).1 v)
  | decremented => exact absurd hp (h.noHalf t).2
  | done b => simpa [hp] using h

/-- **no lost increment** — any number of threads each bumping the counter once with an atomic fetch_add, under every
interleaving: the counter is the initial value plus the number of threads that have finished -/
theorem increments_exact (c0 : Nat) (ths : List Nat) (hnd : ths.Nodup) (kind : Nat → Kind) (hk : ∀ t, kind t = .inc)
    (sched : List Nat) (hs : ∀ t ∈ sched, t ∈ ths) :
    (run true true kind (start c0) sched).c = c0 + finished (run true true kind (start c0) sched) ths := by
  have key : ∀ (sched : List Nat) (s : S), (∀ t ∈ sched, t ∈ ths) → IncInv c0 ths s → IncInv c0 ths (run true true kind s sched) := by
    intro sched
    induction sched with
    | nil => intro s _ h; exact h
    | cons t ts ih =>
      intro s hs h
      exact ih _ (fun x hx => hs x (List.mem_cons_of_mem _ hx)) (inc_step c0 ths hnd kind hk s h t (hs t (by simp)))
  have h0 : IncInv c0 ths (start c0) := by
    refine ⟨?_, fun t => ⟨fun v => by simp [start], by simp [start]⟩⟩
    have z : ∀ l : List Nat, (l.filter fun _ => false) = [] := fun l => by simp
    simp [start, finished, z]
  exact (key sched _ hs h0).count

/-! ### releases: exactly one thread concludes that it was the last -/

structure DecInv (ths : List Nat) (s : S) : Prop where
  count : s.c + finished s ths = ths.length
  closer : closers s ths = if s.c = 0 then 1 else 0
  noHalf : ∀ t, (∀ v, s.pc t ≠ .loaded v) ∧ s.pc t ≠ .decremented

theorem filter_lt_of_not (p : Nat → Bool) (l : List Nat) (t : Nat) (ht : t ∈ l) (hp : p t = false) : (l.filter p).length < l.length := by
  induction l with
  | nil => cases ht
  | cons a rest ih =>
    simp only [List.filter_cons]
    rcases List.mem_cons.mp ht with rfl | h
    · simp only [hp, Bool.false_eq_true, if_false, List.length_cons]
      have := List.length_filter_le p rest
      omega
    · have := ih h
      cases p a <;> simp only [Bool.false_eq_true, if_false, if_true, List.length_cons] <;> omega

theorem dec_step (ths : List Nat) (hnd : ths.Nodup) (kind : Nat → Kind) (hk : ∀ t, kind t = .dec)
    (s : S) (h : DecInv ths s) (t : Nat) (ht : t ∈ ths) : DecInv ths (step true true kind s t) := by
  unfold step
  rw [hk t]
  cases hp : s.pc t with
  | todo =>
    simp only [if_true]
    -- the thread has not finished: the counter is still positive
    have hlt : finished s ths < ths.length := by
      rw [finished_eq]
      exact filter_lt_of_not (fun x => isDone (s.pc x)) ths t ht (by simp [hp, isDone])
    have hc := h.count
    have hpos : 1 ≤ s.c := by omega
    have hcl := h.closer
    have hz : ¬ s.c = 0 := by omega
    rw [if_neg hz] at hcl
    have c1 := count_upd isDone ths hnd s.pc t (.done (s.c == 1)) ht
    have c2 := count_upd isCloser ths hnd s.pc t (.done (s.c == 1)) ht
    simp only [hp, isDone_todo, isDone_done, isCloser_todo, isCloser_done, Bool.false_eq_true, if_false, if_true] at c1 c2
    rw [finished_eq] at hc
    rw [closers_eq] at hcl
    refine ⟨?_, ?_, ?_⟩
    · rw [finished_eq]
      show s.c - 1 + (ths.filter fun x => isDone (upd s.pc t (PC.done (s.c == 1)) x)).length = ths.length
      omega
    · rw [closers_eq]
      show (ths.filter fun x => isCloser (upd s.pc t (PC.done (s.c == 1)) x)).length = if s.c - 1 = 0 then 1 else 0
      by_cases e1 : s.c = 1
      · have e2 : (s.c == 1) = true := by simpa using e1
        have e3 : s.c - 1 = 0 := by omega
        rw [e2] at c2 ⊢
        rw [if_pos e3]
        simp only [if_true] at c2
        omega
      · have e2 : (s.c == 1) = false := by simpa using e1
        have e3 : ¬ s.c - 1 = 0 := by omega
        rw [e2] at c2 ⊢
        rw [if_neg e3]
        simp only [Bool.false_eq_true, if_false] at c2
        omega
    · intro x
      by_cases e : x = t
      · subst e
        show (∀ v, upd s.pc x (PC.done (s.c == 1)) x ≠ PC.loaded v) ∧ upd s.pc x (PC.done (s.c == 1)) x ≠ PC.decremented
        simp [upd_same]
      · show (∀ v, upd s.pc t (PC.done (s.c == 1)) x ≠ PC.loaded v) ∧ upd s.pc t (PC.done (s.c == 1)) x ≠ PC.decremented
        rw [upd_other _ _ _ _ e]; exact h.noHalf x
  | loaded v => exact absurd hp ((h.noHalf t).1 v)
  | decremented => exact absurd hp (h.noHalf t).2
  | done b => simpa [hp] using h

/-- **exactly one closer** — `n ≥ 1` threads hold the `n` references of a span and each releases its own with a fetch_sub whose
returned value decides ("I was the last iff it returned 1"): under every interleaving at most one of them concludes that it was
the last, and once the count has reached zero exactly one has -/
theorem one_closer (ths : List Nat) (hnd : ths.Nodup) (hne : ths ≠ []) (kind : Nat → Kind) (hk : ∀ t, kind t = .dec)
    (sched : List Nat) (hs : ∀ t ∈ sched, t ∈ ths) :
    let s := run true true kind (start ths.length) sched
    closers s ths ≤ 1 ∧ (s.c = 0 → closers s ths = 1) ∧ s.c + finished s ths = ths.length := by
  have key : ∀ (sched : List Nat) (s : S), (∀ t ∈ sched, t ∈ ths) → DecInv ths s → DecInv ths (run true true kind s sched) := by
    intro sched
    induction sched with
    | nil => intro s _ h; exact h
    | cons t ts ih =>
      intro s hs h
      exact ih _ (fun x hx => hs x (List.mem_cons_of_mem _ hx)) (dec_step ths hnd kind hk s h t (hs t (by simp)))
  have hlen : ths.length ≠ 0 := by
    intro e; exact hne (List.length_eq_zero_iff.mp e)
  have h0 : DecInv ths (start ths.length) := by
    refine ⟨by simp [start, finished, List.filter_eq_nil_iff], ?_, fun t => ⟨fun v => by simp [start], by simp [start]⟩⟩
    simp [start, closers, hlen, List.filter_eq_nil_iff]
  have h := key sched _ hs h0
  refine ⟨?_, ?_, h.count⟩
  · rw [h.closer]; split <;> omega
  · intro hz; rw [h.closer, if_pos hz]


/-! ### increments and decrements mixed: the counter is the number of things that are live -/

theorem count_upd_notin (p : PC → Bool) (l : List Nat) (f : Nat → PC) (t : Nat) (v : PC) (ht : t ∉ l) :
    (l.filter fun x => p (upd f t v x)) = l.filter fun x => p (f x) := by
  apply List.filter_congr
  intro x hx
  have : x ≠ t := fun e => ht (e ▸ hx)
  rw [upd_other _ _ _ _ this]

def incs (kind : Nat → Kind) (ths : List Nat) : List Nat := ths.filter fun t => kind t == .inc
def decs (kind : Nat → Kind) (ths : List Nat) : List Nat := ths.filter fun t => kind t == .dec

structure MixInv (c0 : Nat) (kind : Nat → Kind) (ths : List Nat) (s : S) : Prop where
  count : s.c + finished s (decs kind ths) = c0 + finished s (incs kind ths)
  noHalf : ∀ t, (∀ v, s.pc t ≠ .loaded v) ∧ s.pc t ≠ .decremented

theorem mix_step (c0 : Nat) (ths : List Nat) (hnd : ths.Nodup) (kind : Nat → Kind) (hroom : (decs kind ths).length ≤ c0)
    (s : S) (h : MixInv c0 kind ths s) (t : Nat) (ht : t ∈ ths) : MixInv c0 kind ths (step true true kind s t) := by
  have ndi : (incs kind ths).Nodup := hnd.filter _
  have ndd : (decs kind ths).Nodup := hnd.filter _
  unfold step
  cases hp : s.pc t with
  | todo =>
    cases hk : kind t with
    | inc =>
      simp only [if_true]
      have ti : t ∈ incs kind ths := by simp [incs, ht, hk]
      have td : t ∉ decs kind ths := by simp [decs, hk]
      have c1 := count_upd isDone _ ndi s.pc t (.done false) ti
      simp only [hp, isDone_todo, isDone_done, Bool.false_eq_true, if_false, if_true] at c1
      have c2 := count_upd_notin isDone _ s.pc t (.done false) td
      have hc := h.count
      simp only [finished_eq] at hc
      refine ⟨?_, ?_⟩
      · simp only [finished_eq]
        show s.c + 1 + ((decs kind ths).filter fun x => isDone (upd s.pc t (PC.done false) x)).length
           = c0 + ((incs kind ths).filter fun x => isDone (upd s.pc t (PC.done false) x)).length
        rw [c2]; omega
      · intro x
        by_cases e : x = t
        · subst e
          show (∀ v, upd s.pc x (PC.done false) x ≠ PC.loaded v) ∧ upd s.pc x (PC.done false) x ≠ PC.decremented
          simp [upd_same]
        · show (∀ v, upd s.pc t (PC.done false) x ≠ PC.loaded v) ∧ upd s.pc t (PC.done false) x ≠ PC.decremented
          rw [upd_other _ _ _ _ e]; exact h.noHalf x
    | dec =>
      simp only [if_true]
      have td : t ∈ decs kind ths := by simp [decs, ht, hk]
      have ti : t ∉ incs kind ths := by simp [incs, hk]
      have c1 := count_upd isDone _ ndd s.pc t (.done (s.c == 1)) td
      simp only [hp, isDone_todo, isDone_done, Bool.false_eq_true, if_false, if_true] at c1
      have c2 := count_upd_notin isDone _ s.pc t (.done (s.c == 1)) ti
      have hlt : finished s (decs kind ths) < (decs kind ths).length := by
        rw [finished_eq]
        exact filter_lt_of_not (fun x => isDone (s.pc x)) _ t td (by simp [hp])
      have hc := h.count
      have hpos : 1 ≤ s.c := by omega
      simp only [finished_eq] at hc
      refine ⟨?_, ?_⟩
      · simp only [finished_eq]
        show s.c - 1 + ((decs kind ths).filter fun x => isDone (upd s.pc t (PC.done (s.c == 1)) x)).length
           = c0 + ((incs kind ths).filter fun x => isDone (upd s.pc t (PC.done (s.c == 1)) x)).length
        rw [c2]; omega
      · intro x
        by_cases e : x = t
        · subst e
          show (∀ v, upd s.pc x (PC.done (s.c == 1)) x ≠ PC.loaded v) ∧ upd s.pc x (PC.done (s.c == 1)) x ≠ PC.decremented
          simp [upd_same]
        · show (∀ v, upd s.pc t (PC.done (s.c == 1)) x ≠ PC.loaded v) ∧ upd s.pc t (PC.done (s.c == 1)) x ≠ PC.decremented
          rw [upd_other _ _ _ _ e]; exact h.noHalf x
  | loaded v => exact absurd hp ((h.noHalf t).1 v)
  | decremented => exact absurd hp (h.noHalf t).2
  | done b => cases kind t <;> simpa [hp] using h

/-- **the counter is exact** — any threads, each performing one atomic increment (something becomes live) or one atomic
decrement (something that was live at the start goes away), under every interleaving:
counter = initial + increments finished − decrements finished -/
theorem mixed_exact (c0 : Nat) (ths : List Nat) (hnd : ths.Nodup) (kind : Nat → Kind) (hroom : (decs kind ths).length ≤ c0)
    (sched : List Nat) (hs : ∀ t ∈ sched, t ∈ ths) :
    let s := run true true kind (start c0) sched
    s.c + finished s (decs kind ths) = c0 + finished s (incs kind ths) := by
  have key : ∀ (sched : List Nat) (s : S), (∀ t ∈ sched, t ∈ ths) → MixInv c0 kind ths s → MixInv c0 kind ths (run true true kind s sched) := by
    intro sched
    induction sched with
    | nil => intro s _ h; exact h
    | cons t ts ih =>
      intro s hs h
      exact ih _ (fun x hx => hs x (List.mem_cons_of_mem _ hx)) (mix_step c0 ths hnd kind hroom s h t (hs t (by simp)))
  have h0 : MixInv c0 kind ths (start c0) := by
    refine ⟨?_, fun t => ⟨fun v => by simp [start], by simp [start]⟩⟩
    have z : ∀ l : List Nat, (l.filter fun _ => false) = [] := fun l => by simp
    simp [start, finished, z]
  exact (key sched _ hs h0).count

/-! ### what goes wrong otherwise (kernel-decided witnesses) -/

/-- two non-atomic increments (load, load, store, store): one is lost -/
theorem lost_increment_witness :
    (run false true (fun _ => .inc) (start 0) [0, 1, 0, 1]).c = 1 := by decide

/-- two releases whose "am I the last?" is a separate load (dec, dec, load, load): both conclude that they are -/
theorem two_closers_witness :
    closers (run true false (fun _ => .dec) (start 2) [0, 1, 0, 1]) [0, 1] = 2 := by decide

end TM.AtomicCount
