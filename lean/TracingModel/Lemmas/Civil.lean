/- the day-number → (year, month, day) conversion of Core/Rolling is injective: different days have different dates -/
import TracingModel.Core.Rolling
import TracingModel.Lemmas.Civil.Chunk0
import TracingModel.Lemmas.Civil.Chunk1
import TracingModel.Lemmas.Civil.Chunk2
import TracingModel.Lemmas.Civil.Chunk3

namespace TM.Civil
open TM.Rolling

theorem okDoe_all (doe : Nat) (h : doe < 146097) : okDoe doe = true := by
  by_cases h0 : doe < 37000
  · have := allFrom_spec okDoe 0 37000 chunk0 doe h0; simpa using this
  by_cases h1 : doe < 74000
  · have := allFrom_spec okDoe 37000 37000 chunk1 (doe - 37000) (by omega)
    rwa [show 37000 + (doe - 37000) = doe by omega] at this
  by_cases h2 : doe < 111000
  · have := allFrom_spec okDoe 74000 37000 chunk2 (doe - 74000) (by omega)
    rwa [show 74000 + (doe - 74000) = doe by omega] at this
  · have := allFrom_spec okDoe 111000 35097 chunk3 (doe - 111000) (by omega)
    rwa [show 111000 + (doe - 111000) = doe by omega] at this

theorem yoe_bounds (doe : Nat) (h : doe < 146097) :
    yoeOf doe ≤ 399 ∧ 365 * yoeOf doe + yoeOf doe / 4 - yoeOf doe / 100 ≤ doe ∧
    doe - (365 * yoeOf doe + yoeOf doe / 4 - yoeOf doe / 100) ≤ 365 := by
  have := okDoe_all doe h
  simpa [okDoe, and_assoc] using this

def okDoy (doy : Nat) : Bool :=
  let mp := (5 * doy + 2) / 153
  decide (mp ≤ 11) && decide ((153 * mp + 2) / 5 ≤ doy)

theorem doy_chunk : allFrom okDoy 0 366 = true := by decide +kernel

theorem doy_bounds (doy : Nat) (h : doy ≤ 365) : (5 * doy + 2) / 153 ≤ 11 ∧ (153 * ((5 * doy + 2) / 153) + 2) / 5 ≤ doy := by
  have := allFrom_spec okDoy 0 366 doy_chunk doy (by omega)
  simpa [okDoy] using this

theorem civil_eq (z0 : Nat) : civil z0 =
    (yoeOf ((z0 + 719468) % 146097) + (z0 + 719468) / 146097 * 400 +
       (if (if (5 * ((z0 + 719468) % 146097 - (365 * yoeOf ((z0 + 719468) % 146097) + yoeOf ((z0 + 719468) % 146097) / 4 - yoeOf ((z0 + 719468) % 146097) / 100)) + 2) / 153 < 10
            then (5 * ((z0 + 719468) % 146097 - (365 * yoeOf ((z0 + 719468) % 146097) + yoeOf ((z0 + 719468) % 146097) / 4 - yoeOf ((z0 + 719468) % 146097) / 100)) + 2) / 153 + 3
            else (5 * ((z0 + 719468) % 146097 - (365 * yoeOf ((z0 + 719468) % 146097) + yoeOf ((z0 + 719468) % 146097) / 4 - yoeOf ((z0 + 719468) % 146097) / 100)) + 2) / 153 - 9) ≤ 2 then 1 else 0),
     (if (5 * ((z0 + 719468) % 146097 - (365 * yoeOf ((z0 + 719468) % 146097) + yoeOf ((z0 + 719468) % 146097) / 4 - yoeOf ((z0 + 719468) % 146097) / 100)) + 2) / 153 < 10
        then (5 * ((z0 + 719468) % 146097 - (365 * yoeOf ((z0 + 719468) % 146097) + yoeOf ((z0 + 719468) % 146097) / 4 - yoeOf ((z0 + 719468) % 146097) / 100)) + 2) / 153 + 3
        else (5 * ((z0 + 719468) % 146097 - (365 * yoeOf ((z0 + 719468) % 146097) + yoeOf ((z0 + 719468) % 146097) / 4 - yoeOf ((z0 + 719468) % 146097) / 100)) + 2) / 153 - 9),
     ((z0 + 719468) % 146097 - (365 * yoeOf ((z0 + 719468) % 146097) + yoeOf ((z0 + 719468) % 146097) / 4 - yoeOf ((z0 + 719468) % 146097) / 100)) -
        (153 * ((5 * ((z0 + 719468) % 146097 - (365 * yoeOf ((z0 + 719468) % 146097) + yoeOf ((z0 + 719468) % 146097) / 4 - yoeOf ((z0 + 719468) % 146097) / 100)) + 2) / 153) + 2) / 5 + 1) := rfl

/-- **different days have different dates** -/
theorem civil_injective (z z' : Nat) (h : civil z = civil z') : z = z' := by
  rw [civil_eq, civil_eq] at h
  have hd := Nat.mod_lt (z + 719468) (show 146097 > 0 by decide)
  have hd' := Nat.mod_lt (z' + 719468) (show 146097 > 0 by decide)
  obtain ⟨b1, b2, b3⟩ := yoe_bounds _ hd
  obtain ⟨b1', b2', b3'⟩ := yoe_bounds _ hd'
  have hz := Nat.div_add_mod (z + 719468) 146097
  have hz' := Nat.div_add_mod (z' + 719468) 146097
  generalize (z + 719468) % 146097 = doe at *
  generalize (z' + 719468) % 146097 = doe' at *
  generalize (z + 719468) / 146097 = era at *
  generalize (z' + 719468) / 146097 = era' at *
  generalize yoeOf doe = yoe at *
  generalize yoeOf doe' = yoe' at *
  obtain ⟨m1, m2⟩ := doy_bounds _ b3
  obtain ⟨m1', m2'⟩ := doy_bounds _ b3'
  generalize hS : 365 * yoe + yoe / 4 - yoe / 100 = S at *
  generalize hS' : 365 * yoe' + yoe' / 4 - yoe' / 100 = S' at *
  generalize hy : doe - S = doy at *
  generalize hy' : doe' - S' = doy' at *
  generalize hmp : (5 * doy + 2) / 153 = mp at *
  generalize hmp' : (5 * doy' + 2) / 153 = mp' at *
  simp only [Prod.mk.injEq] at h
  obtain ⟨e1, e2, e3⟩ := h
  -- the month gives the shifted month
  have emp : mp = mp' := by
    split at e2 <;> split at e2 <;> omega
  subst emp
  -- the day gives the day of the year
  have edoy : doy = doy' := by omega
  subst edoy
  -- the year gives the era and the year of the era
  have ey : yoe = yoe' ∧ era = era' := by
    split at e1 <;> omega
  obtain ⟨ey1, ey2⟩ := ey
  subst ey1 ey2
  omega

end TM.Civil
