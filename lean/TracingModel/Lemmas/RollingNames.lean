/- different periods have different file names (Core/Rolling `fileName`) -/
import TracingModel.Lemmas.Civil

namespace TM.Rolling
open TM.Civil

/-! ### digits -/

theorem pad_value (w n : Nat) : Nat.ofDigitChars 10 (pad w n) 0 = n := by
  unfold pad
  simp only
  rw [Nat.ofDigitChars_append, Nat.ofDigitChars_replicate_zero]
  simp [Nat.ofDigitChars_ten_toDigits]

theorem pad_injective (w n n' : Nat) (h : pad w n = pad w n') : n = n' := by
  have := congrArg (fun l => Nat.ofDigitChars 10 l 0) h
  simpa [pad_value] using this

theorem dash_not_in_pad (w n : Nat) : '-' ∉ pad w n := by
  unfold pad
  simp only
  intro h
  rcases List.mem_append.mp h with h | h
  · have := List.eq_of_mem_replicate h
    exact absurd this (by decide)
  · have := Nat.isDigit_of_mem_toDigits (by decide) (by decide) h
    exact absurd this (by decide)

/-- splitting at the first dash -/
theorem split_at_dash (a a' b b' : List Char) (ha : '-' ∉ a) (ha' : '-' ∉ a') (h : a ++ '-' :: b = a' ++ '-' :: b') :
    a = a' ∧ b = b' := by
  induction a generalizing a' with
  | nil =>
    cases a' with
    | nil => simpa using h
    | cons c r =>
      simp at h
      exact absurd h.1.symm (fun e => ha' (by simp [e]))
  | cons c r ih =>
    cases a' with
    | nil =>
      simp at h
      exact absurd h.1 (fun e => ha (by simp [e]))
    | cons c' r' =>
      simp only [List.cons_append, List.cons.injEq] at h
      have := ih r' (fun m => ha (List.mem_cons_of_mem _ m)) (fun m => ha' (List.mem_cons_of_mem _ m)) h.2
      exact ⟨by rw [h.1, this.1], this.2⟩

/-! ### the date part -/

/-- the characters of the date part, from the date's components and the second of the day -/
def dateCharsOf (k : Kind) (c : Nat × Nat × Nat) (sod : Nat) : List Char :=
  let ymd := pad 4 c.1 ++ ['-'] ++ pad 2 c.2.1 ++ ['-'] ++ pad 2 c.2.2
  match k with
    | .minutely => ymd ++ ['-'] ++ pad 2 (sod / 3600) ++ ['-'] ++ pad 2 (sod % 3600 / 60)
    | .hourly => ymd ++ ['-'] ++ pad 2 (sod / 3600)
    | _ => ymd

/-- the characters of `dateOfQ` -/
def dateChars (k : Kind) (q : Nat) : List Char :=
  dateCharsOf k (civil ((if period k = 0 then q else q * period k) / 86400)) ((if period k = 0 then q else q * period k) % 86400)

theorem dateOfQ_eq (k : Kind) (q : Nat) : dateOfQ k q = String.ofList (dateChars k q) := by
  unfold dateOfQ dateChars dateCharsOf
  simp only
  generalize civil ((if period k = 0 then q else q * period k) / 86400) = c
  obtain ⟨y, m, d⟩ := c
  rfl

theorem ymd_split (y m d y' m' d' : Nat) (r r' : List Char)
    (h : pad 4 y ++ ('-' :: (pad 2 m ++ ('-' :: (pad 2 d ++ r)))) = pad 4 y' ++ ('-' :: (pad 2 m' ++ ('-' :: (pad 2 d' ++ r'))))) :
    y = y' ∧ m = m' ∧ pad 2 d ++ r = pad 2 d' ++ r' := by
  obtain ⟨h1, h2⟩ := split_at_dash _ _ _ _ (dash_not_in_pad 4 y) (dash_not_in_pad 4 y') h
  obtain ⟨h3, h4⟩ := split_at_dash _ _ _ _ (dash_not_in_pad 2 m) (dash_not_in_pad 2 m') h2
  exact ⟨pad_injective _ _ _ h1, pad_injective _ _ _ h3, h4⟩

theorem daily_core (c c' : Nat × Nat × Nat) (s s' : Nat) (h : dateCharsOf .daily c s = dateCharsOf .daily c' s') : c = c' := by
  unfold dateCharsOf at h
  simp only [List.append_assoc, List.cons_append, List.nil_append] at h
  have h0 : ∀ l : List Char, l = l ++ [] := fun l => by simp
  rw [h0 (pad 2 c.2.2), h0 (pad 2 c'.2.2)] at h
  obtain ⟨e1, e2, e3⟩ := ymd_split _ _ _ _ _ _ _ _ h
  simp only [List.append_nil] at e3
  exact Prod.ext e1 (Prod.ext e2 (pad_injective _ _ _ e3))

theorem hourly_core (c c' : Nat × Nat × Nat) (s s' : Nat) (h : dateCharsOf .hourly c s = dateCharsOf .hourly c' s') :
    c = c' ∧ s / 3600 = s' / 3600 := by
  unfold dateCharsOf at h
  simp only [List.append_assoc, List.cons_append, List.nil_append] at h
  obtain ⟨e1, e2, e3⟩ := ymd_split _ _ _ _ _ _ _ _ h
  obtain ⟨e3, e4⟩ := split_at_dash _ _ _ _ (dash_not_in_pad 2 _) (dash_not_in_pad 2 _) e3
  exact ⟨Prod.ext e1 (Prod.ext e2 (pad_injective _ _ _ e3)), pad_injective _ _ _ e4⟩

theorem minutely_core (c c' : Nat × Nat × Nat) (s s' : Nat) (h : dateCharsOf .minutely c s = dateCharsOf .minutely c' s') :
    c = c' ∧ s / 3600 = s' / 3600 ∧ s % 3600 / 60 = s' % 3600 / 60 := by
  unfold dateCharsOf at h
  simp only [List.append_assoc, List.cons_append, List.nil_append] at h
  obtain ⟨e1, e2, e3⟩ := ymd_split _ _ _ _ _ _ _ _ h
  obtain ⟨e3, e4⟩ := split_at_dash _ _ _ _ (dash_not_in_pad 2 _) (dash_not_in_pad 2 _) e3
  obtain ⟨e4, e5⟩ := split_at_dash _ _ _ _ (dash_not_in_pad 2 _) (dash_not_in_pad 2 _) e4
  exact ⟨Prod.ext e1 (Prod.ext e2 (pad_injective _ _ _ e3)), pad_injective _ _ _ e4, pad_injective _ _ _ e5⟩

theorem dateChars_injective (k : Kind) (hk : k ≠ .never) (q q' : Nat) (h : dateChars k q = dateChars k q') : q = q' := by
  unfold dateChars at h
  cases k with
  | never => exact absurd rfl hk
  | daily =>
    have e := civil_injective _ _ (daily_core _ _ _ _ h)
    simp only [period, show ¬ ((86400 : Nat) = 0) by omega, if_false] at e
    omega
  | hourly =>
    obtain ⟨e, e2⟩ := hourly_core _ _ _ _ h
    have e := civil_injective _ _ e
    simp only [period, show ¬ ((3600 : Nat) = 0) by omega, if_false] at e e2
    omega
  | minutely =>
    obtain ⟨e, e2, e3⟩ := minutely_core _ _ _ _ h
    have e := civil_injective _ _ e
    simp only [period, show ¬ ((60 : Nat) = 0) by omega, if_false] at e e2 e3
    omega

/-- **different periods, different file names** -/
theorem fileName_injective (k : Kind) (hk : k ≠ .never) (pre suf : Option String) (t t' : Nat)
    (h : fileName k pre suf t = fileName k pre suf t') : periodIndex k t = periodIndex k t' := by
  have key : dateOfQ k (periodIndex k t) = dateOfQ k (periodIndex k t') := by
    unfold fileName at h
    cases k with
    | never => exact absurd rfl hk
    | daily => cases pre <;> cases suf <;> simpa [String.append_assoc] using h
    | hourly => cases pre <;> cases suf <;> simpa [String.append_assoc] using h
    | minutely => cases pre <;> cases suf <;> simpa [String.append_assoc] using h
  rw [dateOfQ_eq, dateOfQ_eq] at key
  exact dateChars_injective k hk _ _ (String.ofList_injective key)

end TM.Rolling
