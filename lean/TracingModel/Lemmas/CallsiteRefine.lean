import TracingModel.Lemmas.CallsiteStep

/-! The refinement argument shared by C01, C02, C04 and C12: the model's outputs are the
cache-free specification's outputs.  The property files restate these under their own names. -/
namespace TM.Refine
open TM.Dispatch TM.Callsite TM.Spec.CoreSpec TM.CoreLemmas

private theorem current_alive {lvl : Cs → Nat} {s : CState} (hi : Inv lvl s) (t : Tid) (c : Cid)
    (ht : t < s.nthreads) (hc : current s.d t = some c) : Alive s c ∧ c ≠ 0 := by
  have hg : getGlobal s.d = some c → Alive s c ∧ c ≠ 0 := by
    intro h
    simp only [getGlobal] at h
    split at h
    · exact ⟨Or.inr (Or.inr (Or.inr (Or.inr h))), fun e => hi.a3.2.2 (by rw [h, e])⟩
    · cases h
  simp only [current] at hc
  split at hc
  · exact hg hc
  · split at hc
    · rename_i c' hd
      cases hc
      exact ⟨Or.inr (Or.inr (Or.inl ⟨t, ht, hd⟩)), fun e => hi.a3.1 t (by rw [hd, e])⟩
    · exact hg hc

private theorem interestOf_cache (s : CState) (cs : Cs) :
    (interestOf s cs).1.cache cs = some (interestOf s cs).2 := by
  unfold interestOf
  cases hc : s.cache cs with
  | some i => simpa using hc
  | none => simp

/-- the cached / freshly computed interest never contradicts a live collector's own static answer -/
private theorem interest_sound {lvl : Cs → Nat} {s : CState} (hi : Inv lvl s) (cs : Cs) (c : Cid)
    (ha : Alive s c) (hc0 : c ≠ 0) :
    ((interestOf s cs).2 = .always → (s.filt c).stat cs = .always) ∧
    ((interestOf s cs).2 = .never → (s.filt c).stat cs = .never) := by
  have hi' := interestOf_inv hi cs
  obtain ⟨e1, e2, e3, e4, e5, _, _⟩ := interestOf_d s cs
  obtain ⟨_, B, hB, hm⟩ := hi'.b cs _ (interestOf_cache s cs)
  have ha' : Alive (interestOf s cs).1 c := by
    simpa [Alive, e1, e2, e3] using ha
  have := fold_mem (interestOf s cs).1 cs B c (hm c hc0 ha')
  rw [← hB, e5] at this
  exact this

/-- delivery_iff — in every state satisfying the invariant (i.e. every reachable state,
`inv_reachable`), for every thread, every callsite — including one hit for the first time — the
macro guard hands the emission to the thread's current collector exactly when the
specification says so: level ≤ STATIC and the current collector's own filter accepts the
callsite now.  `sp` is the specification state the history has produced so far. -/
theorem delivery_iff (st : Nat) (lvl : Cs → Nat) (s : CState) (sp : SState) (t : Tid) (cs : Cs)
    (hi : Inv lvl s) (hr : DRel s sp) (ht : t < s.nthreads) :
    (if (emit st lvl s t cs).2 then current (emit st lvl s t cs).1.d t else none)
      = delivered st lvl sp t cs := by
  have hd : (emit st lvl s t cs).1.d = s.d := (emit_d st lvl s t cs).1
  rw [hd]
  have hcur := current_eq s sp hr t
  simp only [delivered, ← hcur, ← hr.filt]
  cases hc : current s.d t with
  | none => simp
  | some c =>
    obtain ⟨ha, hc0⟩ := current_alive hi t c ht hc
    obtain ⟨hs1, hs2⟩ := interest_sound hi cs c ha hc0
    have hcf : curFilt (interestOf s cs).1 t = s.filt c := by
      simp only [curFilt, (interestOf_d s cs).1, hc, (interestOf_d s cs).2.2.2.2.1]
    simp only [emit]
    by_cases hlv : lvl cs ≤ st ∧ lvl cs ≤ s.maxLevel
    · simp only [hlv, and_self, if_true, hcf]
      by_cases hacc : accepts (s.filt c) cs = true
      · have hne : (s.filt c).stat cs ≠ .never := by
          intro e; simp [accepts, e] at hacc
        have hin : (interestOf s cs).2 ≠ .never := fun e => hne (hs2 e)
        simp [hacc, hin, hlv.1, hc0]
      · have hna : (interestOf s cs).2 ≠ .always := by
          intro e; have := hs1 e; simp [accepts, this] at hacc
        simp [hacc, hna]
    · simp only [hlv, if_false]
      by_cases hacc : lvl cs ≤ st ∧ accepts (s.filt c) cs = true ∧ c ≠ 0
      · exfalso
        have hne : (s.filt c).stat cs ≠ .never := by
          intro e; have := hacc.2.1; simp [accepts, e] at this
        have h1 := hi.d c cs hne
        have h2 := hi.c c hc0 ha
        exact hlv ⟨hacc.1, Nat.le_trans h1 h2⟩
      · simp [hacc]

/-- inv_reachable — the invariant holds in every state reachable by any finite history
whose collectors have self-consistent filters -/
theorem inv_reachable (st : Nat) (lvl : Cs → Nat) (ops : List Op) (hsc : ∀ op ∈ ops, OpSC lvl op)
    (s : CState) (sp : SState) (hi : Inv lvl s) (hr : DRel s sp) :
    Inv lvl (TM.Callsite.run st lvl s ops).1 ∧ DRel (TM.Callsite.run st lvl s ops).1 (TM.Spec.CoreSpec.run st lvl sp ops).1 := by
  induction ops generalizing s sp with
  | nil => exact ⟨hi, hr⟩
  | cons op ops ih =>
    simp only [TM.Callsite.run, TM.Spec.CoreSpec.run]
    exact ih (fun o ho => hsc o (List.mem_cons_of_mem _ ho)) _ _
      (step_inv st lvl s op hi (hsc op (by simp))) (step_drel st lvl s sp op hr)

/-- one step produces the output the specification demands -/
theorem step_out (st : Nat) (lvl : Cs → Nat) (s : CState) (sp : SState) (op : Op)
    (hi : Inv lvl s) (hr : DRel s sp) :
    (TM.Callsite.step st lvl s op).2 = (TM.Spec.CoreSpec.step st lvl sp op).2 := by
  cases op with
  | threadStart => rfl
  | newCollector c f =>
    simp only [TM.Callsite.step, TM.Spec.CoreSpec.step]
    split <;> rfl
  | dropHandle c => rfl
  | setDefault t c =>
    simp only [TM.Callsite.step, TM.Spec.CoreSpec.step]
    split <;> split <;> rfl
  | popDefault t =>
    simp only [TM.Callsite.step, TM.Spec.CoreSpec.step]
    split <;> split <;> rfl
  | setGlobal c =>
    simp only [TM.Callsite.step, TM.Spec.CoreSpec.step, ← hr.handle]
    by_cases hc : s.handle c = true
    · simp only [hc, if_true, setGlobal]
      by_cases h0 : s.d.ginit = 0
      · have := hr.gzero.mp h0
        simp [h0, this]
      · have : sp.glob ≠ none := fun e => h0 (hr.gzero.mpr e)
        cases hg : sp.glob with
        | none => exact absurd hg this
        | some g => simp [h0]
    · simp [hc]
  | emit t cs =>
    simp only [TM.Callsite.step, TM.Spec.CoreSpec.step, ← hr.nthreads]
    by_cases ht : t < s.nthreads
    · simp only [ht, if_true]
      rw [delivery_iff st lvl s sp t cs hi hr ht]
    · simp [ht]
  | rebuild => rfl
  | flip c cs => rfl

/-- refines_spec — for EVERY finite history (any number of threads, collectors and
callsites, any order of creation, drop, install/uninstall, global install, first hits, rebuilds and
dynamic flips) the model produces exactly the outputs of the cache-free specification: every
emission is delivered to the emitting thread's current collector iff level ≤ STATIC and that
collector accepts it at that moment. -/
theorem refines_spec (st : Nat) (lvl : Cs → Nat) (ops : List Op) (hsc : ∀ op ∈ ops, OpSC lvl op)
    (s : CState) (sp : SState) (hi : Inv lvl s) (hr : DRel s sp) :
    (TM.Callsite.run st lvl s ops).2 = (TM.Spec.CoreSpec.run st lvl sp ops).2 := by
  induction ops generalizing s sp with
  | nil => rfl
  | cons op ops ih =>
    simp only [TM.Callsite.run, TM.Spec.CoreSpec.run]
    rw [step_out st lvl s sp op hi hr]
    congr 1
    exact ih (fun o ho => hsc o (List.mem_cons_of_mem _ ho)) _ _
      (step_inv st lvl s op hi (hsc op (by simp))) (step_drel st lvl s sp op hr)

theorem refines_spec_init (st : Nat) (lvl : Cs → Nat) (ops : List Op) (hsc : ∀ op ∈ ops, OpSC lvl op) :
    (TM.Callsite.run st lvl CState.init ops).2 = (TM.Spec.CoreSpec.run st lvl SState.init ops).2 :=
  refines_spec st lvl ops hsc _ _ (Inv.init lvl) DRel.init


end TM.Refine
