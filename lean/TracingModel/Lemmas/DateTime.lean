import TracingModel.Core.DateTime
import TracingModel.Spec.Civil

namespace TM.DateTime
open TM.Gen.DateTimeConsts TM.Spec.Civil

/-- truncating division by a positive literal, as linear facts `omega` can use -/
theorem tdivmod_spec (a b : Int) (hb : 0 < b) :
    a = b * a.tdiv b + a.tmod b ∧ -b < a.tmod b ∧ a.tmod b < b ∧ (0 ≤ a → 0 ≤ a.tmod b) ∧ (a ≤ 0 → a.tmod b ≤ 0) := by
  refine ⟨(Int.mul_tdiv_add_tmod a b).symm, Int.lt_tmod_of_pos a hb, Int.tmod_lt_of_pos a hb,
    fun h => Int.tmod_nonneg b h, fun h => ?_⟩
  have := Int.tmod_nonneg (a := -a) b (by omega)
  rw [Int.neg_tmod] at this; omega

theorem daySplit_spec (t : Int) :
    let r := daySplit t
    0 ≤ r.2 ∧ r.2 < 86400 ∧ t = (r.1 + 11017) * 86400 + r.2 := by
  simp only [daySplit, SECS_PER_DAY, LEAPOCH]
  obtain ⟨h1, h2, h3, -, -⟩ := tdivmod_spec t 86400 (by omega)
  have hl : Int.tdiv (946684800 + 86400 * (31 + 29)) 86400 = 11017 := by decide
  rw [hl]
  by_cases h : t.tmod 86400 < 0
  · simp only [h, if_true]; omega
  · simp only [h, if_false]; omega

/-- days since 2000-03-01 of March 1st of year `2000 + years` -/
def marchDays (years : Int) : Int := 365 * years + years / 4 - years / 100 + years / 400

theorem floorDivMod_spec (a m : Int) (hm : 0 < m) :
    let r := floorDivMod a m
    0 ≤ r.2 ∧ r.2 < m ∧ a = m * r.1 + r.2 := by
  obtain ⟨h1, h2, h3, -, -⟩ := tdivmod_spec a m hm
  simp only [floorDivMod]
  by_cases h : a.tmod m < 0
  · simp only [h, if_true]
    refine ⟨by omega, by omega, ?_⟩
    rw [Int.mul_sub, Int.mul_one]; omega
  · simp only [h, if_false]
    exact ⟨by omega, by omega, by omega⟩

theorem clampDiv_spec (n d k : Int) (hn : 0 ≤ n) (hd : 0 < d) :
    let r := clampDiv n d k
    n = d * r.1 + r.2 ∧ (n / d ≠ k → r.1 = n / d ∧ 0 ≤ r.2 ∧ r.2 < d) ∧
    (n / d = k → r.1 = k - 1 ∧ d ≤ r.2 ∧ r.2 < 2 * d) := by
  simp only [clampDiv, Int.tdiv_eq_ediv_of_nonneg hn]
  have h1 := Int.mul_ediv_add_emod n d
  have h2 := Int.emod_nonneg n (by omega : d ≠ 0)
  have h3 := Int.emod_lt_of_pos n hd
  generalize n / d = c at *
  generalize n % d = r at *
  have hcd : c * d = d * c := Int.mul_comm c d
  split
  · subst c
    have e : (k - 1) * d = d * k - d := by rw [Int.sub_mul, Int.one_mul, Int.mul_comm]
    have e' : d * (k - 1) = d * k - d := by rw [Int.mul_sub, Int.mul_one]
    rw [e, e']
    generalize d * k = dk at *
    refine ⟨by omega, fun h => absurd rfl h, fun _ => ⟨rfl, by omega, by omega⟩⟩
  · rename_i hne
    rw [hcd]
    generalize d * c = dc at *
    refine ⟨by omega, fun _ => ⟨rfl, by omega, by omega⟩, fun h => absurd h hne⟩

theorem cycles_spec (days : Int) :
    let r := cycles days
    0 ≤ r.2 ∧ r.2 ≤ 365 ∧ days = marchDays r.1 + r.2 ∧
    (r.2 = 365 → isLeap (r.1 + 2001) = true) := by
  simp only [cycles, DAYS_PER_400Y, DAYS_PER_100Y, DAYS_PER_4Y, DAYS_PER_Y, C_CLAMP, Q_CLAMP, Y_CLAMP,
    W_Q, W_C, W_QC, marchDays, isLeap]
  have ha := floorDivMod_spec days (365 * 400 + 97) (by omega)
  generalize floorDivMod days (365 * 400 + 97) = a at *
  obtain ⟨ha1, ha2, ha3⟩ := ha
  have hb := clampDiv_spec a.2 (365 * 100 + 24) 4 ha1 (by omega)
  generalize clampDiv a.2 (365 * 100 + 24) 4 = b at *
  obtain ⟨hb1, hb2, hb3⟩ := hb
  have hbn : 0 ≤ b.2 := by
    by_cases h : a.2 / (365 * 100 + 24) = 4
    · have := hb3 h; omega
    · have := hb2 h; omega
  have hc := clampDiv_spec b.2 (365 * 4 + 1) 25 hbn (by omega)
  generalize clampDiv b.2 (365 * 4 + 1) 25 = c at *
  obtain ⟨hc1, hc2, hc3⟩ := hc
  have hcn : 0 ≤ c.2 := by
    by_cases h : b.2 / (365 * 4 + 1) = 25
    · have := hc3 h; omega
    · have := hc2 h; omega
  have hd := clampDiv_spec c.2 365 4 hcn (by omega)
  generalize clampDiv c.2 365 4 = d at *
  obtain ⟨hd1, hd2, hd3⟩ := hd
  have fb : 0 ≤ b.1 ∧ b.1 ≤ 3 ∧ b.2 ≤ 36524 ∧ (b.1 < 3 → b.2 < 36524) := by
    by_cases h : a.2 / (365 * 100 + 24) = 4
    · have := hb3 h; omega
    · have := hb2 h; omega
  have fc : 0 ≤ c.1 ∧ c.1 ≤ 24 ∧ c.2 ≤ 1460 ∧ (c.1 < 24 → c.2 < 1461) ∧ (c.2 = 1460 → c.1 = 24 → b.1 = 3) := by
    by_cases h : b.2 / (365 * 4 + 1) = 25
    · have := hc3 h; omega
    · have := hc2 h; omega
  have fd : 0 ≤ d.1 ∧ d.1 ≤ 3 ∧ 0 ≤ d.2 ∧ d.2 ≤ 365 ∧ (d.2 = 365 → d.1 = 3 ∧ c.2 = 1460) := by
    by_cases h : c.2 / 365 = 4
    · have := hd3 h; omega
    · have := hd2 h; omega
  clear hb2 hb3 hc2 hc3 hd2 hd3
  have e4 : (d.1 + 4 * c.1 + 100 * b.1 + 400 * a.1) / 4 = c.1 + 25 * b.1 + 100 * a.1 := by omega
  have e100 : (d.1 + 4 * c.1 + 100 * b.1 + 400 * a.1) / 100 = b.1 + 4 * a.1 := by omega
  have e400 : (d.1 + 4 * c.1 + 100 * b.1 + 400 * a.1) / 400 = a.1 := by omega
  rw [e4, e100, e400]
  refine ⟨by omega, by omega, by omega, ?_⟩
  intro h365
  simp only [Bool.or_eq_true, Bool.and_eq_true, beq_iff_eq, bne_iff_ne, ne_eq]
  have := fd.2.2.2.2 h365
  by_cases hq : c.1 = 24
  · have := fc.2.2.2.2 this.2 hq; right; omega
  · left; omega

/-- what the month loop must deliver for day-of-(March-based)-year `n`, against the
calendar specification, for both leap flags of the civil year the date falls in -/
def monthLoopOK (n : Nat) (leap : Bool) : Bool :=
  match monthLoop DAYS_IN_MONTH 0 n with
  | none => false
  | some (m, r) =>
    decide (0 ≤ m ∧ m < 12 ∧ 0 ≤ r) &&
    (if WRAP_CMP m WRAP_AT then
       -- January / February of the following civil year
       decide (daysInFirstMonths leap (m - WRAP_BY + MONTH_BASE - 1).toNat + r = n - 306) &&
       decide (1 ≤ m - WRAP_BY + MONTH_BASE ∧ m - WRAP_BY + MONTH_BASE ≤ 12) &&
       (decide (n = 365 → leap = true) → decide (r + DAY_BASE ≤ monthLength leap (m - WRAP_BY + MONTH_BASE)))
     else
       decide (daysInFirstMonths leap (m + MONTH_BASE - 1).toNat + r = 59 + (if leap then 1 else 0) + n) &&
       decide (1 ≤ m + MONTH_BASE ∧ m + MONTH_BASE ≤ 12) &&
       decide (r + DAY_BASE ≤ monthLength leap (m + MONTH_BASE))) &&
    decide (1 ≤ r + DAY_BASE)

theorem monthLoop_table : ∀ (n : Fin 366) (leap : Bool), monthLoopOK n.val leap = true := by
  decide +kernel

end TM.DateTime
