/-
C03, the enter/exit clause — "every enter matched by one exit on the same thread".

For every span, every thread and every finite program over the Span API: the number of `enter`
calls minus the number of `exit` calls the collector has seen for that span on that thread equals
the number of entered guards of that span living on that thread — never negative (no exit without
its enter), zero as soon as no guard is left (every enter matched), and `in_scope`, polls and
future drops contribute balanced pairs.
-/
import TracingModel.Props.C03

namespace C03
open TM.SpanHandle

/-- +1 for an `enter` of span `r` on thread `t`, −1 for an `exit` -/
def ne (r : Ref) (t : Tid) : Call → Int
  | .enter c id t' => if (c, id) = r ∧ t' = t then 1 else 0
  | .exit c id t' => if (c, id) = r ∧ t' = t then -1 else 0
  | _ => 0

def ebal (r : Ref) (t : Tid) (log : List Call) : Int := (log.map (ne r t)).sum

def gholds (r : Ref) (t : Tid) (o : Owner) : Int := if o.kind = .guard t ∧ o.ref = some r then 1 else 0

/-- number of entered guards of span `r` that live on thread `t` -/
def gown (r : Ref) (t : Tid) (l : List Owner) : Int := (l.map (gholds r t)).sum

theorem ebal_append (r : Ref) (t : Tid) (log : List Call) (c : Call) : ebal r t (log ++ [c]) = ebal r t log + ne r t c := by
  simp [ebal, List.sum_append]

theorem gown_cons (r : Ref) (t : Tid) (o : Owner) (l : List Owner) : gown r t (o :: l) = gholds r t o + gown r t l := by
  simp [gown]

theorem take_gown (r : Ref) (t : Tid) (k : Key) (l : List Owner) (o : Owner) (rest : List Owner)
    (h : take k l = some (o, rest)) : gown r t l = gholds r t o + gown r t rest := by
  induction l generalizing o rest with
  | nil => simp [take] at h
  | cons x xs ih =>
    simp only [take] at h
    by_cases hx : x.key = k
    · simp only [hx, if_true, Option.some.injEq, Prod.mk.injEq] at h
      obtain ⟨rfl, rfl⟩ := h
      exact gown_cons r t _ _
    · simp only [hx, if_false] at h
      cases ht : take k xs with
      | none => simp [ht] at h
      | some p =>
        obtain ⟨y, rest'⟩ := p
        simp only [ht, Option.some.injEq, Prod.mk.injEq] at h
        obtain ⟨rfl, rfl⟩ := h
        have := ih y rest' ht
        simp only [gown_cons, this]; omega

theorem doEnter_ebal (q : Ref) (u : Tid) (s : PState) (r : Option Ref) (t : Tid) :
    ebal q u (doEnter s r t).log = ebal q u s.log + (if r = some q ∧ t = u then 1 else 0) := by
  cases r with
  | none => simp [doEnter]
  | some p =>
    obtain ⟨c, id⟩ := p
    simp only [doEnter, emit, ebal_append, ne]
    by_cases h : (c, id) = q ∧ t = u
    · simp [h]
    · have : ¬ (some (c, id) = some q ∧ t = u) := by simpa using h
      simp [h, this]

theorem doExit_ebal (q : Ref) (u : Tid) (s : PState) (r : Option Ref) (t : Tid) :
    ebal q u (doExit s r t).log = ebal q u s.log - (if r = some q ∧ t = u then 1 else 0) := by
  cases r with
  | none => simp [doExit]
  | some p =>
    obtain ⟨c, id⟩ := p
    simp only [doExit, emit, ebal_append, ne]
    by_cases h : (c, id) = q ∧ t = u
    · simp [h]; omega
    · have : ¬ (some (c, id) = some q ∧ t = u) := by simpa using h
      simp [h, this]

@[simp] theorem doClose_ebal (q : Ref) (u : Tid) (s : PState) (r : Option Ref) : ebal q u (doClose s r).log = ebal q u s.log := by
  cases r with
  | none => rfl
  | some p => obtain ⟨c, id⟩ := p; simp [doClose, emit, ebal_append, ne]

theorem currentRef_ebal (q : Ref) (u : Tid) (s : PState) (t : Tid) :
    ebal q u (currentRef s t).1.log = ebal q u s.log ∧ (currentRef s t).1.owners = s.owners := by
  cases hc : currentOf s t with
  | none => rw [currentRef_none s t hc]; exact ⟨rfl, rfl⟩
  | some p =>
    obtain ⟨c, id⟩ := p
    rw [currentRef_some s t c id hc]
    simp [emit, ebal_append, ne]

theorem dropHandle_ebal (q : Ref) (u : Tid) (s : PState) (k : Key) :
    ebal q u (dropHandle s k).log - gown q u (dropHandle s k).owners = ebal q u s.log - gown q u s.owners := by
  simp only [dropHandle]
  cases ht : take k s.owners with
  | none => rfl
  | some p =>
    obtain ⟨o, rest⟩ := p
    simp only []
    by_cases hk : o.kind = .handle
    · simp only [hk, if_true, doClose_ebal, doClose_owners]
      have := take_gown q u k _ o rest ht
      simp only [gholds, hk] at this
      simp at this
      omega
    · simp only [hk, if_false]

/-- the enter/exit invariant -/
def EB (s : PState) : Prop := ∀ (r : Ref) (t : Tid), ebal r t s.log = gown r t s.owners

theorem EB.init (acc : Cid → Nat → Bool) : EB (PState.init acc) := by intro r t; rfl

theorem gholds_handle (q : Ref) (u : Tid) (k : Key) (r : Option Ref) : gholds q u ⟨k, .handle, r⟩ = 0 := by simp [gholds]
theorem gholds_future (q : Ref) (u : Tid) (k : Key) (r : Option Ref) : gholds q u ⟨k, .future, r⟩ = 0 := by simp [gholds]
theorem gholds_guard (q : Ref) (u : Tid) (k : Key) (t : Tid) (r : Option Ref) :
    gholds q u ⟨k, .guard t, r⟩ = if r = some q ∧ t = u then 1 else 0 := by
  simp only [gholds]
  by_cases h : r = some q ∧ t = u
  · obtain ⟨h1, h2⟩ := h; simp [h1, h2]
  · by_cases h2 : t = u
    · subst h2
      have : ¬ r = some q := fun e => h ⟨e, rfl⟩
      simp [this]
    · have : ¬ (OwnerKind.guard t = OwnerKind.guard u) := by intro e; cases e; exact h2 rfl
      simp [this, h2]

theorem gholds_of_kind (q : Ref) (u : Tid) (o : Owner) (h : ∀ t, o.kind ≠ .guard t) : gholds q u o = 0 := by
  simp [gholds, h u]

theorem step_eb (s : PState) (op : Op) (h : EB s) : EB (step s op) := by
  intro q u
  have hq := h q u
  cases op with
  | newSpan t k lvl =>
    simp only [step]
    cases hd : s.dflt t with
    | none => simp only [gown_cons, gholds_handle]; simpa using hq
    | some c =>
      simp only []
      cases ha : s.accepts c lvl with
      | true => simp only [if_true, emit, ebal_append, ne, gown_cons, gholds_handle]; simpa using hq
      | false => simp only [Bool.false_eq_true, if_false, gown_cons, gholds_handle]; simpa using hq
  | clone k k2 =>
    simp only [step]
    cases hf : find k s.owners with
    | none => exact hq
    | some o =>
      simp only []
      cases hk : o.kind <;> cases hr : o.ref <;> simp only [] <;> try exact hq
      · simp only [gown_cons, gholds_handle]; simpa using hq
      · rename_i p; obtain ⟨c, id⟩ := p
        simp only [emit, ebal_append, ne, gown_cons, gholds_handle]; simpa using hq
  | drop k =>
    simp only [step]
    have := dropHandle_ebal q u s k
    omega
  | enter t k g =>
    simp only [step]
    cases ht : take k s.owners with
    | none => exact hq
    | some p =>
      obtain ⟨o, rest⟩ := p
      simp only []
      have hto := take_gown q u k _ o rest ht
      by_cases hk : o.kind = .handle
      · simp only [hk, if_true, doEnter_ebal, doEnter_owners, gown_cons, gholds_guard]
        rw [gholds_of_kind q u o (by intro t'; rw [hk]; simp)] at hto
        omega
      · simp only [hk, if_false]; exact hq
  | exitTo g k2 =>
    simp only [step]
    cases ht : take g s.owners with
    | none => exact hq
    | some p =>
      obtain ⟨o, rest⟩ := p
      simp only []
      have hto := take_gown q u g _ o rest ht
      cases hk : o.kind with
      | handle => exact hq
      | future => exact hq
      | guard t =>
        simp only [doExit_ebal, doExit_owners, gown_cons, gholds_handle]
        have : gholds q u o = if o.ref = some q ∧ t = u then 1 else 0 := by
          have := gholds_guard q u o.key t o.ref
          rw [← hk] at this
          exact this
        rw [this] at hto
        omega
  | dropGuard g =>
    simp only [step]
    cases ht : take g s.owners with
    | none => exact hq
    | some p =>
      obtain ⟨o, rest⟩ := p
      simp only []
      have hto := take_gown q u g _ o rest ht
      cases hk : o.kind with
      | handle => exact hq
      | future => exact hq
      | guard t =>
        simp only [doClose_ebal, doClose_owners, doExit_ebal, doExit_owners]
        have : gholds q u o = if o.ref = some q ∧ t = u then 1 else 0 := by
          have := gholds_guard q u o.key t o.ref
          rw [← hk] at this
          exact this
        rw [this] at hto
        omega
  | inScope t k =>
    simp only [step]
    cases hf : find k s.owners with
    | none => exact hq
    | some o =>
      simp only []
      by_cases hk : o.kind = .handle
      · simp only [hk, if_true, doExit_ebal, doEnter_ebal, doExit_owners, doEnter_owners]; omega
      · simp only [hk, if_false]; exact hq
  | record k =>
    simp only [step]
    cases hf : find k s.owners with
    | none => exact hq
    | some o =>
      simp only []
      cases hk : o.kind <;> cases hr : o.ref <;> simp only [] <;> try exact hq
      rename_i p; obtain ⟨c, id⟩ := p
      simp only [emit, ebal_append, ne]; simpa using hq
  | follows k k2 =>
    simp only [step]
    cases hf : find k s.owners <;> cases hf2 : find k2 s.owners <;> simp only [] <;> try exact hq
    rename_i o o2
    cases hk : o.kind <;> cases hr : o.ref <;> cases hk2 : o2.kind <;> cases hr2 : o2.ref <;> simp only [] <;> try exact hq
    rename_i p p2; obtain ⟨c, id⟩ := p; obtain ⟨c2, id2⟩ := p2
    simp only [emit, ebal_append, ne]; simpa using hq
  | followsGuard k k2 =>
    simp only [step]
    cases hf : find k s.owners <;> cases hf2 : find k2 s.owners <;> simp only [] <;> try exact hq
    rename_i o o2
    cases hk : o.kind <;> cases hr : o.ref <;> cases hk2 : o2.kind <;> cases hr2 : o2.ref <;> simp only [] <;> try exact hq
    rename_i p t2 p2; obtain ⟨c, id⟩ := p; obtain ⟨c2, id2⟩ := p2
    simp only [emit, ebal_append, ne]; simpa using hq
  | current t k =>
    simp only [step]
    obtain ⟨h1, h2⟩ := currentRef_ebal q u s t
    simp only [gown_cons, gholds_handle, h1, h2]; simpa using hq
  | orCurrent t k k2 =>
    simp only [step]
    cases ht : take k s.owners with
    | none => exact hq
    | some p =>
      obtain ⟨o, rest⟩ := p
      simp only []
      have hto := take_gown q u k _ o rest ht
      by_cases hk : o.kind = .handle
      · simp only [hk, if_true]
        rw [gholds_of_kind q u o (by intro t'; rw [hk]; simp)] at hto
        cases hr : o.ref with
        | some r => simp only [gown_cons, gholds_handle]; omega
        | none =>
          simp only []
          obtain ⟨h1, h2⟩ := currentRef_ebal q u { s with owners := rest } t
          simp only [gown_cons, gholds_handle, h1, h2]; omega
      · simp only [hk, if_false]; exact hq
  | instrument k f =>
    simp only [step]
    cases ht : take k s.owners with
    | none => exact hq
    | some p =>
      obtain ⟨o, rest⟩ := p
      simp only []
      have hto := take_gown q u k _ o rest ht
      by_cases hk : o.kind = .handle
      · simp only [hk, if_true, gown_cons, gholds_future]
        rw [gholds_of_kind q u o (by intro t'; rw [hk]; simp)] at hto
        omega
      · simp only [hk, if_false]; exact hq
  | poll t f =>
    simp only [step]
    cases hf : find f s.owners with
    | none => exact hq
    | some o =>
      simp only []
      by_cases hk : o.kind = .future
      · simp only [hk, if_true, doExit_ebal, doEnter_ebal, doExit_owners, doEnter_owners]; omega
      · simp only [hk, if_false]; exact hq
  | dropFuture t f =>
    simp only [step]
    cases ht : take f s.owners with
    | none => exact hq
    | some p =>
      obtain ⟨o, rest⟩ := p
      simp only []
      have hto := take_gown q u f _ o rest ht
      by_cases hk : o.kind = .future
      · simp only [hk, if_true, doClose_ebal, doClose_owners, doExit_ebal, doExit_owners, doEnter_ebal, doEnter_owners]
        rw [gholds_of_kind q u o (by intro t'; rw [hk]; simp)] at hto
        omega
      · simp only [hk, if_false]; exact hq
  | dropFutureHolding t f k =>
    simp only [step]
    cases ht : take f s.owners with
    | none => exact hq
    | some p =>
      obtain ⟨o, rest⟩ := p
      simp only []
      have hto := take_gown q u f _ o rest ht
      by_cases hk : o.kind = .future
      · simp only [hk, if_true, doClose_ebal, doClose_owners, doExit_ebal, doExit_owners]
        have hd := dropHandle_ebal q u (doEnter { s with owners := rest } o.ref t) k
        simp only [doEnter_ebal, doEnter_owners] at hd
        rw [gholds_of_kind q u o (by intro t'; rw [hk]; simp)] at hto
        omega
      · simp only [hk, if_false]; exact hq
  | intoInner f =>
    simp only [step]
    cases ht : take f s.owners with
    | none => exact hq
    | some p =>
      obtain ⟨o, rest⟩ := p
      simp only []
      have hto := take_gown q u f _ o rest ht
      by_cases hk : o.kind = .future
      · simp only [hk, if_true, doClose_ebal, doClose_owners]
        rw [gholds_of_kind q u o (by intro t'; rw [hk]; simp)] at hto
        omega
      · simp only [hk, if_false]; exact hq
  | setDefault t c => exact hq

/-- **C03.enter_exit_balance** — for EVERY finite program, every span and every thread: enters minus exits seen by the
span's collector on that thread = the number of entered guards of that span living on that thread -/
theorem enter_exit_balance (acc : Cid → Nat → Bool) (ops : List Op) (r : Ref) (t : Tid) :
    ebal r t (run (PState.init acc) ops).log = gown r t (run (PState.init acc) ops).owners := by
  have key : ∀ (ops : List Op) (s : PState), EB s → EB (run s ops) := by
    intro ops
    induction ops with
    | nil => intro s h; exact h
    | cons op ops ih => intro s h; exact ih _ (step_eb s op h)
  exact key ops _ (EB.init acc) r t

theorem gown_nonneg (r : Ref) (t : Tid) (l : List Owner) : 0 ≤ gown r t l := by
  induction l with
  | nil => simp [gown]
  | cons o l ih =>
    rw [gown_cons]
    have : 0 ≤ gholds r t o := by simp only [gholds]; split <;> omega
    omega

/-- **C03.no_exit_without_enter** — at every point of every program the collector has seen at least as many enters as exits
of a span on a thread -/
theorem no_exit_without_enter (acc : Cid → Nat → Bool) (ops : List Op) (r : Ref) (t : Tid) :
    0 ≤ ebal r t (run (PState.init acc) ops).log := by
  rw [enter_exit_balance]; exact gown_nonneg r t _

/-- **C03.enters_matched_when_no_guard** — and exactly as many once no entered guard of that span is left on that thread -/
theorem enters_matched_when_no_guard (acc : Cid → Nat → Bool) (ops : List Op) (r : Ref) (t : Tid)
    (h : gown r t (run (PState.init acc) ops).owners = 0) : ebal r t (run (PState.init acc) ops).log = 0 := by
  rw [enter_exit_balance]; exact h

/-- non-vacuity: two guards of one span on two threads, an out-of-order drop, an in_scope and a polled future -/
example :
    let s := run (PState.init (fun _ _ => true))
      [.setDefault 0 (some 1), .newSpan 0 0 3, .clone 0 3, .enter 0 0 1, .enter 1 3 4, .newSpan 0 6 3, .inScope 1 6,
       .instrument 6 2, .poll 1 2, .dropGuard 1]
    ebal (1, 1) 0 s.log = 0 ∧ ebal (1, 1) 1 s.log = 1 ∧ ebal (1, 2) 1 s.log = 0 ∧ s.log.length ≥ 10 := by decide

end C03
