/-
C08, whole stacks — "The same holds for the summary of a whole stack relative to what any of its
layers would receive."

The two stack-level summaries are the interest `Collect::register_callsite` of the built stack
returns (cached per callsite by the macros) and `Collect::max_level_hint` (published as the
process-wide MAX_LEVEL the macros compare against first).  Their models are C07's `stackInterest`
(pick_interest + the FilterState interest accumulation) and Core/Reload's `stackHint`
(pick_level_hint); the soundness proofs live with those models (Props/C07, Props/C12) and are
restated here as the C08 obligations, next to the per-filter ones of Props/C08.
-/
import TracingModel.Props.C08
import TracingModel.Lemmas.StackHint

namespace C08
open TM.Reload TM.Filtering TM.FilterExpr TM.Directive TM.FilteringLemmas
open TM.Callsite (Interest)

/-- **C08.stack_interest_sound** — for every stack of plain / global-filter / per-layer-filtered
layers (filter expressions of any depth, honest closures) and every metadata: if the stack's cached
interest is `never`, no layer would receive the emission in any context; if it is `always`, every
global filter and every per-layer filter accepts it in every context (so skipping the `enabled`
pass loses nothing and delivers nothing unwanted). -/
theorem stack_interest_sound (st : Stack) (hne : st ≠ []) (hh : HonestStack st) (m : Meta) :
    (stackInterest st m = .never → ∀ c, shouldReceive st m c = []) ∧
    (stackInterest st m = .always → ∀ c, globalsOk st m c = true ∧
        ∀ fid f n, Node.filt fid f n ∈ st → enabledF f m c = true) :=
  C07.interest_sound st hne hh m

/-- **C08.stack_hint_sound** — whatever any layer of the stack would receive, in any context, has
a level within the maximum level the stack advertises. -/
theorem stack_hint_sound (st : Stack) (hh : HonestStack st) (hb : C12.BuiltStack st) (m : Meta) (c : Ctx)
    (i : Nat) (hi : stackHint st = some i) (hr : shouldReceive st m c ≠ []) : m.level ≤ i :=
  C12.stack_hint_sound st hh hb m c i hi hr

end C08
