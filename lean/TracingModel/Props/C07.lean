/-
C07 — "Per-layer filters are isolated: a layer sees exactly what its own filters accept"

  In any stack of layers over the registry, a layer receives a span or event (and that span's
  later enter, exit, record and close notifications) if and only if every global filter in the
  stack accepts it and every per-layer filter attached to that layer accepts it; the decision
  never depends on the filters attached to other layers, on the order of layers, or on any span,
  event or enabled-probe that happened earlier on the thread. Spans a layer's filter rejected are
  invisible to that layer when it looks up the current span or walks a scope.

Model: Core/Filtering.lean (FilterState bitmap, Filtered, Layered veto, per-span FilterMap,
interest caching through pick_interest, for stacks registry().with(n₀.and_then(n₁)…)).
-/
import TracingModel.Lemmas.Filtering
import TracingModel.Core.Lookup

namespace C07
open TM.Filtering TM.FilterExpr TM.Directive TM.FilteringLemmas
open TM.Callsite (Interest)

theorem shouldReceive_eq (st : Stack) (m : Meta) (c : Ctx) :
    shouldReceive st m c = if globalsOk st m c then st.filterMap (specOf m c) else [] := rfl

private theorem same_fid {l : List Node} (hwf : (fids l).Nodup) {fid : Nat} {f f' : FExpr} {n n' : Nat}
    (h1 : Node.filt fid f n ∈ l) (h2 : Node.filt fid f' n' ∈ l) : f = f' ∧ n = n' := by
  induction l with
  | nil => cases h1
  | cons nd rest ih =>
    cases nd with
    | plain k =>
      rw [fids_plain] at hwf
      rcases List.mem_cons.mp h1 with e | h1
      · cases e
      · rcases List.mem_cons.mp h2 with e | h2
        · cases e
        · exact ih hwf h1 h2
    | glob g =>
      rw [fids_glob] at hwf
      rcases List.mem_cons.mp h1 with e | h1
      · cases e
      · rcases List.mem_cons.mp h2 with e | h2
        · cases e
        · exact ih hwf h1 h2
    | filt fid0 f0 n0 =>
      rw [fids_filt] at hwf
      have hwf2 : fid0 ∉ fids rest ∧ (fids rest).Nodup := by simpa using hwf
      have hmem : ∀ (g : FExpr) (k : Nat), Node.filt fid0 g k ∈ rest → False := by
        intro g k hm
        apply hwf2.1
        simp only [fids, List.mem_filterMap]
        exact ⟨_, hm, rfl⟩
      rcases List.mem_cons.mp h1 with e1 | h1'
      · cases e1
        rcases List.mem_cons.mp h2 with e2 | h2'
        · cases e2; exact ⟨rfl, rfl⟩
        · exact absurd h2' (hmem _ _)
      · rcases List.mem_cons.mp h2 with e2 | h2'
        · cases e2; exact absurd h1' (hmem _ _)
        · exact ih hwf2.2 h1' h2'

/-- **the `sometimes` path**: running the `enabled` pass from a clean bitmap and then delivering
reaches exactly the specified receivers and leaves the bitmap clean -/
theorem pass_and_deliver (st : Stack) (hwf : WF st) (m : Meta) (c : Ctx) :
    let r := enabledPass m c st.reverse Bits.clean
    (r.2 = true → (deliverPass st r.1).2 = shouldReceive st m c ∧ (deliverPass st r.1).1 = Bits.clean ∧
       (∀ fid f n, Node.filt fid f n ∈ st → (fid ∈ r.1 ↔ enabledF f m c = false))) ∧
    (r.2 = false → shouldReceive st m c = [] ∧ r.1 = Bits.clean) := by
  have hwfr : (fids st.reverse).Nodup := by
    have : fids st.reverse = (fids st).reverse := by simp [fids, List.filterMap_reverse]
    rw [this]; exact nodup_reverse' _ hwf
  rcases enabledPass_spec m c st.reverse Bits.clean hwfr with ⟨g, hg, he, hr⟩ | ⟨h1, h2, h3⟩
  · simp only [hr]
    refine ⟨by intro h; simp at h, fun _ => ⟨?_, by simp⟩⟩
    rw [shouldReceive_eq]
    have : globalsOk st m c = false := by
      simp only [globalsOk, List.all_eq_false]
      exact ⟨Node.glob g, List.mem_reverse.mp hg, by simp [he]⟩
    simp [this]
  · refine ⟨fun _ => ?_, fun h => by rw [h2] at h; simp at h⟩
    have hbits : ∀ fid f n, Node.filt fid f n ∈ st → (fid ∈ (enabledPass m c st.reverse Bits.clean).1 ↔ enabledF f m c = false) := by
      intro fid f n hm
      rw [h3 fid]
      constructor
      · rintro (⟨f', n', hm', he⟩ | ⟨hb, _⟩)
        · obtain ⟨rfl, rfl⟩ := same_fid hwf hm (List.mem_reverse.mp hm')
          exact he
        · cases hb
      · intro he; exact Or.inl ⟨f, n, List.mem_reverse.mpr hm, he⟩
    obtain ⟨d1, d2⟩ := deliverPass_spec st (enabledPass m c st.reverse Bits.clean).1 hwf
    refine ⟨?_, ?_, hbits⟩
    · rw [d1, shouldReceive_eq]
      have : globalsOk st m c = true := by
        simp only [globalsOk, List.all_eq_true]
        intro nd hnd
        cases nd with
        | glob g => exact h1 g (List.mem_reverse.mpr hnd)
        | plain n => rfl
        | filt a b c => rfl
      simp only [this, if_true]
      apply filterMap_congr'
      intro nd hnd
      cases nd with
      | plain n => rfl
      | glob g => rfl
      | filt fid f n =>
        simp only [recvOf, specOf]
        have := hbits fid f n hnd
        by_cases hef : enabledF f m c = true
        · have : fid ∉ (enabledPass m c st.reverse Bits.clean).1 := by
            intro hin; rw [this.mp hin] at hef; cases hef
          simp [this, hef]
        · have hef' : enabledF f m c = false := by simpa using hef
          simp [this.mpr hef', hef']
    · apply List.eq_nil_iff_forall_not_mem.mpr
      intro x hx
      obtain ⟨hxb, hxn⟩ := (d2 x).mp hx
      rcases (h3 x).mp hxb with ⟨f', n', hm', _⟩ | ⟨hb, _⟩
      · apply hxn
        simp only [fids, List.mem_filterMap]
        exact ⟨_, List.mem_reverse.mp hm', rfl⟩
      · cases hb

/-- soundness of the interest the stack publishes for caching -/
theorem interest_sound (st : Stack) (hne : st ≠ []) (hh : HonestStack st) (m : Meta) :
    (stackInterest st m = .never → ∀ c, shouldReceive st m c = []) ∧
    (stackInterest st m = .always → ∀ c, globalsOk st m c = true ∧
        ∀ fid f n, Node.filt fid f n ∈ st → enabledF f m c = true) := by
  have hrne : st.reverse ≠ [] := by simpa using hne
  obtain ⟨r1, r2⟩ := regTree_spec m st.reverse hrne none
  -- facts about the accumulated per-layer-filter interest
  have hmemI : ∀ fid f n, Node.filt fid f n ∈ st → callsiteF f m ∈ filtInterests m st.reverse := by
    intro fid f n hm
    simp only [filtInterests, List.mem_filterMap]
    exact ⟨Node.filt fid f n, List.mem_reverse.mpr hm, rfl⟩
  have hpend : ∀ (v : Interest), pendAfter m none st.reverse = some v →
      (v = .always → ∀ i ∈ filtInterests m st.reverse, i = .always) ∧
      (v = .never → ∀ i ∈ filtInterests m st.reverse, i = .never) := by
    intro v hv
    unfold pendAfter at hv
    cases hl : filtInterests m st.reverse with
    | nil => rw [hl] at hv; cases hv
    | cons x xs =>
      rw [hl] at hv
      simp only [List.foldl_cons, addInterest] at hv
      obtain ⟨r, hr, a1, a2⟩ := foldl_add_some xs x
      rw [hr] at hv
      cases hv
      constructor
      · intro e i hi
        obtain ⟨hx, hall⟩ := a1.mp e
        rcases List.mem_cons.mp hi with rfl | hi
        · exact hx
        · exact hall i hi
      · intro e i hi
        obtain ⟨hx, hall⟩ := a2.mp e
        rcases List.mem_cons.mp hi with rfl | hi
        · exact hx
        · exact hall i hi
  have hglobNever : (∃ g, Node.glob g ∈ st.reverse ∧ callsiteF g m = .never) → ∀ c, shouldReceive st m c = [] := by
    rintro ⟨g, hg, he⟩ c
    have hgs := List.mem_reverse.mp hg
    have hon : C08.Honest g := hh (Node.glob g) hgs
    have := (C08.interest_sound g hon m).1 he c
    rw [shouldReceive_eq]
    have : globalsOk st m c = false := by
      simp only [globalsOk, List.all_eq_false]
      exact ⟨Node.glob g, hgs, by simp [this]⟩
    simp [this]
  unfold stackInterest
  by_cases hall : st.all Node.isFilt = true
  · -- every node is per-layer filtered: the Registry's answer is the accumulated interest
    have hallr : st.reverse.all Node.isFilt = true := by simpa using hall
    have hany : st.any Node.isFilt = true := by
      cases st with
      | nil => exact absurd rfl hne
      | cons a as => simp only [List.all_cons, Bool.and_eq_true] at hall; simp [hall.1]
    rw [regTree_allFilt m st.reverse hrne hallr none]
    simp only [hall, hany, if_true]
    have hnoglob : ∀ c, globalsOk st m c = true := by
      intro c
      simp only [globalsOk, List.all_eq_true]
      intro nd hnd
      have := List.all_eq_true.mp hall nd hnd
      cases nd <;> simp_all [Node.isFilt]
    cases hp : pendAfter m none st.reverse with
    | none =>
      simp only [Option.getD_none]
      refine ⟨by intro h; simp at h, fun _ c => ⟨hnoglob c, ?_⟩⟩
      intro fid f n hm
      have := hmemI fid f n hm
      unfold pendAfter at hp
      cases hl : filtInterests m st.reverse with
      | nil => rw [hl] at this; cases this
      | cons x xs =>
        rw [hl] at hp
        simp only [List.foldl_cons, addInterest] at hp
        obtain ⟨r, hr, _, _⟩ := foldl_add_some xs x
        rw [hr] at hp; cases hp
    | some v =>
      simp only [Option.getD_some]
      obtain ⟨pa, pn⟩ := hpend v hp
      constructor
      · intro e c
        rw [shouldReceive_eq, hnoglob c]
        simp only [if_true]
        apply List.filterMap_eq_nil_iff.mpr
        intro nd hnd
        cases nd with
        | plain n => have := List.all_eq_true.mp hall _ hnd; simp [Node.isFilt] at this
        | glob g => rfl
        | filt fid f n =>
          have hi := pn e _ (hmemI fid f n hnd)
          have hon : C08.Honest f := hh (Node.filt fid f n) hnd
          have := (C08.interest_sound f hon m).1 hi c
          simp [specOf, this]
      · intro e c
        refine ⟨hnoglob c, ?_⟩
        intro fid f n hm
        have hi := pa e _ (hmemI fid f n hm)
        have hon : C08.Honest f := hh (Node.filt fid f n) hm
        exact (C08.interest_sound f hon m).2 hi c
  · simp only [hall, Bool.false_eq_true, if_false]
    by_cases hn : (regTree m st.reverse none).1 = .never
    · simp only [hn, if_true]
      exact ⟨fun _ => hglobNever (r1 hn), by intro h; simp at h⟩
    · simp only [hn, if_false]
      by_cases hs : (regTree m st.reverse none).1 = .sometimes
      · simp only [hs, if_true]
        exact ⟨by intro h; simp at h, by intro h; simp at h⟩
      · simp only [hs, if_false]
        have ha : (regTree m st.reverse none).1 = .always := by
          cases hc : (regTree m st.reverse none).1 <;> simp_all
        obtain ⟨hg, hp⟩ := r2 ha
        have hglob : ∀ c, globalsOk st m c = true := by
          intro c
          simp only [globalsOk, List.all_eq_true]
          intro nd hnd
          cases nd with
          | glob g =>
            have hon : C08.Honest g := hh (Node.glob g) hnd
            exact (C08.interest_sound g hon m).2 (hg g (List.mem_reverse.mpr hnd)) c
          | plain n => rfl
          | filt a b c => rfl
        by_cases hany : st.any Node.isFilt = true
        · simp only [hany, if_true, hp]
          cases hpa : pendAfter m none st.reverse with
          | none =>
            simp only [Option.getD_none]
            refine ⟨by intro h; simp at h, fun _ c => ⟨hglob c, ?_⟩⟩
            intro fid f n hm
            have := hmemI fid f n hm
            unfold pendAfter at hpa
            cases hl : filtInterests m st.reverse with
            | nil => rw [hl] at this; cases this
            | cons x xs =>
              rw [hl] at hpa
              simp only [List.foldl_cons, addInterest] at hpa
              obtain ⟨r, hr, _, _⟩ := foldl_add_some xs x
              rw [hr] at hpa; cases hpa
          | some v =>
            simp only [Option.getD_some]
            obtain ⟨pa, _⟩ := hpend v hpa
            by_cases hv : v = .never
            · simp only [hv, if_true]
              exact ⟨by intro h; simp at h, by intro h; simp at h⟩
            · simp only [hv, if_false]
              refine ⟨fun e => by simp_all, fun e c => ⟨hglob c, ?_⟩⟩
              intro fid f n hm
              have hi := pa e _ (hmemI fid f n hm)
              have hon : C08.Honest f := hh (Node.filt fid f n) hm
              exact (C08.interest_sound f hon m).2 hi c
        · simp only [hany, Bool.false_eq_true, if_false]
          refine ⟨by intro h; simp at h, fun _ c => ⟨hglob c, ?_⟩⟩
          intro fid f n hm
          exfalso; apply hany
          simp only [List.any_eq_true]
          exact ⟨_, hm, rfl⟩

private theorem deliver_clean_all (st : Stack) (hwf : WF st) (m : Meta) (c : Ctx)
    (hg : globalsOk st m c = true) (hf : ∀ fid f n, Node.filt fid f n ∈ st → enabledF f m c = true) :
    (deliverPass st Bits.clean).2 = shouldReceive st m c ∧ (deliverPass st Bits.clean).1 = Bits.clean := by
  obtain ⟨d1, d2⟩ := deliverPass_spec st Bits.clean hwf
  constructor
  · rw [d1, shouldReceive_eq, hg]
    simp only [if_true]
    apply filterMap_congr'
    intro nd hnd
    cases nd with
    | plain n => rfl
    | glob g => rfl
    | filt fid f n => simp [recvOf, specOf, hf fid f n hnd, Bits.clean]
  · apply List.eq_nil_iff_forall_not_mem.mpr
    intro x hx
    have := ((d2 x).mp hx).1
    simp [Bits.clean] at this

/-- **C07.isolation_partial (events)** — for EVERY stack of plain, global-filter and
per-layer-filtered layers (distinct filter ids, honest filter expressions of any depth) and
every event metadata and context: starting from a clean per-thread bitmap — i.e. in any history
of COMPLETE emissions, see `bitmap_clean` — the event is received by exactly the layers whose own
filter accepts it, provided every global filter accepts it; whatever the cached interest says
(`never`, `sometimes`, `always`), whatever the other layers' filters are, in whatever order. -/
theorem isolation_partial (st : Stack) (hne : st ≠ []) (hwf : WF st) (hh : HonestStack st)
    (s : TState) (hs : s.bits = Bits.clean) (m : Meta) (c : Ctx) :
    (emitEvent st s m c).2 = shouldReceive st m c ∧ (emitEvent st s m c).1.bits = Bits.clean := by
  obtain ⟨in1, in2⟩ := interest_sound st hne hh m
  obtain ⟨p1, p2⟩ := pass_and_deliver st hwf m c
  unfold emitEvent
  cases hi : stackInterest st m with
  | never => simp only []; exact ⟨(in1 hi c).symm, hs⟩
  | always =>
    simp only [if_true, hs]
    obtain ⟨hg, hf⟩ := in2 hi c
    exact deliver_clean_all st hwf m c hg hf
  | sometimes =>
    simp only [hs]
    have hne' : (Interest.sometimes = Interest.always) = False := by simp
    simp only [hne', if_false]
    by_cases hr : (enabledPass m c st.reverse Bits.clean).2 = true
    · simp only [hr, if_true]
      obtain ⟨a, b, _⟩ := p1 hr
      exact ⟨a, b⟩
    · have hr' : (enabledPass m c st.reverse Bits.clean).2 = false := by simpa using hr
      simp only [hr', Bool.false_eq_true, if_false]
      obtain ⟨a, b⟩ := p2 hr'
      exact ⟨a.symm, b⟩

/-- **C07.isolation_partial (spans and their lifecycle)** — the same for span creation, and every
later enter / exit / record / close of that span is delivered to exactly the layers that received
its creation -/
theorem isolation_spans (st : Stack) (hne : st ≠ []) (hwf : WF st) (hh : HonestStack st)
    (s : TState) (hs : s.bits = Bits.clean) (k : Nat) (m : Meta) (c : Ctx) :
    (emitSpan st s k m c).2 = shouldReceive st m c ∧ (emitSpan st s k m c).1.bits = Bits.clean ∧
    ((emitSpan st s k m c).1.spans.lookup k ≠ s.spans.lookup k →
       lifecycle st (emitSpan st s k m c).1 k = shouldReceive st m c) := by
  obtain ⟨in1, in2⟩ := interest_sound st hne hh m
  obtain ⟨p1, p2⟩ := pass_and_deliver st hwf m c
  unfold emitSpan
  cases hi : stackInterest st m with
  | never => simp only []; exact ⟨(in1 hi c).symm, hs, fun h => absurd rfl h⟩
  | always =>
    simp only [if_true, hs]
    obtain ⟨hg, hf⟩ := in2 hi c
    obtain ⟨a, b⟩ := deliver_clean_all st hwf m c hg hf
    refine ⟨a, b, fun _ => ?_⟩
    simp only [lifecycle, List.lookup_cons_self]
    rw [shouldReceive_eq, hg]
    simp only [if_true]
    apply filterMap_congr'
    intro nd hnd
    cases nd with
    | plain n => rfl
    | glob g => rfl
    | filt fid f n => simp [specOf, hf fid f n hnd, isDisabled, Bits.clean]
  | sometimes =>
    simp only [hs]
    have hne' : (Interest.sometimes = Interest.always) = False := by simp
    simp only [hne', if_false]
    by_cases hr : (enabledPass m c st.reverse Bits.clean).2 = true
    · simp only [hr, if_true]
      obtain ⟨a, b, hb⟩ := p1 hr
      refine ⟨a, b, fun _ => ?_⟩
      simp only [lifecycle, List.lookup_cons_self]
      have hg : globalsOk st m c = true := by
        cases hgo : globalsOk st m c with
        | true => rfl
        | false =>
          -- the enabled pass would have been vetoed
          have hwfr : (fids st.reverse).Nodup := by
            have : fids st.reverse = (fids st).reverse := by simp [fids, List.filterMap_reverse]
            rw [this]; exact nodup_reverse' _ hwf
          rcases enabledPass_spec m c st.reverse Bits.clean hwfr with ⟨g, _, _, hv⟩ | ⟨h1, _, _⟩
          · rw [hv] at hr; simp at hr
          · exfalso
            simp only [globalsOk, List.all_eq_false] at hgo
            obtain ⟨nd, hnd, hx⟩ := hgo
            cases nd with
            | glob g => have := h1 g (List.mem_reverse.mpr hnd); simp [this] at hx
            | plain n => simp at hx
            | filt a b c => simp at hx
      rw [shouldReceive_eq, hg]
      simp only [if_true]
      apply filterMap_congr'
      intro nd hnd
      cases nd with
      | plain n => rfl
      | glob g => rfl
      | filt fid f n =>
        have := hb fid f n hnd
        simp only [specOf, isDisabled]
        by_cases hef : enabledF f m c = true
        · have hnin : fid ∉ (enabledPass m c st.reverse Bits.clean).1 := by
            intro hin; rw [this.mp hin] at hef; cases hef
          simp [hnin, hef]
        · have hef' : enabledF f m c = false := by simpa using hef
          simp [this.mpr hef', hef']
    · have hr' : (enabledPass m c st.reverse Bits.clean).2 = false := by simpa using hr
      simp only [hr', Bool.false_eq_true, if_false]
      obtain ⟨a, b⟩ := p2 hr'
      exact ⟨a.symm, b, fun h => absurd rfl h⟩

/-- **C07.bitmap_clean** — after every complete emission (event or span, delivered, filtered out or
vetoed globally) the thread's bitmap is empty again, so the next emission starts clean: by
induction, every emission in a history of complete emissions is judged by `isolation_partial` -/
theorem bitmap_clean (st : Stack) (hne : st ≠ []) (hwf : WF st) (hh : HonestStack st)
    (evs : List (Meta × Ctx)) (s : TState) (hs : s.bits = Bits.clean) :
    (evs.foldl (fun s e => (emitEvent st s e.1 e.2).1) s).bits = Bits.clean ∧
    ∀ (pre : List (Meta × Ctx)) (e : Meta × Ctx) (post : List (Meta × Ctx)), evs = pre ++ e :: post →
      (emitEvent st (pre.foldl (fun s e => (emitEvent st s e.1 e.2).1) s) e.1 e.2).2 = shouldReceive st e.1 e.2 := by
  have key : ∀ (l : List (Meta × Ctx)) (s : TState), s.bits = Bits.clean →
      (l.foldl (fun s e => (emitEvent st s e.1 e.2).1) s).bits = Bits.clean := by
    intro l
    induction l with
    | nil => intro s h; exact h
    | cons e es ih => intro s h; exact ih _ (isolation_partial st hne hwf hh s h e.1 e.2).2
  refine ⟨key evs s hs, ?_⟩
  intro pre e post _
  exact (isolation_partial st hne hwf hh _ (key pre s hs) e.1 e.2).1

/-- **C07.probe_witness** — the full statement ("…or any enabled-probe that happened earlier on the
thread") is false: after a bare `enabled` probe that a per-layer filter rejects dynamically, the
next event — which that filter accepts, cached `always` — is not delivered to its layer (F3). -/
theorem probe_witness :
    let f : FExpr := .disj (.level 2) (.dyn (fun m c => c == 1 && decide (m.level ≤ 5)) none none)
    let st : Stack := [.plain 1, .filt 0 f 2]
    let warn : Meta := { target := [], level := 2, isEvent := true, fields := [] }
    let trace : Meta := { target := [], level := 5, isEvent := true, fields := [] }
    let s1 := (probe st TState.init trace 0).1
    shouldReceive st warn 0 = [1, 2] ∧ (emitEvent st TState.init warn 0).2 = [1, 2] ∧
    (emitEvent st s1 warn 0).2 = [1] := by decide

/-! ### what a layer is shown when it looks spans up -/

open TM.Lookup in
/-- **C07.span_map_spec** — the `FilterMap` the registry stores with a span created from a clean
bitmap has exactly the bits of the per-layer filters that REJECTED the span (whatever the cached
interest was) -/
theorem span_map_spec (st : Stack) (hne : st ≠ []) (hwf : WF st) (hh : HonestStack st)
    (s : TState) (hs : s.bits = Bits.clean) (k : Nat) (m : Meta) (c : Ctx) (map : Bits)
    (hnew : s.spans.lookup k = none) (hl : (emitSpan st s k m c).1.spans.lookup k = some map) :
    ∀ fid f n, Node.filt fid f n ∈ st → (isDisabled map fid = true ↔ enabledF f m c = false) := by
  obtain ⟨_, in2⟩ := interest_sound st hne hh m
  obtain ⟨p1, _⟩ := pass_and_deliver st hwf m c
  intro fid f n hm
  unfold emitSpan at hl
  cases hi : stackInterest st m with
  | never => simp only [hi] at hl; rw [hnew] at hl; cases hl
  | always =>
    simp only [hi, if_true, hs, List.lookup_cons_self, Option.some.injEq] at hl
    subst hl
    have := (in2 hi c).2 fid f n hm
    simp [isDisabled, Bits.clean, this]
  | sometimes =>
    simp only [hi, hs] at hl
    have hne' : (Interest.sometimes = Interest.always) = False := by simp
    simp only [hne', if_false] at hl
    by_cases hr : (enabledPass m c st.reverse Bits.clean).2 = true
    · simp only [hr, if_true, List.lookup_cons_self, Option.some.injEq] at hl
      subst hl
      rw [isDisabled_iff]
      exact (p1 hr).2.2 fid f n hm
    · have hr' : (enabledPass m c st.reverse Bits.clean).2 = false := by simpa using hr
      simp only [hr', Bool.false_eq_true, if_false] at hl
      rw [hnew] at hl; cases hl

open TM.Lookup in
/-- **C07.visible_iff_accepted** — a newly created span is visible to the lookups of a per-layer-filtered
layer if and only if that layer's own filter accepted the span: not the other layers' filters, not
their order, not the cache -/
theorem visible_iff_accepted (st : Stack) (hne : st ≠ []) (hwf : WF st) (hh : HonestStack st)
    (s : LState) (hs : s.t.bits = Bits.clean) (k : Nat) (m : Meta) (c : Ctx) (p : Par)
    (hfresh : exists_ s k = false) (hcreated : exists_ (newSpan st s k m c p).1 k = true)
    (fid : Nat) (f : FExpr) (n : Nat) (hm : Node.filt fid f n ∈ st) :
    visible (newSpan st s k m c p).1 (some fid) k = enabledF f m c := by
  have hnew : s.t.spans.lookup k = none := by
    simpa [exists_] using hfresh
  have hT : (newSpan st s k m c p).1.t = (emitSpan st s.t k m c).1 := by
    simp only [newSpan]; split <;> rfl
  simp only [exists_, hT] at hcreated
  cases hl : (emitSpan st s.t k m c).1.spans.lookup k with
  | none => simp [hl] at hcreated
  | some map =>
    have key := span_map_spec st hne hwf hh s.t hs k m c map hnew hl fid f n hm
    simp only [visible, hT, hl]
    cases he : enabledF f m c with
    | true =>
      cases hd : isDisabled map fid with
      | false => rfl
      | true => have := key.mp hd; rw [he] at this; cases this
    | false => simp [key.mpr he]

open TM.Lookup in
/-- **C07.lookups_hide_rejected** — every span any lookup hands to a layer is one its filter accepted
(`visible`): `Context::span`, `lookup_current`, every element of `span_scope` / `event_scope`,
`SpanRef::parent`, `event_span` — for contextual, explicit and root parents -/
theorem lookups_hide_rejected (s : LState) (ofid : Option Nat) :
    (∀ k x, spanRef s ofid k = some x → visible s ofid x = true) ∧
    (∀ x, lookupCurrent s ofid = some x → visible s ofid x = true ∧ x ∈ s.stack) ∧
    (∀ k x, x ∈ scopeFrom s ofid k → visible s ofid x = true ∧ x ∈ ancestors s k) ∧
    (∀ k x, parentRef s ofid k = some x → visible s ofid x = true) ∧
    (∀ p x, eventSpan s ofid p = some x → visible s ofid x = true) ∧
    (∀ p l x, eventScope s ofid p = some l → x ∈ l → visible s ofid x = true) := by
  have hcur : ∀ x, lookupCurrent s ofid = some x → visible s ofid x = true ∧ x ∈ s.stack := by
    intro x h
    exact ⟨List.find?_some h, List.mem_of_find?_eq_some h⟩
  have hspan : ∀ k x, spanRef s ofid k = some x → visible s ofid x = true := by
    intro k x h
    simp only [spanRef] at h
    split at h
    · cases h; assumption
    · cases h
  have hscope : ∀ k x, x ∈ scopeFrom s ofid k → visible s ofid x = true ∧ x ∈ ancestors s k := by
    intro k x h
    have := List.mem_filter.mp h
    exact ⟨this.2, this.1⟩
  have hev : ∀ p x, eventSpan s ofid p = some x → visible s ofid x = true := by
    intro p x h
    cases p with
    | root => cases h
    | contextual => exact (hcur x h).1
    | explicit j =>
      simp only [eventSpan] at h
      split at h
      · exact hspan j x h
      · cases h
  refine ⟨hspan, hcur, hscope, ?_, hev, ?_⟩
  · intro k x h
    exact List.find?_some h
  · intro p l x h hx
    simp only [eventScope, Option.map_eq_some_iff] at h
    obtain ⟨y, _, rfl⟩ := h
    exact (hscope y x hx).1

open TM.Lookup in
/-- **C07.scope_complete** — and nothing the filter accepted is hidden: a scope contains every visible span of
the chain, in chain order (it is the chain, filtered) -/
theorem scope_complete (s : LState) (ofid : Option Nat) (k x : Nat)
    (hx : x ∈ ancestors s k) (hv : visible s ofid x = true) : x ∈ scopeFrom s ofid k :=
  List.mem_filter.mpr ⟨hx, hv⟩

open TM.Lookup in
/-- non-vacuity: layer 2 (filter: ERROR only, filter id 0) is not shown the INFO span 0 — neither as the parent of the
span it accepted nor in its scope — while the unfiltered layer 1 sees the whole chain -/
example :
    let st : Stack := [.plain 1, .filt 0 (.level 1) 2]
    let info : Meta := { target := [], level := 3, isEvent := false, fields := [] }
    let err : Meta := { target := [], level := 1, isEvent := false, fields := [] }
    let s1 := (newSpan st LState.init 0 info 0 .root).1
    let s2 := (newSpan st s1 1 err 0 (.explicit 0)).1
    scopeFrom s2 none 1 = [1, 0] ∧ scopeFrom s2 (some 0) 1 = [1] ∧ parentRef s2 (some 0) 1 = none ∧
    parentRef s2 none 1 = some 0 := by decide

end C07
