/-
C11, span-scoped directives — "Span-scoped directives raise the enabled level exactly while a
matching span (by name and recorded field values) is entered on the thread, and for that span itself."

Model: Core/EnvDyn.lean (EnvFilter's dynamic directives: by_cs / by_id / the per-thread scope stack).
The specification keeps, instead of the stack, the list of the matching spans that are entered right
now together with the level each had when it was entered; the theorems show that in every
well-nested history the stack IS that list (so a level is raised exactly from a matching span's
enter to its exit), that the fast-path gates (`dynamics.max_level`, `statics.max_level`) never change
a verdict, and that the front end therefore lets through exactly: the matching spans themselves,
whatever a static directive allows, and whatever a currently entered matching span's level allows.
-/
import TracingModel.Props.C11
import TracingModel.Core.EnvDyn

namespace C11
open TM.EnvDyn TM.Directive

/-! ### bounds on levels -/

theorem foldl_max_le {α} (f : α → Nat) (l : List α) (a b : Nat) (ha : a ≤ b) (h : ∀ x ∈ l, f x ≤ b) :
    l.foldl (fun a x => max a (f x)) a ≤ b := by
  induction l generalizing a with
  | nil => simpa
  | cons x xs ih =>
    simp only [List.foldl_cons]
    exact ih _ (by have := h x (by simp); omega) (fun y hy => h y (List.mem_cons_of_mem _ hy))

theorem le_foldl_max {α} (f : α → Nat) (l : List α) (a : Nat) :
    a ≤ l.foldl (fun a x => max a (f x)) a ∧ ∀ x ∈ l, f x ≤ l.foldl (fun a x => max a (f x)) a := by
  induction l generalizing a with
  | nil => simp
  | cons x xs ih =>
    simp only [List.foldl_cons]
    obtain ⟨i1, i2⟩ := ih (max a (f x))
    refine ⟨by omega, fun y hy => ?_⟩
    rcases List.mem_cons.mp hy with rfl | hy
    · omega
    · exact i2 y hy

theorem mem_dedup (ds : List DDir) (x : DDir) (h : x ∈ dedup ds) : x ∈ ds := by
  have key : ∀ (ds acc : List DDir), x ∈ ds.foldl (fun acc d => acc.filter (fun y => y.key != d.key) ++ [d]) acc → x ∈ ds ∨ x ∈ acc := by
    intro ds
    induction ds with
    | nil => intro acc h; exact Or.inr h
    | cons d ds ih =>
      intro acc h
      rcases ih _ h with h | h
      · exact Or.inl (List.mem_cons_of_mem _ h)
      · rcases List.mem_append.mp h with h | h
        · exact Or.inr (List.mem_filter.mp h).1
        · exact Or.inl (by simp at h; simp [h])
  rcases key ds [] h with h | h
  · exact h
  · cases h

/-- the dynamic table's `max_level` bounds the level of every directive in it -/
def EnvOk (e : Env) : Prop := ∀ d ∈ e.dynamics, d.level ≤ e.dynMax

theorem mkEnv_ok (v : Bool) (ds : List DDir) : EnvOk (mkEnv v ds) := by
  intro d hd
  simp only [mkEnv] at hd ⊢
  exact (le_foldl_max DDir.level _ 0).2 d (mem_dedup _ d hd)

theorem matcher_levels (e : Env) (m : CMeta) (sm : SMatch) (h : sm ∈ matcherOf e m) :
    ∃ d ∈ e.dynamics, sm.level = d.level := by
  simp only [matcherOf, List.mem_map, List.mem_filter] at h
  obtain ⟨d, ⟨hd, _⟩, rfl⟩ := h
  exact ⟨d, hd, rfl⟩

theorem recordAll_levels (vals : List (TM.Str × Val)) (l : List SMatch) (sm : SMatch) (h : sm ∈ recordAll vals l) :
    ∃ sm0 ∈ l, sm.level = sm0.level := by
  induction vals generalizing l with
  | nil => exact ⟨sm, h, rfl⟩
  | cons nv vals ih =>
    simp only [recordAll, List.foldl_cons] at h
    obtain ⟨s1, h1, e1⟩ := ih _ h
    simp only [List.mem_map] at h1
    obtain ⟨s0, h0, rfl⟩ := h1
    exact ⟨s0, h0, by rw [e1]; rfl⟩

theorem levelOf_le (l : List SMatch) (b : Nat) (h : ∀ sm ∈ l, sm.level ≤ b) : levelOf l ≤ b := by
  simp only [levelOf]
  exact foldl_max_le SMatch.level _ 0 b (Nat.zero_le _) (fun sm hsm => h sm (List.mem_filter.mp hsm).1)

/-- a static table's first caring directive never allows more than the table's `max_level` -/
theorem static_enabled_le_max (ds : List SDir) (m : Meta) (h : TM.Directive.enabled (build ds) m = true) :
    m.level ≤ (build ds).maxLevel := by
  simp only [TM.Directive.enabled] at h
  cases hf : (build ds).dirs.find? (fun d => cares d m) with
  | none => simp [hf] at h
  | some d =>
    simp only [hf, decide_eq_true_eq] at h
    have := max_level_bound ds d (mem_build ds d (List.mem_of_find?_eq_some hf))
    omega

/-! ### the scope stack is the list of entered matching spans -/

/-- the specification's state: matching spans entered right now, most recent first, with the level each had when entered -/
abbrev Entered := List (Nat × Nat)

structure DInv (e : Env) (s : St) (ent : Entered) : Prop where
  scope : s.scope = ent.map (·.2)
  bound : ∀ x ∈ ent, x.2 ≤ e.dynMax
  stored : ∀ p ∈ s.byId, ∀ sm ∈ p.2, sm.level ≤ e.dynMax
  nodyn : e.hasDynamics = false → ent = []

theorem DInv.init (e : Env) : DInv e St.init [] :=
  ⟨rfl, by simp, by simp [St.init], fun _ => rfl⟩

theorem mem_of_lookup {α} (k : Nat) (v : α) (l : List (Nat × α)) (h : l.lookup k = some v) : (k, v) ∈ l := by
  induction l with
  | nil => cases h
  | cons p rest ih =>
    obtain ⟨i, x⟩ := p
    by_cases hi : k = i
    · subst hi
      simp only [List.lookup_cons_self, Option.some.injEq] at h
      subst h; simp
    · have hb : (k == i) = false := by simpa using hi
      simp only [List.lookup, hb] at h
      exact List.mem_cons_of_mem _ (ih h)

/-- creating a span: a matcher is stored iff the span matches a span-scoped directive; nothing is raised yet -/
theorem newSpan_inv (e : Env) (hok : EnvOk e) (s : St) (ent : Entered) (h : DInv e s ent)
    (k : Nat) (m : CMeta) (vals : List (TM.Str × Val)) : DInv e (newSpan e s k m vals) ent := by
  unfold newSpan
  split
  · refine ⟨h.scope, h.bound, ?_, h.nodyn⟩
    intro p hp sm hsm
    rcases List.mem_cons.mp hp with rfl | hp
    · obtain ⟨s0, h0, e0⟩ := recordAll_levels _ _ sm hsm
      obtain ⟨d, hd, ed⟩ := matcher_levels e m s0 h0
      have := hok d hd
      omega
    · exact h.stored p hp sm hsm
  · exact h

/-- recording values changes which matchers are satisfied, never the stack -/
theorem record_inv (e : Env) (s : St) (ent : Entered) (h : DInv e s ent) (k : Nat) (vals : List (TM.Str × Val)) :
    DInv e (record s k vals) ent := by
  refine ⟨h.scope, h.bound, ?_, h.nodyn⟩
  intro p hp sm hsm
  simp only [record, List.mem_map] at hp
  obtain ⟨q, hq, rfl⟩ := hp
  obtain ⟨j, l0⟩ := q
  by_cases hk : j = k
  · simp only [hk, if_true] at hsm
    obtain ⟨s0, h0, e0⟩ := recordAll_levels _ _ sm hsm
    have := h.stored (j, l0) hq s0 h0
    omega
  · simp only [hk, if_false] at hsm
    exact h.stored (j, l0) hq sm hsm

/-- **enter** pushes the span's current level iff the span has a matcher -/
theorem enter_inv (e : Env) (s : St) (ent : Entered) (h : DInv e s ent) (k : Nat) (hd : e.hasDynamics = true ∨ s.byId.lookup k = none) :
    DInv e (enter s k) (match s.byId.lookup k with | some l => (k, levelOf l) :: ent | none => ent) := by
  unfold enter
  cases hl : s.byId.lookup k with
  | none => simpa using h
  | some l =>
    refine ⟨by simp [h.scope], ?_, h.stored, ?_⟩
    · intro x hx
      rcases List.mem_cons.mp hx with rfl | hx
      · exact levelOf_le l _ (h.stored (k, l) (mem_of_lookup k l _ hl))
      · exact h.bound x hx
    · intro hn
      rcases hd with hd | hd
      · rw [hd] at hn; cases hn
      · rw [hl] at hd; cases hd

/-- **exit** of the most recently entered matching span pops exactly its entry: the level is back to what it was before
the matching enter — the level is raised EXACTLY while the span is entered -/
theorem exit_inv (e : Env) (s : St) (k lv : Nat) (rest : Entered) (h : DInv e s ((k, lv) :: rest))
    (hk : (s.byId.lookup k).isSome = true) : DInv e (exit s k) rest := by
  unfold exit
  simp only [hk, if_true]
  refine ⟨by simp [h.scope], fun x hx => h.bound x (List.mem_cons_of_mem _ hx), h.stored, ?_⟩
  intro hn
  have := h.nodyn hn
  cases this

/-- exit of a span without a matcher leaves the stack alone -/
theorem exit_other (s : St) (k : Nat) (hk : (s.byId.lookup k).isSome = false) : exit s k = s := by
  simp [exit, hk]

theorem close_inv (e : Env) (s : St) (ent : Entered) (h : DInv e s ent) (k : Nat) : DInv e (close s k) ent := by
  refine ⟨h.scope, h.bound, ?_, h.nodyn⟩
  intro p hp
  exact h.stored p (List.mem_filter.mp hp).1

/-! ### what gets through -/

theorem any_scope (ent : Entered) (lvl : Nat) :
    (ent.map (·.2)).any (fun f => decide (lvl ≤ f)) = ent.any (fun x => decide (lvl ≤ x.2)) := by
  induction ent with
  | nil => rfl
  | cons x xs ih => simp [ih]

/-- **C11.dyn_passes_spec** — in every state reachable by a well-nested history (`DInv`), an emission gets through the
filter's front end (cached interest, then `enabled`) if and only if it is a span matching a span-scoped directive, or a
static directive allows it, or some matching span that is entered on the thread right now had, when it was entered, a level
that allows it.  The two fast-path gates on the tables' max levels never change the verdict. -/
theorem dyn_passes_spec (e : Env) (hst : ∃ ds, e.statics = build ds) (s : St) (ent : Entered) (h : DInv e s ent) (m : CMeta) :
    passes e s m =
      (caredSpan e m || TM.Directive.enabled e.statics m.toMeta || ent.any (fun x => decide (m.level ≤ x.2))) := by
  obtain ⟨ds, hds⟩ := hst
  unfold passes registerCallsite
  by_cases hc : caredSpan e m = true
  · simp [hc]
  · have hc' : caredSpan e m = false := by simpa using hc
    simp only [hc', Bool.false_eq_true, if_false, Bool.false_or]
    by_cases hs : TM.Directive.enabled e.statics m.toMeta = true
    · simp [hs]
    · have hs' : TM.Directive.enabled e.statics m.toMeta = false := by simpa using hs
      simp only [hs', Bool.false_eq_true, if_false, Bool.false_or]
      by_cases hd : e.hasDynamics = true
      · simp only [hd, if_true, TM.EnvDyn.enabled, hc', Bool.false_or, Bool.true_and, hs', h.scope, any_scope]
        by_cases ha : ent.any (fun x => decide (m.level ≤ x.2)) = true
        · -- some entered span allows it: its level is within the dynamic max level
          obtain ⟨x, hx, hle⟩ := List.any_eq_true.mp ha
          have hb := h.bound x hx
          have hle' : m.level ≤ x.2 := by simpa using hle
          have : decide (m.level ≤ e.dynMax) = true := by simp; omega
          simp [this, ha]
        · have ha' : ent.any (fun x => decide (m.level ≤ x.2)) = false := by simpa using ha
          simp [ha']
      · have hd' : e.hasDynamics = false := by simpa using hd
        simp [hd', h.nodyn hd']

/-- **C11.matching_span_always** — "and for that span itself": a span that matches a span-scoped directive is let through -/
theorem matching_span_always (e : Env) (s : St) (m : CMeta) (h : caredSpan e m = true) : passes e s m = true := by
  simp [passes, registerCallsite, h]

/-- non-vacuity / a concrete history: `[req{id=7}]=debug,warn` — a DEBUG event is rejected outside, rejected inside a `req`
span whose id is 8, let through inside a `req` span whose id was recorded as 7, and rejected again after that span's exit -/
example :
    let e := mkEnv false [{ target := none, inSpan := some (TM.ofString "req"), fields := [(TM.ofString "id", some (.int 7))], level := 4 },
                          { target := none, inSpan := none, fields := [], level := 2 }]
    let req : CMeta := { name := TM.ofString "req", target := TM.ofString "app", level := 3, isSpan := true, fields := [TM.ofString "id"] }
    let dbg : CMeta := { name := TM.ofString "event", target := TM.ofString "app", level := 4, isSpan := false, fields := [] }
    let s1 := newSpan e (newSpan e St.init 0 req [(TM.ofString "id", .int 8)]) 1 req []
    let s2 := record s1 1 [(TM.ofString "id", .int 7)]
    passes e s2 dbg = false ∧ passes e (enter s2 0) dbg = false ∧ passes e (enter s2 1) dbg = true ∧
    passes e (exit (enter s2 1) 1) dbg = false ∧ passes e s2 req = true := by decide

/-! ### a directive given twice: the later one replaces the earlier one (whatever its matchers are: numbers, booleans, fixed texts) -/

theorem dedup_snoc (xs : List DDir) (d : DDir) :
    dedup (xs ++ [d]) = (dedup xs).filter (fun x => x.key != d.key) ++ [d] := by
  unfold dedup
  rw [List.foldl_append]
  rfl

/-- **C11.later_directive_replaces** — in the dynamic table built from any list of directives followed by `d`, the only directive
with `d`'s target, span name and field matchers is `d` itself (with `d`'s level) -/
theorem later_directive_replaces (xs : List DDir) (d x : DDir) (hx : x ∈ dedup (xs ++ [d])) (hk : x.key = d.key) : x = d := by
  rw [dedup_snoc] at hx
  rcases List.mem_append.mp hx with h | h
  · have := (List.mem_filter.mp h).2
    simp [hk] at this
  · simpa using h

/-- the texts of two fixed-text matchers decide whether the keys are equal (no two spellings of one matcher) -/
example : (DDir.key { target := none, inSpan := some (TM.ofString "req"), fields := [(TM.ofString "x", some (.dbg (TM.ofString "abc")))], level := 3 }
    == DDir.key { target := none, inSpan := some (TM.ofString "req"), fields := [(TM.ofString "x", some (.dbg (TM.ofString "abc")))], level := 4 }) = true := by decide

end C11
