/-
C08, trees with subscribers that are not there — the hint an `and_then` tree publishes when it contains `Option::None` layers,
empty `Vec`s and pass-through wrappers (model Core/TreeHint).

* For trees of plain / global-filter / per-layer-filtered layers the richer model IS the one whose soundness is proved
  (`tree_agrees`, hence `stack_hint_sound` applies).
* A `None` layer next to per-layer-filtered layers makes the tree count as NOT per-layer-filtered, and the hint is then unsound:
  `f32_witness` (finding F32).
-/
import TracingModel.Props.C08S
import TracingModel.Core.TreeHint
import TracingModel.Gen.Forwarding

namespace C08
open TM.TreeHint TM.Reload TM.Filtering TM.FilterExpr

def viewOf : Node → View
  | .plain _ => plainV
  | .glob g => globV (hintF g)
  | .filt _ f _ => filtV (hintF f)

theorem viewOf_spec (nd : Node) : (viewOf nd).hint = leafHint nd ∧ (viewOf nd).psf = nd.isFilt ∧ (viewOf nd).none = false := by
  cases nd <;> exact ⟨rfl, rfl, rfl⟩

theorem pick_no_none (o i : View) (ho : o.none = false) (hi : i.none = false) : pick o i = pickHint o.psf i.psf o.hint i.hint := by
  simp only [pick, pickHint, ho, hi, Bool.false_eq_true, if_false, Bool.false_and]
  rfl

/-- **C08.tree_agrees** — on trees without absent subscribers and wrappers the tree-hint model with None operands computes
exactly the hint whose soundness is `stack_hint_sound` -/
theorem tree_agrees (l : List Node) (hl : l ≠ []) :
    treeO (l.map viewOf) = some { hint := hintTree l, psf := l.all Node.isFilt, none := false } := by
  induction l with
  | nil => exact absurd rfl hl
  | cons nd below ih =>
    cases below with
    | nil =>
      obtain ⟨h1, h2, h3⟩ := viewOf_spec nd
      simp only [List.map_cons, List.map_nil, treeO, hintTree, List.all_cons, List.all_nil, Bool.and_true, Option.some.injEq]
      cases hv : viewOf nd with
      | mk h p n => rw [hv] at h1 h2 h3; simp at h1 h2 h3; simp [h1, h2, h3]
    | cons b bs =>
      have ihb := ih (by simp)
      obtain ⟨h1, h2, h3⟩ := viewOf_spec nd
      simp only [List.map_cons] at ihb ⊢
      simp only [treeO, ihb, Option.map_some, Option.some.injEq, andThen]
      rw [pick_no_none _ _ h3 rfl]
      simp only [h1, h2, h3, hintTree, List.all_cons, Bool.or_false, Bool.and_false, Bool.false_and]


theorem stack_agrees (st : Stack) (hne : st ≠ []) : stackHintV (st.map viewOf) = stackHint st := by
  simp only [stackHintV, stackHint, ← List.map_reverse]
  rw [tree_agrees st.reverse (by simpa using hne)]
  rfl

/-- **C08.f32_witness** — the full statement is false for trees with an absent subscriber next to per-layer-filtered ones
(finding F32): `None.and_then(a.with_filter(ERROR)).and_then(b.with_filter(<no hint>))` publishes ERROR although `b`'s filter
has no upper bound — while without the `None` the same tree publishes no bound -/
theorem f32_witness :
    stackHintV [noneV, filtV (some 1), filtV none] = some 1 ∧
    stackHintV [filtV (some 1), filtV none] = none := by decide

/-- **C08.f33_repaired** — a group of subscribers is "not there" only if ALL its members are (the repair of F33): an empty `Vec`
below the group `plain.and_then(None).and_then(plain)` publishes no bound.  Before the repair the none marker was found in
EITHER branch, the whole group counted as absent and the stack published OFF — silencing two layers that accept everything. -/
theorem f33_repaired :
    (andThen noneV (andThen (andThen plainV noneV) plainV)).hint = none ∧
    (andThen noneV (andThen (andThen plainV noneV) plainV)).none = false := by decide

/-- a `Vec` of subscribers counts as per-layer filtered only if EVERY member does — absent members included (from
subscribe/mod.rs on every run): the enclosing `Layered` decides ONCE, when it is built, how it combines interests, and a member that
is absent then may be switched on later through a reload handle -/
theorem vec_psf_needs_every_member : TM.Gen.Forwarding.vecPsfNeedsEveryMember = true := by decide

end C08
