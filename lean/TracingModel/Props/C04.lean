/-
C04 — "Racing callsite registration and collector turnover converge; none is stranded"

  When threads hit callsites for the first time while other threads create, install and drop
  collectors or rebuild the interest cache, no thread deadlocks or panics, every callsite is
  offered to every collector that is live afterwards, and once the activity quiesces every live
  collector receives exactly the emissions its filter accepts - a callsite is never left
  permanently disabled (or the global level left too low) for a collector that wants it. During
  the race an emission is never delivered to a collector whose filter rejects it, and an emission
  that starts after a collector's installation has completed is judged by that collector.

Model: Core/RegRace.lean — a transition system over the lock acquisitions / atomic sections of
callsite.rs and MacroCallsite::register, for ANY number of threads, callsites and collectors and
EVERY interleaving (a history is the sequence of steps in the order the interleaving performed
them).  Whether the read lock of `register` spans compute AND push is the generated fact
`Gen.RegistryLocks.registerHoldsAcrossPush`.
-/
import TracingModel.Core.RegRace
import TracingModel.Lemmas.CallsiteInv

namespace C04
open TM.RegRace TM.Gen.RegistryLocks
open TM.Callsite (Interest Cs)
open TM.CoreLemmas (foldl_and_always foldl_and_never)

/-- what callsite.rs and lib.rs must say NOW (kernel-decided on the regenerated facts) -/
theorem lock_discipline :
    registerHoldsAcrossPush = true ∧ registerOrder = ["read", "compute", "push"] ∧
    registerDispatchOrder = ["write", "notify", "push", "rebuild"] ∧ rebuildCacheOrder = ["write", "rebuild"] ∧
    rebuildInterestOrder = ["retain", "for_each", "set_max"] ∧
    macroCas = true ∧ macroWinnerRegistersThenStores = true ∧ macroLoserSometimes = true ∧ macroRegisteredLoads = true := by
  decide

/-- the steps of a history mention only callsites of the program -/
def StepIn (U : List Cs) : Step → Prop
  | .cas cs => cs ∈ U | .lock cs => cs ∈ U | .compute cs => cs ∈ U | .push cs => cs ∈ U
  | .unlock cs => cs ∈ U | .done cs => cs ∈ U | _ => True

/-- the part of the invariant that does not speak about the cached values -/
structure WInv (U : List Cs) (s : S) : Prop where
  listed : ∀ cs, cs ∈ s.callsites ↔ (s.phase cs = .pushed ∨ s.phase cs = .released ∨ s.phase cs = .done)
  cached : ∀ cs, s.cache cs ≠ none →
            (s.phase cs = .computed ∨ s.phase cs = .pushed ∨ s.phase cs = .released ∨ s.phase cs = .done)
  nodup : s.callsites.Nodup
  inU : ∀ cs, s.phase cs ≠ .un → cs ∈ U
  noFree : ∀ cs, s.phase cs ≠ .computedFree
  dispUsed : ∀ c ∈ s.disp, c ∈ s.used
  aliveDisp : ∀ c, s.alive c = true → c ∈ s.disp

structure FInv (U : List Cs) (s : S) : Prop extends WInv U s where
  basis : s.dirty = false → ∀ cs i, s.cache cs = some i → ∃ B, i = fold s.want cs B ∧ (∀ c ∈ B, c ∈ s.used) ∧
            ∀ c ∈ s.disp, s.alive c = true → c ∈ B
  level : s.dirty = false → ∀ c ∈ s.disp, s.alive c = true → s.hint c ≤ s.maxLevel

theorem FInv.init (U : List Cs) : FInv U S.init :=
  { listed := by intro cs; simp [S.init]
    cached := by intro cs h; simp [S.init] at h
    nodup := by simp [S.init]
    inU := by intro cs h; simp [S.init] at h
    noFree := by intro cs; simp [S.init]
    dispUsed := by intro c h; simp [S.init] at h
    aliveDisp := by intro c h; simp [S.init] at h
    basis := by intro _ cs i h; simp [S.init] at h
    level := by intro _ c h; simp [S.init] at h }

theorem update_same {α} (f : Nat → α) (k : Nat) (v : α) : update f k v k = v := by simp [update]
theorem update_other {α} (f : Nat → α) (k x : Nat) (v : α) (h : x ≠ k) : update f k v x = f x := by simp [update, h]

theorem fold_congr_want (w w' : Cid → Cs → Interest) (cs : Cs) (B : List Cid) (h : ∀ c ∈ B, w' c cs = w c cs) :
    fold w' cs B = fold w cs B := by
  cases B with
  | nil => rfl
  | cons b rest =>
    simp only [fold]
    rw [h b (by simp)]
    have : ∀ (l : List Cid) (i : Interest), (∀ c ∈ l, w' c cs = w c cs) →
        l.foldl (fun i c' => i.and (w' c' cs)) i = l.foldl (fun i c' => i.and (w c' cs)) i := by
      intro l
      induction l with
      | nil => intro i _; rfl
      | cons x xs ih =>
        intro i hh
        simp only [List.foldl_cons, hh x (by simp)]
        exact ih _ (fun c hc => hh c (List.mem_cons_of_mem _ hc))
    exact this rest _ (fun c hc => h c (List.mem_cons_of_mem _ hc))

theorem foldl_max_ge' (hf : Cid → Nat) (l : List Cid) (m0 : Nat) :
    m0 ≤ l.foldl (fun m c => if hf c > m then hf c else m) m0 ∧
    ∀ c ∈ l, hf c ≤ l.foldl (fun m c => if hf c > m then hf c else m) m0 := by
  induction l generalizing m0 with
  | nil => exact ⟨Nat.le_refl _, by simp⟩
  | cons x xs ih =>
    simp only [List.foldl_cons]
    obtain ⟨h1, h2⟩ := ih (if hf x > m0 then hf x else m0)
    refine ⟨Nat.le_trans (by split <;> omega) h1, ?_⟩
    intro c hc
    rcases List.mem_cons.mp hc with rfl | hc
    · exact Nat.le_trans (by split <;> omega) h1
    · exact h2 c hc

/-- a writer section ends with `rebuild_interest`, which establishes the whole invariant —
PROVIDED no registration holds the read lock: that is what makes every callsite that already has
an interest be on the list the rebuild walks -/
theorem rebuild_inv (U : List Cs) (s : S) (h : WInv U s) (hnr : noReaders s U = true) :
    FInv U (rebuild s) := by
  have onList : ∀ cs, s.cache cs ≠ none → cs ∈ s.callsites := by
    intro cs hc
    have hp := h.cached cs hc
    have hU : cs ∈ U := h.inU cs (by rcases hp with e | e | e | e <;> simp [e])
    have := List.all_eq_true.mp hnr cs hU
    rcases hp with e | e | e | e
    · simp [e, Phase.holdsRead] at this
    · simp [e, Phase.holdsRead] at this
    · exact (h.listed cs).mpr (Or.inr (Or.inl e))
    · exact (h.listed cs).mpr (Or.inr (Or.inr e))
  have hlive : ∀ c, c ∈ live s ↔ c ∈ s.disp ∧ s.alive c = true := by
    intro c; simp [live, List.mem_filter]
  exact {
    listed := h.listed
    cached := by
      intro cs hc
      simp only [rebuild] at hc
      by_cases hin : cs ∈ s.callsites
      · rcases (h.listed cs).mp hin with e | e | e
        · exact Or.inr (Or.inl e)
        · exact Or.inr (Or.inr (Or.inl e))
        · exact Or.inr (Or.inr (Or.inr e))
      · simp only [hin, if_false] at hc
        exact h.cached cs hc
    nodup := h.nodup
    inU := h.inU
    noFree := h.noFree
    dispUsed := by intro c hc; exact h.dispUsed c ((hlive c).mp hc).1
    aliveDisp := by intro c ha; exact (hlive c).mpr ⟨h.aliveDisp c ha, ha⟩
    basis := by
      intro _ cs i hi
      simp only [rebuild] at hi
      by_cases hin : cs ∈ s.callsites
      · simp only [hin, if_true, Option.some.injEq] at hi
        exact ⟨live s, hi.symm, fun c hc => h.dispUsed c ((hlive c).mp hc).1, fun c hc _ => hc⟩
      · simp only [hin, if_false] at hi
        exact absurd (onList cs (by simp [hi])) hin
    level := by
      intro _ c hc ha
      exact (foldl_max_ge' s.hint (live s) 0).2 c hc }

/-- a step that only advances one registration's phase -/
theorem phase_step (U : List Cs) (s : S) (cs : Cs) (p' : Phase) (h : FInv U s) (hU : cs ∈ U)
    (hl : (p' = .pushed ∨ p' = .released ∨ p' = .done) ↔
          (s.phase cs = .pushed ∨ s.phase cs = .released ∨ s.phase cs = .done))
    (hc : s.cache cs ≠ none → (p' = .computed ∨ p' = .pushed ∨ p' = .released ∨ p' = .done))
    (hf : p' ≠ .computedFree) : FInv U { s with phase := update s.phase cs p' } :=
  { listed := by
      intro x
      by_cases e : x = cs
      · subst e; simp only [update_same]; rw [h.listed x]; exact hl.symm
      · simp only [update_other _ _ _ _ e]; exact h.listed x
    cached := by
      intro x hx
      by_cases e : x = cs
      · subst e; simp only [update_same]; exact hc hx
      · simp only [update_other _ _ _ _ e]; exact h.cached x hx
    nodup := h.nodup
    inU := by
      intro x hx
      by_cases e : x = cs
      · subst e; exact hU
      · simp only [update_other _ _ _ _ e] at hx; exact h.inU x hx
    noFree := by
      intro x
      by_cases e : x = cs
      · subst e; simp only [update_same]; exact hf
      · simp only [update_other _ _ _ _ e]; exact h.noFree x
    dispUsed := h.dispUsed
    aliveDisp := h.aliveDisp
    basis := h.basis
    level := h.level }

/-- every enabled step of every thread preserves the invariant (with the lock discipline of the code) -/
theorem step_inv (U : List Cs) (s s' : S) (st : Step) (h : FInv U s) (hin : StepIn U st)
    (hs : step true U s st = some s') : FInv U s' := by
  cases st with
  | cas cs =>
    simp only [step] at hs
    split at hs
    · rename_i hp; cases hs
      exact phase_step U s cs .won h hin (by simp [hp])
        (by intro hc; have := h.cached cs hc; simp [hp] at this) (by simp)
    · cases hs
  | lock cs =>
    simp only [step] at hs
    split at hs
    · rename_i hp; cases hs
      exact phase_step U s cs .locked h hin (by simp [hp])
        (by intro hc; have := h.cached cs hc; simp [hp] at this) (by simp)
    · cases hs
  | compute cs =>
    simp only [step, if_true] at hs
    split at hs
    · rename_i hp; cases hs
      exact {
        listed := by
          intro x
          by_cases e : x = cs
          · subst e; simp only [update_same]; rw [h.listed x]; simp [hp]
          · simp only [update_other _ _ _ _ e]; exact h.listed x
        cached := by
          intro x hx
          by_cases e : x = cs
          · subst e; simp [update_same]
          · simp only [update_other _ _ _ _ e] at hx ⊢; exact h.cached x hx
        nodup := h.nodup
        inU := by
          intro x hx
          by_cases e : x = cs
          · subst e; exact hin
          · simp only [update_other _ _ _ _ e] at hx; exact h.inU x hx
        noFree := by
          intro x
          by_cases e : x = cs
          · subst e; simp [update_same]
          · simp only [update_other _ _ _ _ e]; exact h.noFree x
        dispUsed := h.dispUsed
        aliveDisp := h.aliveDisp
        basis := by
          intro hd x i hi
          by_cases e : x = cs
          · subst e
            simp only [update_same, Option.some.injEq] at hi
            refine ⟨live s, hi.symm, ?_, ?_⟩
            · intro c hc; exact h.dispUsed c (List.mem_filter.mp hc).1
            · intro c hc ha; exact List.mem_filter.mpr ⟨hc, ha⟩
          · simp only [update_other _ _ _ _ e] at hi; exact h.basis hd x i hi
        level := h.level }
    · cases hs
  | push cs =>
    simp only [step] at hs
    split at hs
    · rename_i hp; cases hs
      have hnot : cs ∉ s.callsites := by
        intro hc; have := (h.listed cs).mp hc; simp [hp] at this
      exact {
        listed := by
          intro x
          by_cases e : x = cs
          · subst e; simp [update_same]
          · simp only [update_other _ _ _ _ e, List.mem_cons, e, false_or]; exact h.listed x
        cached := by
          intro x hx
          by_cases e : x = cs
          · subst e; simp [update_same]
          · simp only [update_other _ _ _ _ e]; exact h.cached x hx
        nodup := List.nodup_cons.mpr ⟨hnot, h.nodup⟩
        inU := by
          intro x hx
          by_cases e : x = cs
          · subst e; exact hin
          · simp only [update_other _ _ _ _ e] at hx; exact h.inU x hx
        noFree := by
          intro x
          by_cases e : x = cs
          · subst e; simp [update_same]
          · simp only [update_other _ _ _ _ e]; exact h.noFree x
        dispUsed := h.dispUsed
        aliveDisp := h.aliveDisp
        basis := h.basis
        level := h.level }
    · split at hs
      · rename_i _ hp; exact absurd hp (h.noFree cs)
      · cases hs
  | unlock cs =>
    simp only [step] at hs
    split at hs
    · rename_i hp; cases hs
      exact phase_step U s cs .released h hin (by simp [hp]) (by intro _; simp) (by simp)
    · cases hs
  | done cs =>
    simp only [step] at hs
    split at hs
    · rename_i hp; cases hs
      exact phase_step U s cs .done h hin (by simp [hp]) (by intro _; simp) (by simp)
    · cases hs
  | newDispatch c w hn =>
    simp only [step] at hs
    split at hs
    · rename_i hc; cases hs
      apply rebuild_inv
      · exact {
          listed := h.listed
          cached := h.cached
          nodup := h.nodup
          inU := h.inU
          noFree := h.noFree
          dispUsed := by
            intro x hx
            rcases List.mem_append.mp hx with hx | hx
            · exact List.mem_cons_of_mem _ (h.dispUsed x hx)
            · simp only [List.mem_singleton] at hx; subst hx; simp
          aliveDisp := by
            intro x ha
            by_cases e : x = c
            · subst e; simp
            · simp only [update_other _ _ _ _ e] at ha
              exact List.mem_append_left _ (h.aliveDisp x ha) }
      · exact hc.1
    · cases hs
  | rebuildCache =>
    simp only [step] at hs
    split at hs
    · rename_i hnr; cases hs; exact rebuild_inv U s h.toWInv hnr
    · cases hs
  | dropCollector c =>
    simp only [step, Option.some.injEq] at hs
    subst hs
    exact {
      listed := h.listed
      cached := h.cached
      nodup := h.nodup
      inU := h.inU
      noFree := h.noFree
      dispUsed := h.dispUsed
      aliveDisp := by
        intro x ha
        by_cases e : x = c
        · subst e; simp [update_same] at ha
        · simp only [update_other _ _ _ _ e] at ha; exact h.aliveDisp x ha
      basis := by
        intro hd cs i hi
        obtain ⟨B, hB, hu, hm⟩ := h.basis hd cs i hi
        refine ⟨B, hB, hu, ?_⟩
        intro x hx ha
        by_cases e : x = c
        · subst e; simp [update_same] at ha
        · simp only [update_other _ _ _ _ e] at ha; exact hm x hx ha
      level := by
        intro hd x hx ha
        by_cases e : x = c
        · subst e; simp [update_same] at ha
        · simp only [update_other _ _ _ _ e] at ha; exact h.level hd x hx ha }
  | mutate c w hn =>
    simp only [step] at hs
    split at hs
    · cases hs
      exact {
        listed := h.listed
        cached := h.cached
        nodup := h.nodup
        inU := h.inU
        noFree := h.noFree
        dispUsed := h.dispUsed
        aliveDisp := h.aliveDisp
        basis := by intro hd; simp at hd
        level := by intro hd; simp at hd }
    · cases hs

/-- **C04.inv_reachable** — the invariant holds after EVERY interleaving: any finite sequence of steps
by any number of threads over the callsites `U` (blocked steps do not happen) -/
theorem inv_reachable (U : List Cs) (steps : List Step) (hin : ∀ st ∈ steps, StepIn U st) (s : S) (h : FInv U s) :
    FInv U (run true U s steps) := by
  induction steps generalizing s with
  | nil => exact h
  | cons st rest ih =>
    simp only [run]
    apply ih (fun x hx => hin x (List.mem_cons_of_mem _ hx))
    cases hs : step true U s st with
    | none => simpa using h
    | some s' => simpa using step_inv U s s' st h (hin st (by simp)) hs

/-- what the code does: the model instantiated with the lock scope extracted from callsite.rs -/
def runCode (U : List Cs) (steps : List Step) : S := run registerHoldsAcrossPush U S.init steps

theorem fold_sound (want : Cid → Cs → Interest) (cs : Cs) (B : List Cid) (c : Cid) (hc : c ∈ B) :
    (fold want cs B = .always → want c cs = .always) ∧ (fold want cs B = .never → want c cs = .never) := by
  cases B with
  | nil => exact absurd hc (by simp)
  | cons b rest =>
    simp only [fold]
    constructor
    · intro h
      obtain ⟨h1, h2⟩ := foldl_and_always (fun c' => want c' cs) rest _ h
      rcases List.mem_cons.mp hc with rfl | hm
      · exact h1
      · exact h2 c hm
    · intro h
      obtain ⟨h1, h2⟩ := foldl_and_never (fun c' => want c' cs) rest _ h
      rcases List.mem_cons.mp hc with rfl | hm
      · exact h1
      · exact h2 c hm

/-- **C04.never_stranded** — after EVERY interleaving (not only at quiescence), for the real lock
discipline: whatever interest a callsite has cached, every collector that is live NOW was asked —
`never` only if every live collector said never (no collector that wants the callsite is left with
it disabled), `always` only if every live collector said always (no emission bypasses a filter that
would reject it) — and MAX_LEVEL is not below any live collector's hint.  `dirty = false`: no
reload is between its mutate and its rebuild (a reload that has RETURNED has rebuilt: C12) -/
theorem never_stranded (U : List Cs) (steps : List Step) (hin : ∀ st ∈ steps, StepIn U st)
    (hclean : (runCode U steps).dirty = false) :
    let s := runCode U steps
    (∀ cs c, s.alive c = true →
        (s.cache cs = some .never → s.want c cs = .never) ∧ (s.cache cs = some .always → s.want c cs = .always)) ∧
    (∀ c, s.alive c = true → s.hint c ≤ s.maxLevel) := by
  have hI : FInv U (runCode U steps) := by
    unfold runCode; rw [lock_discipline.1]; exact inv_reachable U steps hin _ (FInv.init U)
  refine ⟨fun cs c ha => ?_, fun c ha => hI.level hclean c (hI.aliveDisp c ha) ha⟩
  constructor
  · intro hc
    obtain ⟨B, hB, _, hm⟩ := hI.basis hclean cs _ hc
    exact (fold_sound _ cs B c (hm c (hI.aliveDisp c ha) ha)).2 hB.symm
  · intro hc
    obtain ⟨B, hB, _, hm⟩ := hI.basis hclean cs _ hc
    exact (fold_sound _ cs B c (hm c (hI.aliveDisp c ha) ha)).1 hB.symm

/-- every collector's answers are static unless a reload changes them; a rebuild — the last step
of every `Handle::modify`, of every `Dispatch::new` and of `rebuild_interest_cache` — makes the
state clean again, whatever registrations are in flight -/
theorem rebuild_cleans (b : Bool) (U : List Cs) (s s' : S) (h : step b U s .rebuildCache = some s') : s'.dirty = false := by
  simp only [step] at h
  split at h
  · cases h; rfl
  · cases h

/-- **C04.no_panic** — the self-link assertion of `LinkedList::push` cannot fire: no callsite is pushed twice -/
theorem no_panic (U : List Cs) (steps : List Step) (hin : ∀ st ∈ steps, StepIn U st) :
    (runCode U steps).callsites.Nodup := by
  unfold runCode; rw [lock_discipline.1]; exact (inv_reachable U steps hin _ (FInv.init U)).nodup

/-- **C04.no_stuck** — nobody waits forever: every registration in flight can take its next step
whatever the others do (readers never wait: writers are atomic sections), and a writer can enter as
soon as no registration holds the read lock, which every one of them releases within three of its
own steps -/
theorem no_stuck (U : List Cs) (s : S) (cs : Cs) :
    (s.phase cs = .won → (step true U s (.lock cs)).isSome) ∧
    (s.phase cs = .locked → (step true U s (.compute cs)).isSome) ∧
    (s.phase cs = .computed → (step true U s (.push cs)).isSome) ∧
    (s.phase cs = .pushed → (step true U s (.unlock cs)).isSome) ∧
    (s.phase cs = .released → (step true U s (.done cs)).isSome) ∧
    (noReaders s U = true → (step true U s .rebuildCache).isSome) := by
  refine ⟨?_, ?_, ?_, ?_, ?_, ?_⟩ <;> intro h <;> simp [step, h]

/-- **C04.mutant_witness** — the theorem is about the lock scope: if `register` released the read lock
before the push (`holdAcross = false`), this two-thread schedule strands callsite 0: thread A
computes its interest (nobody there: never) and is preempted; thread B creates collector 1, which
wants it; A pushes.  At quiescence collector 1 is live, wants callsite 0, and its cached interest
is `never` for good. -/
theorem mutant_witness :
    let sched := [Step.cas 0, .lock 0, .compute 0, .newDispatch 1 (fun _ => .always) 5, .push 0, .unlock 0, .done 0]
    let bad := run false [0] S.init sched
    let good := run true [0] S.init sched
    quiescent bad [0] = true ∧ bad.alive 1 = true ∧ bad.want 1 0 = .always ∧ bad.cache 0 = some .never ∧
    quiescent good [0] = true ∧ good.cache 0 = some .never ∧ good.alive 1 = false := by
  decide

end C04
