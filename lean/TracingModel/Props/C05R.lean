/-
C05, the reference-count sum — "closed … at the moment the last handle to it has been dropped, it is
no longer entered on any thread, and all of its children have closed - never earlier".

For every history of create / clone / drop / enter / exit on any threads (each thread's default being
the registry's own collector — the other case is finding F2), at every point and for every span that
is still in the registry:

    stored reference count  =  handles the program holds  +  threads it is entered on  +  children still open

and a span that has left the registry has none of the three.  Hence a span is reported closed exactly
when the last of them goes: never while a handle, an entered guard or an open child remains
(`closed_means_nothing_left`), and it does not linger once they are all gone (`nothing_left_means_gone`).
-/
import TracingModel.Props.C05

namespace C05
open TM.Registry

/-! ### the three things that hold a span open -/

/-- non-duplicate entries of `id` on one thread's stack (0 or 1 in reachable states) -/
def cnt (st : List Ctx) (id : Sid) : Nat := st.countP (fun c => c.id == id && !c.duplicate)

/-- on how many threads (of the finite set `ths` the history uses) the span is entered -/
def entered (ths : List Tid) (s : RState) (id : Sid) : Nat := (ths.map (fun t => cnt (s.stacks t) id)).sum

/-- how many spans still in the registry name `id` as their parent -/
def children (s : RState) (id : Sid) : Nat := s.slots.countP (fun sl => sl.present && sl.parent == some id)

/-- how many handles the program holds (ghost state: one per creation and per clone, minus one per drop) -/
def handles (h : List Nat) (id : Sid) : Nat := h.getD id 0

def expect (ths : List Tid) (s : RState) (h : List Nat) (id : Sid) : Nat :=
  handles h id + entered ths s id + children s id

/-! ### list lemmas -/

theorem sum_map_update (ths : List Tid) (hnd : ths.Nodup) (f : Tid → Nat) (t : Tid) (v : Nat) (ht : t ∈ ths) :
    (ths.map (fun x => if x = t then v else f x)).sum + f t = (ths.map f).sum + v := by
  induction ths with
  | nil => cases ht
  | cons a rest ih =>
    have hnd' : a ∉ rest ∧ rest.Nodup := by simpa using hnd
    by_cases e : a = t
    · subst e
      have hrest : rest.map (fun x => if x = a then v else f x) = rest.map f := by
        apply List.map_congr_left
        intro x hx
        have : x ≠ a := fun e => hnd'.1 (e ▸ hx)
        simp [this]
      simp only [List.map_cons, List.sum_cons, if_true, hrest]; omega
    · have ht' : t ∈ rest := by
        rcases List.mem_cons.mp ht with h | h
        · exact absurd h.symm e
        · exact h
      have := ih hnd'.2 ht'
      simp only [List.map_cons, List.sum_cons, e, if_false]; omega

theorem sum_map_same (ths : List Tid) (f g : Tid → Nat) (h : ∀ t ∈ ths, f t = g t) : (ths.map f).sum = (ths.map g).sum := by
  rw [List.map_congr_left h]

theorem countP_set {α} (p : α → Bool) (l : List α) (i : Nat) (a old : α) (h : l[i]? = some old) :
    (l.set i a).countP p + (if p old then 1 else 0) = l.countP p + (if p a then 1 else 0) := by
  induction l generalizing i with
  | nil => simp at h
  | cons x xs ih =>
    cases i with
    | zero =>
      simp only [List.getElem?_cons_zero, Option.some.injEq] at h
      subst h
      simp only [List.set_cons_zero, List.countP_cons]
      cases p x <;> cases p a <;> simp <;> omega
    | succ n =>
      simp only [List.getElem?_cons_succ] at h
      have := ih n h
      simp only [List.set_cons_succ, List.countP_cons]
      omega

theorem countP_append_one {α} (p : α → Bool) (l : List α) (a : α) : (l ++ [a]).countP p = l.countP p + (if p a then 1 else 0) := by
  simp [List.countP_append, List.countP_cons]

/-! ### the span stack -/

theorem cnt_push (st : List Ctx) (id j : Sid) :
    cnt (push st id).1 j = cnt st j + (if j = id ∧ (push st id).2 = true then 1 else 0) := by
  simp only [cnt, push, countP_append_one]
  by_cases e : j = id
  · subst e
    by_cases hd : (st.any fun c => c.id == j) = true
    · simp [hd]
    · have hd' : (st.any fun c => c.id == j) = false := by simpa using hd
      simp [hd']
  · have : (id == j) = false := by simpa using (fun h => e h.symm)
    simp [e, this]

theorem mem_push (st : List Ctx) (id : Sid) (c : Ctx) (h : c ∈ (push st id).1) : c ∈ st ∨ c.id = id := by
  simp only [push, List.mem_append, List.mem_singleton] at h
  rcases h with h | h
  · exact Or.inl h
  · exact Or.inr (by rw [h])

theorem removeLast_spec (id : Sid) (st : List Ctx) (c : Ctx) (rest : List Ctx) (h : removeLast id st = some (c, rest)) :
    c.id = id ∧ (∀ j, cnt st j = cnt rest j + (if c.id = j ∧ c.duplicate = false then 1 else 0)) ∧ (∀ x ∈ rest, x ∈ st) := by
  induction st generalizing c rest with
  | nil => simp [removeLast] at h
  | cons a as ih =>
    simp only [removeLast] at h
    cases hr : removeLast id as with
    | some p =>
      obtain ⟨x, rest'⟩ := p
      simp only [hr, Option.some.injEq, Prod.mk.injEq] at h
      obtain ⟨rfl, rfl⟩ := h
      obtain ⟨i1, i2, i3⟩ := ih x rest' hr
      refine ⟨i1, ?_, ?_⟩
      · intro j
        have := i2 j
        simp only [cnt, List.countP_cons] at this ⊢
        omega
      · intro y hy
        rcases List.mem_cons.mp hy with rfl | hy
        · simp
        · exact List.mem_cons_of_mem _ (i3 y hy)
    | none =>
      simp only [hr] at h
      by_cases e : a.id = id
      · simp only [e, if_true, Option.some.injEq, Prod.mk.injEq] at h
        obtain ⟨rfl, rfl⟩ := h
        refine ⟨e, ?_, fun y hy => List.mem_cons_of_mem _ hy⟩
        intro j
        simp only [cnt, List.countP_cons]
        by_cases ej : a.id = j
        · cases hd : a.duplicate <;> simp [ej, hd]
        · have : (a.id == j) = false := by simpa using ej
          simp [ej, this]
      · simp [e] at h

theorem pop_eq_none (st : List Ctx) (id : Sid) (h : removeLast id st = none) : pop st id = (st, false) := by simp [pop, h]
theorem pop_eq_some (st : List Ctx) (id : Sid) (c : Ctx) (rest : List Ctx) (h : removeLast id st = some (c, rest)) :
    pop st id = (rest, !c.duplicate) := by simp [pop, h]

theorem cnt_pop (st : List Ctx) (id j : Sid) :
    cnt (pop st id).1 j + (if j = id ∧ (pop st id).2 = true then 1 else 0) = cnt st j := by
  cases hr : removeLast id st with
  | none => rw [pop_eq_none st id hr]; simp
  | some p =>
    obtain ⟨c, rest⟩ := p
    obtain ⟨i1, i2, _⟩ := removeLast_spec id st c rest hr
    rw [pop_eq_some st id c rest hr]
    simp only []
    rw [i2 j, i1]
    by_cases e : j = id
    · subst e
      cases hd : c.duplicate <;> simp [hd]
    · have : ¬ id = j := fun h => e h.symm
      simp [e, this]

theorem mem_pop (st : List Ctx) (id : Sid) (c : Ctx) (h : c ∈ (pop st id).1) : c ∈ st := by
  cases hr : removeLast id st with
  | none => rw [pop_eq_none st id hr] at h; exact h
  | some p =>
    obtain ⟨x, rest⟩ := p
    rw [pop_eq_some st id x rest hr] at h
    exact (removeLast_spec id st x rest hr).2.2 c h

theorem current_mem (st : List Ctx) (p : Sid) (h : current st = some p) : ∃ c ∈ st, c.id = p ∧ c.duplicate = false := by
  simp only [current, Option.map_eq_some_iff] at h
  obtain ⟨c, hc, rfl⟩ := h
  have hm := List.mem_of_mem_head? hc
  simp only [List.mem_filter, List.mem_reverse] at hm
  exact ⟨c, hm.1, rfl, by simpa using hm.2⟩

theorem cnt_pos_of_mem (st : List Ctx) (c : Ctx) (h : c ∈ st) (hd : c.duplicate = false) : 1 ≤ cnt st c.id := by
  simp only [cnt]
  apply List.countP_pos_iff.mpr
  exact ⟨c, h, by simp [hd]⟩

/-! ### slots -/

theorem getElem?_setSlot' (s : RState) (i j : Sid) (sl : Slot) :
    (setSlot s i sl).slots[j]? = if i = j ∧ i < s.slots.length then some sl else s.slots[j]? := by
  simp only [setSlot, List.getElem?_set]
  by_cases h : i = j
  · subst h
    by_cases hl : i < s.slots.length
    · simp [hl]
    · simp [hl]
  · simp [h]

theorem lt_of_getElem? {α} (l : List α) (i : Nat) (a : α) (h : l[i]? = some a) : i < l.length := by
  rcases List.getElem?_eq_some_iff.mp h with ⟨hl, _⟩; exact hl

def isChildOf (j : Sid) (sl : Slot) : Bool := sl.present && sl.parent == some j

theorem children_setSlot (s : RState) (i : Sid) (new old : Slot) (h : s.slots[i]? = some old) (j : Sid) :
    children (setSlot s i new) j + (if isChildOf j old then 1 else 0) = children s j + (if isChildOf j new then 1 else 0) := by
  simp only [children, setSlot]
  exact countP_set (fun sl => sl.present && sl.parent == some j) s.slots i new old h

theorem entered_setSlot (ths : List Tid) (s : RState) (i : Sid) (sl : Slot) (j : Sid) :
    entered ths (setSlot s i sl) j = entered ths s j := rfl

/-! ### the accounting invariant, with at most one span holding one reference too many -/

structure RAcc (ths : List Tid) (s : RState) (h : List Nat) (x : Option Sid) : Prop where
  len : h.length = s.slots.length
  pres : ∀ (id : Sid) (sl : Slot), s.slots[id]? = some sl → sl.present = true →
      sl.refs = expect ths s h id + (if x = some id then 1 else 0) ∧ 1 ≤ sl.refs
  gone : ∀ (id : Sid) (sl : Slot), s.slots[id]? = some sl → sl.present = false →
      expect ths s h id = 0 ∧ x ≠ some id ∧ sl.refs = 0 ∧ sl.parent = none
  par : ∀ (id : Sid) (sl : Slot) (p : Sid), s.slots[id]? = some sl → sl.parent = some p → p < id
  stk : ∀ (t : Tid) (c : Ctx), c ∈ s.stacks t → c.id < s.slots.length
  own : ∀ t, s.dflt t = .own
  thr : ∀ t, t ∉ ths → s.stacks t = []
  xin : ∀ (id : Sid), x = some id → ∃ sl : Slot, s.slots[id]? = some sl ∧ sl.present = true

theorem RAcc.init (ths : List Tid) : RAcc ths RState.init [] none :=
  ⟨rfl, by simp [RState.init], by simp [RState.init], by simp [RState.init], by simp [RState.init],
   fun _ => rfl, fun _ _ => rfl, by intro id h; cases h⟩

/-- a present child keeps its parent present -/
theorem parent_present (ths : List Tid) (s : RState) (h : List Nat) (x : Option Sid) (a : RAcc ths s h x)
    (id : Sid) (sl : Slot) (p : Sid) (hs : s.slots[id]? = some sl) (hp : sl.present = true) (hpar : sl.parent = some p) :
    ∃ ps, s.slots[p]? = some ps ∧ ps.present = true ∧ 1 ≤ children s p := by
  have hlt := lt_of_getElem? _ _ _ hs
  have hplt : p < s.slots.length := Nat.lt_trans (a.par id sl p hs hpar) hlt
  have hch : 1 ≤ children s p := by
    simp only [children]
    apply List.countP_pos_iff.mpr
    exact ⟨sl, List.mem_of_getElem? hs, by simp [hp, hpar]⟩
  obtain ⟨ps, hps⟩ : ∃ ps, s.slots[p]? = some ps := ⟨s.slots[p], by simp [hplt]⟩
  cases hpp : ps.present with
  | true => exact ⟨ps, hps, hpp, hch⟩
  | false =>
    have := (a.gone p ps hps hpp).1
    simp only [expect] at this
    omega

theorem isChildOf_false_of_absent (j : Sid) (sl : Slot) (h : sl.present = false) : isChildOf j sl = false := by
  simp [isChildOf, h]

/-- `try_close` on the span that holds one reference too many restores exact accounting: either it just
decrements, or the span leaves the registry — which takes one child away from its parent, so the parent now
holds one too many, and so on up the chain (the parent is always an OLDER span: the cascade ends) -/
theorem tryClose_acc (ths : List Tid) (fuel : Nat) : ∀ (s : RState) (h : List Nat) (t : Tid) (id : Sid),
    RAcc ths s h (some id) → id < fuel → RAcc ths (tryClose fuel s t id) h none := by
  induction fuel with
  | zero => intro s h t id a hf; exact absurd hf (Nat.not_lt_zero _)
  | succ n ih =>
    intro s h t id a hf
    obtain ⟨sl, hs, hp⟩ := a.xin id rfl
    obtain ⟨hrefs, hge⟩ := a.pres id sl hs hp
    simp only [if_true] at hrefs
    have hlt := lt_of_getElem? _ _ _ hs
    have h0 : sl.refs ≠ 0 := by omega
    simp only [tryClose, hs, h0, if_false]
    by_cases h1 : sl.refs > 1
    · simp only [h1, if_true]
      have hch : ∀ j, children (setSlot s id { sl with refs := sl.refs - 1 }) j = children s j := by
        intro j
        have := children_setSlot s id { sl with refs := sl.refs - 1 } sl hs j
        have e : isChildOf j { sl with refs := sl.refs - 1 } = isChildOf j sl := rfl
        rw [e] at this; omega
      have hexp : ∀ j, expect ths (setSlot s id { sl with refs := sl.refs - 1 }) h j = expect ths s h j := by
        intro j; simp only [expect, hch j, entered_setSlot]
      refine ⟨by simpa [setSlot] using a.len, ?_, ?_, ?_, ?_, a.own, a.thr, by intro j hj; cases hj⟩
      · intro j x hx hxp
        rw [getElem?_setSlot'] at hx
        by_cases e : id = j ∧ id < s.slots.length
        · rw [if_pos e] at hx
          obtain ⟨rfl, _⟩ := e
          cases hx
          simp only [hexp]
          constructor
          · show sl.refs - 1 = expect ths s h id + (if (none : Option Sid) = some id then 1 else 0)
            simp; omega
          · show 1 ≤ sl.refs - 1
            omega
        · rw [if_neg e] at hx
          have hne : id ≠ j := fun e' => e ⟨e', hlt⟩
          obtain ⟨r1, r2⟩ := a.pres j x hx hxp
          have : (some id = some j) = False := by simp [hne]
          simp only [this, if_false] at r1
          exact ⟨by simp [hexp, r1], r2⟩
      · intro j x hx hxp
        rw [getElem?_setSlot'] at hx
        by_cases e : id = j ∧ id < s.slots.length
        · rw [if_pos e] at hx; cases hx; rw [hp] at hxp; cases hxp
        · rw [if_neg e] at hx
          obtain ⟨g1, _, g3, g4⟩ := a.gone j x hx hxp
          exact ⟨by rw [hexp]; exact g1, by simp, g3, g4⟩
      · intro j x p hx hpar
        rw [getElem?_setSlot'] at hx
        by_cases e : id = j ∧ id < s.slots.length
        · rw [if_pos e] at hx; obtain ⟨rfl, _⟩ := e; cases hx; exact a.par id sl p hs hpar
        · rw [if_neg e] at hx; exact a.par j x p hx hpar
      · intro t' c hc
        have := a.stk t' c hc
        simpa [setSlot] using this
    · simp only [h1, if_false]
      have hexp0 : expect ths s h id = 0 := by omega
      have hh0 : handles h id = 0 ∧ entered ths s id = 0 ∧ children s id = 0 := by
        simp only [expect] at hexp0; omega
      -- the state after clearing the slot
      let cleared : Slot := { refs := 0, parent := none, present := false }
      have hch : ∀ j, children (setSlot s id cleared) j + (if isChildOf j sl then 1 else 0) = children s j := by
        intro j
        have := children_setSlot s id cleared sl hs j
        have e : isChildOf j cleared = false := rfl
        rw [e] at this; simpa using this
      -- the general shape of the result for any new excess `x'` that is not `id`
      have mk : ∀ (x' : Option Sid) (cl : List Sid),
          (∀ j, j ≠ id → isChildOf j sl = true → x' = some j) →
          (∀ j, x' = some j → isChildOf j sl = true) →
          RAcc ths { (setSlot s id cleared) with closed := cl } h x' := by
        intro x' cl hx1 hx2
        have hxid : x' ≠ some id := by
          intro e
          have := hx2 id e
          simp only [isChildOf, hp, Bool.true_and, beq_iff_eq] at this
          exact Nat.lt_irrefl _ (a.par id sl id hs this)
        refine ⟨by simpa [setSlot] using a.len, ?_, ?_, ?_, ?_, a.own, a.thr, ?_⟩
        · intro j x hx hxp
          have hx' : (setSlot s id cleared).slots[j]? = some x := hx
          rw [getElem?_setSlot'] at hx'
          by_cases e : id = j ∧ id < s.slots.length
          · rw [if_pos e] at hx'; cases hx'; cases hxp
          · rw [if_neg e] at hx'
            have hne : id ≠ j := fun e' => e ⟨e', hlt⟩
            obtain ⟨r1, r2⟩ := a.pres j x hx' hxp
            have hf : (some id = some j) = False := by simp [hne]
            simp only [hf, if_false] at r1
            refine ⟨?_, r2⟩
            have hc := hch j
            show x.refs = handles h j + entered ths s j + children (setSlot s id cleared) j + (if x' = some j then 1 else 0)
            simp only [expect] at r1
            by_cases hcj : isChildOf j sl = true
            · have := hx1 j (fun e' => hne e'.symm) hcj
              simp only [hcj, if_true] at hc
              simp only [this, if_true]; omega
            · have hcj' : isChildOf j sl = false := by simpa using hcj
              have hxj : ¬ x' = some j := fun e' => by have := hx2 j e'; rw [hcj'] at this; cases this
              simp only [hcj', Bool.false_eq_true, if_false] at hc
              simp only [hxj, if_false]; omega
        · intro j x hx hxp
          have hx' : (setSlot s id cleared).slots[j]? = some x := hx
          rw [getElem?_setSlot'] at hx'
          by_cases e : id = j ∧ id < s.slots.length
          · rw [if_pos e] at hx'
            obtain ⟨rfl, _⟩ := e
            cases hx'
            refine ⟨?_, hxid, rfl, rfl⟩
            show handles h id + entered ths s id + children (setSlot s id cleared) id = 0
            have := hch id
            omega
          · rw [if_neg e] at hx'
            have hne : id ≠ j := fun e' => e ⟨e', hlt⟩
            obtain ⟨g1, _, g3, g4⟩ := a.gone j x hx' hxp
            refine ⟨?_, ?_, g3, g4⟩
            · show handles h j + entered ths s j + children (setSlot s id cleared) j = 0
              have := hch j
              simp only [expect] at g1
              omega
            · intro e'
              have hcj := hx2 j e'
              -- `sl` is a present child of `j`, so `j` is present: contradiction
              simp only [isChildOf, hp, Bool.true_and, beq_iff_eq] at hcj
              obtain ⟨ps, hps, hpp, _⟩ := parent_present ths s h (some id) a id sl j hs hp hcj
              rw [hx'] at hps; cases hps; rw [hxp] at hpp; cases hpp
        · intro j x p hx hpar
          have hx' : (setSlot s id cleared).slots[j]? = some x := hx
          rw [getElem?_setSlot'] at hx'
          by_cases e : id = j ∧ id < s.slots.length
          · rw [if_pos e] at hx'; cases hx'; cases hpar
          · rw [if_neg e] at hx'; exact a.par j x p hx' hpar
        · intro t' c hc
          have := a.stk t' c hc
          simpa [setSlot] using this
        · intro j hj
          have hcj := hx2 j hj
          simp only [isChildOf, hp, Bool.true_and, beq_iff_eq] at hcj
          obtain ⟨ps, hps, hpp, _⟩ := parent_present ths s h (some id) a id sl j hs hp hcj
          have hne : id ≠ j := by
            intro e'; subst e'; exact Nat.lt_irrefl _ (a.par id sl id hs hcj)
          refine ⟨ps, ?_, hpp⟩
          show (setSlot s id cleared).slots[j]? = some ps
          rw [getElem?_setSlot']; simp [hne, hps]
      cases hpar : sl.parent with
      | none =>
        simp only []
        apply mk none
        · intro j _ hcj; simp [isChildOf, hpar] at hcj
        · intro j hj; cases hj
      | some p =>
        simp only [a.own t]
        have hplt : p < id := a.par id sl p hs hpar
        apply ih
        · apply mk (some p)
          · intro j _ hcj
            simp only [isChildOf, hp, hpar, Bool.true_and, beq_iff_eq, Option.some.injEq] at hcj
            rw [hcj]
          · intro j hj
            cases hj
            simp [isChildOf, hp, hpar]
        · exact Nat.lt_of_lt_of_le hplt (Nat.lt_succ_iff.mp hf)

/-! ### the program's side: handles (ghost), and which operations a program can perform -/

def gstep (s : RState) (h : List Nat) : Op → RState × List Nat
  | .newSpan t k => (newSpan s t k, h ++ [1])
  | .cloneHandle id => (cloneRef s id, h.set id (handles h id + 1))
  | .dropHandle t id => (dropHandle s t id, h.set id (handles h id - 1))
  | .enter t id => (enter s t id, h)
  | .exit t id => (exit s t id, h)
  | .setDflt t d => ({ s with dflt := update s.dflt t d }, h)

theorem gstep_fst (s : RState) (h : List Nat) (op : Op) : (gstep s h op).1 = step s op := by
  cases op <;> rfl

/-- what a program can do: clone / drop / enter through a handle it holds, name a live span as explicit parent,
act on one of the threads of the history; every thread's default stays the registry's own collector (else: F2) -/
def okOp (ths : List Tid) (s : RState) (h : List Nat) : Op → Prop
  | .newSpan t k => t ∈ ths ∧ (match k with
      | .explicit p => ∃ sl : Slot, s.slots[p]? = some sl ∧ sl.present = true
      | _ => True)
  | .cloneHandle id => 1 ≤ handles h id
  | .dropHandle t id => t ∈ ths ∧ 1 ≤ handles h id
  | .enter t id => t ∈ ths ∧ 1 ≤ handles h id
  | .exit t _ => t ∈ ths
  | .setDflt _ d => d = .own

theorem handles_set (h : List Nat) (id j : Nat) (v : Nat) :
    handles (h.set id v) j = if j = id ∧ id < h.length then v else handles h j := by
  simp only [handles, List.getD_eq_getElem?_getD, List.getElem?_set]
  by_cases e : id = j
  · subst e
    by_cases hl : id < h.length
    · simp [hl]
    · simp [hl]
  · have : ¬ j = id := fun e' => e e'.symm
    simp [e, this]

theorem handles_append (h : List Nat) (j : Nat) :
    handles (h ++ [1]) j = if j = h.length then 1 else handles h j := by
  simp only [handles, List.getD_eq_getElem?_getD]
  by_cases e : j = h.length
  · subst e; simp
  · by_cases hl : j < h.length
    · simp [e, List.getElem?_append_left hl]
    · have : h.length < j := by omega
      have h2 : (h ++ [1])[j]? = none := by
        apply List.getElem?_eq_none; simp; omega
      have h3 : h[j]? = none := List.getElem?_eq_none (by omega)
      simp [e, h2, h3]

theorem lt_of_handles_pos (h : List Nat) (id : Nat) (hp : 1 ≤ handles h id) : id < h.length := by
  by_cases hl : id < h.length
  · exact hl
  · have : h[id]? = none := List.getElem?_eq_none (by omega)
    simp [handles, List.getD_eq_getElem?_getD, this] at hp

/-- a span the program holds a handle to is in the registry -/
theorem present_of_handle (ths : List Tid) (s : RState) (h : List Nat) (a : RAcc ths s h none) (id : Sid) (hp : 1 ≤ handles h id) :
    ∃ sl : Slot, s.slots[id]? = some sl ∧ sl.present = true := by
  have hl : id < s.slots.length := by rw [← a.len]; exact lt_of_handles_pos h id hp
  refine ⟨s.slots[id], by simp [hl], ?_⟩
  cases hpp : (s.slots[id]).present with
  | true => rfl
  | false =>
    have := (a.gone id s.slots[id] (by simp [hl]) hpp).1
    simp only [expect] at this
    omega

theorem entered_update (ths : List Tid) (hnd : ths.Nodup) (s : RState) (t : Tid) (ht : t ∈ ths) (st' : List Ctx) (j : Sid) :
    entered ths { s with stacks := update s.stacks t st' } j + cnt (s.stacks t) j = entered ths s j + cnt st' j := by
  simp only [entered]
  have := sum_map_update ths hnd (fun x => cnt (s.stacks x) j) t (cnt st' j) ht
  have e : (ths.map fun x => cnt (({ s with stacks := update s.stacks t st' } : RState).stacks x) j) =
      ths.map (fun x => if x = t then cnt st' j else cnt (s.stacks x) j) := by
    apply List.map_congr_left
    intro x _
    simp only [update]
    by_cases ex : x = t <;> simp [ex]
  rw [e]; exact this

/-! ### building blocks: one more reference, one reference too many, stacks only -/

theorem acc_inc (ths : List Tid) (s : RState) (h : List Nat) (a : RAcc ths s h none) (id : Sid) (sl : Slot)
    (hs : s.slots[id]? = some sl) (hp : sl.present = true) (stk' : Tid → List Ctx) (h' : List Nat)
    (hlen : h'.length = h.length)
    (hstk : ∀ (t : Tid) (c : Ctx), c ∈ stk' t → c.id < s.slots.length)
    (hthr : ∀ t, t ∉ ths → stk' t = [])
    (hexp : ∀ j, handles h' j + entered ths { s with stacks := stk' } j = handles h j + entered ths s j + (if j = id then 1 else 0)) :
    RAcc ths (setSlot { s with stacks := stk' } id { sl with refs := sl.refs + 1 }) h' none := by
  have hlt := lt_of_getElem? _ _ _ hs
  have hs0 : ({ s with stacks := stk' } : RState).slots[id]? = some sl := hs
  have hch : ∀ j, children (setSlot { s with stacks := stk' } id { sl with refs := sl.refs + 1 }) j = children s j := by
    intro j
    have := children_setSlot { s with stacks := stk' } id { sl with refs := sl.refs + 1 } sl hs0 j
    have e : isChildOf j { sl with refs := sl.refs + 1 } = isChildOf j sl := rfl
    rw [e] at this
    have e2 : children ({ s with stacks := stk' } : RState) j = children s j := rfl
    omega
  have hexp' : ∀ j, expect ths (setSlot { s with stacks := stk' } id { sl with refs := sl.refs + 1 }) h' j =
      expect ths s h j + (if j = id then 1 else 0) := by
    intro j
    simp only [expect, hch j, entered_setSlot]
    have := hexp j
    omega
  refine ⟨by simpa [setSlot, hlen] using a.len, ?_, ?_, ?_, ?_, a.own, hthr, by intro j hj; cases hj⟩
  · intro j x hx hxp
    rw [getElem?_setSlot'] at hx
    by_cases e : id = j ∧ id < ({ s with stacks := stk' } : RState).slots.length
    · rw [if_pos e] at hx
      obtain ⟨rfl, _⟩ := e
      cases hx
      obtain ⟨r1, r2⟩ := a.pres id sl hs hp
      rw [hexp' id]
      constructor
      · show sl.refs + 1 = expect ths s h id + (if id = id then 1 else 0) + (if (none : Option Sid) = some id then 1 else 0)
        simp at r1 ⊢; omega
      · show 1 ≤ sl.refs + 1
        omega
    · rw [if_neg e] at hx
      have hne : ¬ j = id := fun e' => e ⟨e'.symm, hlt⟩
      obtain ⟨r1, r2⟩ := a.pres j x hx hxp
      rw [hexp' j]
      simp only [hne, if_false] at r1 ⊢
      exact ⟨by simpa using r1, r2⟩
  · intro j x hx hxp
    rw [getElem?_setSlot'] at hx
    by_cases e : id = j ∧ id < ({ s with stacks := stk' } : RState).slots.length
    · rw [if_pos e] at hx; cases hx; rw [hp] at hxp; cases hxp
    · rw [if_neg e] at hx
      have hne : ¬ j = id := fun e' => e ⟨e'.symm, hlt⟩
      obtain ⟨g1, _, g3, g4⟩ := a.gone j x hx hxp
      exact ⟨by rw [hexp' j]; simp [hne, g1], by simp, g3, g4⟩
  · intro j x p hx hpar
    rw [getElem?_setSlot'] at hx
    by_cases e : id = j ∧ id < ({ s with stacks := stk' } : RState).slots.length
    · rw [if_pos e] at hx; obtain ⟨rfl, _⟩ := e; cases hx; exact a.par id sl p hs hpar
    · rw [if_neg e] at hx; exact a.par j x p hx hpar
  · intro t c hc
    have := hstk t c hc
    simpa [setSlot] using this

theorem acc_stacks (ths : List Tid) (s : RState) (h : List Nat) (a : RAcc ths s h none) (stk' : Tid → List Ctx)
    (hstk : ∀ (t : Tid) (c : Ctx), c ∈ stk' t → c.id < s.slots.length)
    (hthr : ∀ t, t ∉ ths → stk' t = [])
    (hent : ∀ j, entered ths { s with stacks := stk' } j = entered ths s j) :
    RAcc ths { s with stacks := stk' } h none := by
  have hexp : ∀ j, expect ths { s with stacks := stk' } h j = expect ths s h j := by
    intro j
    have e2 : children ({ s with stacks := stk' } : RState) j = children s j := rfl
    simp only [expect, hent j, e2]
  refine ⟨a.len, ?_, ?_, a.par, hstk, a.own, hthr, by intro j hj; cases hj⟩
  · intro j x hx hxp
    have := a.pres j x hx hxp
    rw [hexp j]; exact this
  · intro j x hx hxp
    have := a.gone j x hx hxp
    rw [hexp j]; exact this

theorem acc_excess (ths : List Tid) (s : RState) (h : List Nat) (a : RAcc ths s h none) (id : Sid) (sl : Slot)
    (hs : s.slots[id]? = some sl) (hp : sl.present = true) (stk' : Tid → List Ctx) (h' : List Nat)
    (hlen : h'.length = h.length)
    (hstk : ∀ (t : Tid) (c : Ctx), c ∈ stk' t → c.id < s.slots.length)
    (hthr : ∀ t, t ∉ ths → stk' t = [])
    (hexp : ∀ j, handles h' j + entered ths { s with stacks := stk' } j + (if j = id then 1 else 0) = handles h j + entered ths s j) :
    RAcc ths { s with stacks := stk' } h' (some id) := by
  have hexp' : ∀ j, expect ths { s with stacks := stk' } h' j + (if j = id then 1 else 0) = expect ths s h j := by
    intro j
    have e2 : children ({ s with stacks := stk' } : RState) j = children s j := rfl
    simp only [expect, e2]
    have := hexp j
    omega
  refine ⟨by rw [hlen]; exact a.len, ?_, ?_, a.par, hstk, a.own, hthr, ?_⟩
  · intro j x hx hxp
    obtain ⟨r1, r2⟩ := a.pres j x hx hxp
    have := hexp' j
    refine ⟨?_, r2⟩
    by_cases e : j = id
    · subst e; simp at r1 this ⊢; omega
    · have hne : ¬ id = j := fun e' => e e'.symm
      simp [e, hne] at r1 this ⊢; omega
  · intro j x hx hxp
    obtain ⟨g1, _, g3, g4⟩ := a.gone j x hx hxp
    have hne : ¬ j = id := by
      intro e; subst e; rw [hs] at hx; cases hx; rw [hp] at hxp; cases hxp
    have := hexp' j
    simp only [hne, if_false] at this
    refine ⟨by omega, ?_, g3, g4⟩
    intro e; cases e; exact hne rfl
  · intro j hj
    cases hj
    exact ⟨sl, hs, hp⟩

theorem acc_bump (ths : List Tid) (s : RState) (h : List Nat) (a : RAcc ths s h none) (p : Sid) (ps : Slot)
    (hs : s.slots[p]? = some ps) (hp : ps.present = true) :
    RAcc ths (setSlot s p { ps with refs := ps.refs + 1 }) h (some p) := by
  have hlt := lt_of_getElem? _ _ _ hs
  have hch : ∀ j, children (setSlot s p { ps with refs := ps.refs + 1 }) j = children s j := by
    intro j
    have := children_setSlot s p { ps with refs := ps.refs + 1 } ps hs j
    have e : isChildOf j { ps with refs := ps.refs + 1 } = isChildOf j ps := rfl
    rw [e] at this; omega
  have hexp : ∀ j, expect ths (setSlot s p { ps with refs := ps.refs + 1 }) h j = expect ths s h j := by
    intro j; simp only [expect, hch j, entered_setSlot]
  refine ⟨by simpa [setSlot] using a.len, ?_, ?_, ?_, ?_, a.own, a.thr, ?_⟩
  · intro j x hx hxp
    rw [getElem?_setSlot'] at hx
    by_cases e : p = j ∧ p < s.slots.length
    · rw [if_pos e] at hx
      obtain ⟨rfl, _⟩ := e
      cases hx
      obtain ⟨r1, r2⟩ := a.pres p ps hs hp
      rw [hexp p]
      constructor
      · show ps.refs + 1 = expect ths s h p + (if some p = some p then 1 else 0)
        simp at r1 ⊢; omega
      · show 1 ≤ ps.refs + 1
        omega
    · rw [if_neg e] at hx
      have hne : ¬ p = j := fun e' => e ⟨e', hlt⟩
      obtain ⟨r1, r2⟩ := a.pres j x hx hxp
      rw [hexp j]
      simp at r1
      exact ⟨by simp [hne, r1], r2⟩
  · intro j x hx hxp
    rw [getElem?_setSlot'] at hx
    by_cases e : p = j ∧ p < s.slots.length
    · rw [if_pos e] at hx; cases hx; rw [hp] at hxp; cases hxp
    · rw [if_neg e] at hx
      have hne : ¬ p = j := fun e' => e ⟨e', hlt⟩
      obtain ⟨g1, _, g3, g4⟩ := a.gone j x hx hxp
      exact ⟨by rw [hexp j]; exact g1, by simp [hne], g3, g4⟩
  · intro j x q hx hpar
    rw [getElem?_setSlot'] at hx
    by_cases e : p = j ∧ p < s.slots.length
    · rw [if_pos e] at hx; obtain ⟨rfl, _⟩ := e; cases hx; exact a.par p ps q hs hpar
    · rw [if_neg e] at hx; exact a.par j x q hx hpar
  · intro t c hc
    have := a.stk t c hc
    simpa [setSlot] using this
  · intro j hj
    cases hj
    refine ⟨{ ps with refs := ps.refs + 1 }, ?_, hp⟩
    rw [getElem?_setSlot']; simp [hlt]

theorem sum_zero_of_all_zero (l : List Nat) (h : ∀ v ∈ l, v = 0) : l.sum = 0 := by
  induction l with
  | nil => rfl
  | cons a as ih =>
    have ha := h a (by simp)
    have := ih (fun v hv => h v (List.mem_cons_of_mem _ hv))
    simp [ha, this]

theorem cnt_zero_of_lt (st : List Ctx) (n : Nat) (h : ∀ c ∈ st, c.id < n) : cnt st n = 0 := by
  simp only [cnt]
  apply List.countP_eq_zero.mpr
  intro c hc
  have hne : ¬ c.id = n := Nat.ne_of_lt (h c hc)
  simp [hne]

/-- a new span: reference count 1 for its first handle; if it has a parent, the parent's extra reference is now accounted
for by one more open child -/
theorem acc_append (ths : List Tid) (s : RState) (h : List Nat) (x : Option Sid) (a : RAcc ths s h x) :
    RAcc ths { s with slots := s.slots ++ [{ refs := 1, parent := x, present := true }] } (h ++ [1]) none := by
  obtain ⟨n, hnlen⟩ : ∃ n : Nat, s.slots.length = n := ⟨_, rfl⟩
  have hn : h.length = n := by rw [← hnlen]; exact a.len
  have hchild : ∀ j : Nat, children { s with slots := s.slots ++ [{ refs := 1, parent := x, present := true }] } j =
      children s j + (if x = some j then 1 else 0) := by
    intro j
    simp only [children, countP_append_one]
    by_cases e : x = some j
    · simp [e]
    · have : (x == some j) = false := by simpa using e
      simp [e, this]
  have hent : ∀ j, entered ths { s with slots := s.slots ++ [{ refs := 1, parent := x, present := true }] } j = entered ths s j :=
    fun _ => rfl
  have hxlt : ∀ p : Nat, x = some p → p < n := by
    intro p hp
    obtain ⟨ps, hps, _⟩ := a.xin p hp
    rw [← hnlen]; exact lt_of_getElem? _ _ _ hps
  have hentn : entered ths s n = 0 := by
    simp only [entered]
    apply sum_zero_of_all_zero
    intro v hv
    simp only [List.mem_map] at hv
    obtain ⟨t, _, rfl⟩ := hv
    exact cnt_zero_of_lt _ _ (fun c hc => by rw [← hnlen]; exact a.stk t c hc)
  have hchn : children s n = 0 := by
    simp only [children]
    apply List.countP_eq_zero.mpr
    intro sl hsl
    obtain ⟨i, hi⟩ := List.getElem?_of_mem hsl
    intro hc
    simp only [Bool.and_eq_true, beq_iff_eq] at hc
    have h1 := a.par i sl n hi hc.2
    have h2 := lt_of_getElem? _ _ _ hi
    rw [hnlen] at h2
    exact absurd (Nat.lt_trans h1 h2) (Nat.lt_irrefl _)
  have hget : ∀ (j : Nat) (sl : Slot),
      ({ s with slots := s.slots ++ [{ refs := 1, parent := x, present := true }] } : RState).slots[j]? = some sl →
      (j < n ∧ s.slots[j]? = some sl) ∨ (j = n ∧ sl = { refs := 1, parent := x, present := true }) := by
    intro j sl hj
    have hj' : (s.slots ++ [{ refs := 1, parent := x, present := true }])[j]? = some sl := hj
    by_cases hl : j < n
    · rw [List.getElem?_append_left (by rw [hnlen]; exact hl)] at hj'; exact Or.inl ⟨hl, hj'⟩
    · have hge : s.slots.length ≤ j := by rw [hnlen]; exact Nat.le_of_not_lt hl
      rw [List.getElem?_append_right hge] at hj'
      cases hk : j - s.slots.length with
      | zero =>
        rw [hk] at hj'
        simp at hj'
        exact Or.inr ⟨by omega, hj'.symm⟩
      | succ k => rw [hk] at hj'; simp at hj'
  refine ⟨by show (h ++ [1]).length = (s.slots ++ [_]).length; simp; omega, ?_, ?_, ?_, ?_, a.own, a.thr, by intro j hj; cases hj⟩
  · intro j sl hj hjp
    rcases hget j sl hj with ⟨hl, hold⟩ | ⟨hjn, rfl⟩
    · obtain ⟨r1, r2⟩ := a.pres j sl hold hjp
      refine ⟨?_, r2⟩
      have hne : ¬ j = h.length := by rw [hn]; exact Nat.ne_of_lt hl
      simp only [expect, hchild j, hent j, handles_append, hne, if_false] at r1 ⊢
      simp; omega
    · refine ⟨?_, by simp⟩
      rw [hjn]
      have hxn : ¬ x = some n := fun e => absurd (hxlt n e) (Nat.lt_irrefl _)
      simp only [expect, hchild n, hent n, handles_append, hn, hentn, hchn, hxn, if_true, if_false]
      simp
  · intro j sl hj hjp
    rcases hget j sl hj with ⟨hl, hold⟩ | ⟨_, rfl⟩
    · obtain ⟨g1, g2, g3, g4⟩ := a.gone j sl hold hjp
      have hne : ¬ j = h.length := by rw [hn]; exact Nat.ne_of_lt hl
      refine ⟨?_, by simp, g3, g4⟩
      simp only [expect, hchild j, hent j, handles_append, hne, if_false] at g1 ⊢
      have : ¬ x = some j := g2
      simp [this]; omega
    · cases hjp
  · intro j sl p hj hpar
    rcases hget j sl hj with ⟨_, hold⟩ | ⟨hjn, rfl⟩
    · exact a.par j sl p hold hpar
    · rw [hjn]; exact hxlt p hpar
  · intro t c hc
    have := a.stk t c hc
    show c.id < (s.slots ++ [_]).length
    rw [List.length_append]
    exact Nat.lt_add_right _ this

/-! ### every operation keeps the accounting exact -/

theorem le_sum_of_mem (l : List Nat) (v : Nat) (h : v ∈ l) : v ≤ l.sum := by
  induction l with
  | nil => cases h
  | cons a as ih =>
    rcases List.mem_cons.mp h with rfl | h
    · simp
    · have := ih h; simp; omega

theorem cnt_le_entered (ths : List Tid) (s : RState) (t : Tid) (ht : t ∈ ths) (id : Sid) :
    cnt (s.stacks t) id ≤ entered ths s id := by
  simp only [entered]
  apply le_sum_of_mem
  simp only [List.mem_map]
  exact ⟨t, ht, rfl⟩

/-- a span that is entered on some thread is in the registry -/
theorem present_of_entered (ths : List Tid) (s : RState) (h : List Nat) (a : RAcc ths s h none) (t : Tid) (ht : t ∈ ths)
    (id : Sid) (hc : 1 ≤ cnt (s.stacks t) id) : ∃ sl : Slot, s.slots[id]? = some sl ∧ sl.present = true := by
  have hmem : ∃ c ∈ s.stacks t, c.id = id := by
    simp only [cnt] at hc
    obtain ⟨c, hcm, hcp⟩ := List.countP_pos_iff.mp hc
    simp only [Bool.and_eq_true, beq_iff_eq] at hcp
    exact ⟨c, hcm, hcp.1⟩
  obtain ⟨c, hcm, rfl⟩ := hmem
  have hl := a.stk t c hcm
  refine ⟨s.slots[c.id], by simp [hl], ?_⟩
  cases hpp : (s.slots[c.id]).present with
  | true => rfl
  | false =>
    have := (a.gone c.id s.slots[c.id] (by simp [hl]) hpp).1
    have := cnt_le_entered ths s t ht c.id
    simp only [expect] at *
    omega

theorem update_same {α} (f : Nat → α) (k : Nat) (v : α) : update f k v k = v := by simp [update]
theorem update_other {α} (f : Nat → α) (k x : Nat) (v : α) (h : x ≠ k) : update f k v x = f x := by simp [update, h]

theorem step_acc (ths : List Tid) (hnd : ths.Nodup) (s : RState) (h : List Nat) (a : RAcc ths s h none) (op : Op)
    (ok : okOp ths s h op) : RAcc ths (gstep s h op).1 (gstep s h op).2 none := by
  cases op with
  | cloneHandle id =>
    obtain ⟨sl, hs, hp⟩ := present_of_handle ths s h a id ok
    have h0 : sl.refs ≠ 0 := by have := (a.pres id sl hs hp).2; omega
    have hl := lt_of_handles_pos h id ok
    simp only [gstep, cloneRef, hs, h0, if_false]
    have := acc_inc ths s h a id sl hs hp s.stacks (h.set id (handles h id + 1)) (by simp) a.stk a.thr (by
      intro j
      have e : entered ths ({ s with stacks := s.stacks } : RState) j = entered ths s j := rfl
      rw [e, handles_set]
      by_cases ej : j = id
      · subst ej; simp [hl]; omega
      · simp [ej])
    exact this
  | dropHandle t id =>
    obtain ⟨ht, hh⟩ := ok
    obtain ⟨sl, hs, hp⟩ := present_of_handle ths s h a id hh
    have hl := lt_of_handles_pos h id hh
    simp only [gstep, dropHandle]
    have ex := acc_excess ths s h a id sl hs hp s.stacks (h.set id (handles h id - 1)) (by simp) a.stk a.thr (by
      intro j
      have e : entered ths ({ s with stacks := s.stacks } : RState) j = entered ths s j := rfl
      rw [e, handles_set]
      by_cases ej : j = id
      · subst ej; simp [hl]; omega
      · simp [ej])
    have := tryClose_acc ths (s.slots.length + 1) { s with stacks := s.stacks } (h.set id (handles h id - 1)) t id ex
      (Nat.lt_succ_of_lt (lt_of_getElem? _ _ _ hs))
    exact this
  | enter t id =>
    obtain ⟨ht, hh⟩ := ok
    obtain ⟨sl, hs, hp⟩ := present_of_handle ths s h a id hh
    have hidlt := lt_of_getElem? _ _ _ hs
    have h0 : sl.refs ≠ 0 := by have := (a.pres id sl hs hp).2; omega
    have hstk : ∀ (t' : Tid) (c : Ctx), c ∈ update s.stacks t (push (s.stacks t) id).1 t' → c.id < s.slots.length := by
      intro t' c hc
      by_cases e : t' = t
      · subst e
        rw [update_same] at hc
        rcases mem_push _ _ _ hc with hc | hc
        · exact a.stk t' c hc
        · rw [hc]; exact hidlt
      · rw [update_other _ _ _ _ e] at hc; exact a.stk t' c hc
    have hthr : ∀ t', t' ∉ ths → update s.stacks t (push (s.stacks t) id).1 t' = [] := by
      intro t' ht'
      have : t' ≠ t := fun e => ht' (e ▸ ht)
      rw [update_other _ _ _ _ this]; exact a.thr t' ht'
    have hent : ∀ j, entered ths { s with stacks := update s.stacks t (push (s.stacks t) id).1 } j =
        entered ths s j + (if j = id ∧ (push (s.stacks t) id).2 = true then 1 else 0) := by
      intro j
      have := entered_update ths hnd s t ht (push (s.stacks t) id).1 j
      rw [cnt_push] at this
      omega
    simp only [gstep, enter]
    by_cases hr : (push (s.stacks t) id).2 = true
    · simp only [hr, if_true, cloneRef]
      have hs1 : ({ s with stacks := update s.stacks t (push (s.stacks t) id).1 } : RState).slots[id]? = some sl := hs
      simp only [hs1, h0, if_false]
      exact acc_inc ths s h a id sl hs hp _ h rfl hstk hthr (by
        intro j
        rw [hent j]
        by_cases ej : j = id
        · simp [ej, hr]; omega
        · simp [ej])
    · simp only [hr, if_false]
      exact acc_stacks ths s h a _ hstk hthr (by intro j; rw [hent j]; simp [hr])
  | exit t id =>
    have ht : t ∈ ths := ok
    have hstk : ∀ (t' : Tid) (c : Ctx), c ∈ update s.stacks t (pop (s.stacks t) id).1 t' → c.id < s.slots.length := by
      intro t' c hc
      by_cases e : t' = t
      · subst e
        rw [update_same] at hc
        exact a.stk t' c (mem_pop _ _ _ hc)
      · rw [update_other _ _ _ _ e] at hc; exact a.stk t' c hc
    have hthr : ∀ t', t' ∉ ths → update s.stacks t (pop (s.stacks t) id).1 t' = [] := by
      intro t' ht'
      have : t' ≠ t := fun e => ht' (e ▸ ht)
      rw [update_other _ _ _ _ this]; exact a.thr t' ht'
    have hent : ∀ j, entered ths { s with stacks := update s.stacks t (pop (s.stacks t) id).1 } j +
        (if j = id ∧ (pop (s.stacks t) id).2 = true then 1 else 0) = entered ths s j := by
      intro j
      have := entered_update ths hnd s t ht (pop (s.stacks t) id).1 j
      have hp := cnt_pop (s.stacks t) id j
      omega
    simp only [gstep, exit]
    by_cases hr : (pop (s.stacks t) id).2 = true
    · simp only [hr, if_true, closeViaDefault]
      have hown : s.dflt t = .own := a.own t
      simp only [hown]
      have hc1 : 1 ≤ cnt (s.stacks t) id := by
        have := cnt_pop (s.stacks t) id id
        simp [hr] at this
        omega
      obtain ⟨sl, hs, hp⟩ := present_of_entered ths s h a t ht id hc1
      have ex := acc_excess ths s h a id sl hs hp _ h rfl hstk hthr (by
        intro j
        have := hent j
        by_cases ej : j = id
        · simp [ej, hr] at this ⊢; omega
        · simp [ej] at this ⊢; omega)
      exact tryClose_acc ths _ _ h t id ex (Nat.lt_succ_of_lt (lt_of_getElem? _ _ _ hs))
    · simp only [hr, if_false]
      exact acc_stacks ths s h a _ hstk hthr (by intro j; have := hent j; simp [hr] at this; exact this)
  | setDflt t d =>
    have hd : d = .own := ok
    subst hd
    simp only [gstep]
    refine ⟨a.len, a.pres, a.gone, a.par, a.stk, ?_, a.thr, a.xin⟩
    intro t'
    show update s.dflt t Dflt.own t' = Dflt.own
    by_cases e : t' = t
    · subst e; exact update_same _ _ _
    · rw [update_other _ _ _ _ e]; exact a.own t'
  | newSpan t k =>
    obtain ⟨ht, hk⟩ := ok
    simp only [gstep, newSpan]
    cases hpar : resolveParent s t k with
    | none =>
      simp only [refParent]
      exact acc_append ths s h none a
    | some p =>
      have hpres : ∃ ps : Slot, s.slots[p]? = some ps ∧ ps.present = true := by
        cases k with
        | root => simp [resolveParent] at hpar
        | contextual =>
          simp only [resolveParent] at hpar
          obtain ⟨c, hcm, hcid, hcd⟩ := current_mem _ _ hpar
          have := cnt_pos_of_mem _ c hcm hcd
          rw [hcid] at this
          exact present_of_entered ths s h a t ht p this
        | explicit q =>
          simp only [resolveParent, Option.some.injEq] at hpar
          subst hpar
          exact hk
      obtain ⟨ps, hps, hpp⟩ := hpres
      have h0 : ps.refs ≠ 0 := by have := (a.pres p ps hps hpp).2; omega
      simp only [refParent, cloneRef, hps, h0, if_false]
      exact acc_append ths _ h (some p) (acc_bump ths s h a p ps hps hpp)

/-! ### histories -/

def grun : RState → List Nat → List Op → RState × List Nat
  | s, h, [] => (s, h)
  | s, h, op :: ops => grun (gstep s h op).1 (gstep s h op).2 ops

/-- every operation of the history is one the program can perform at that point -/
def okRun (ths : List Tid) : RState → List Nat → List Op → Prop
  | _, _, [] => True
  | s, h, op :: ops => okOp ths s h op ∧ okRun ths (gstep s h op).1 (gstep s h op).2 ops

theorem grun_fst (ops : List Op) (s : RState) (h : List Nat) : (grun s h ops).1 = ops.foldl step s := by
  induction ops generalizing s h with
  | nil => rfl
  | cons op ops ih => simp only [grun, List.foldl_cons]; rw [ih, gstep_fst]

theorem run_acc (ths : List Tid) (hnd : ths.Nodup) (ops : List Op) (s : RState) (h : List Nat) (a : RAcc ths s h none)
    (ok : okRun ths s h ops) : RAcc ths (grun s h ops).1 (grun s h ops).2 none := by
  induction ops generalizing s h with
  | nil => exact a
  | cons op ops ih => exact ih _ _ (step_acc ths hnd s h a op ok.1) ok.2

/-- **C05.refcount_sum** — in EVERY history of create (any parent kind) / clone / drop / enter / exit on any finite set of
threads whose defaults are the registry's own collector, at every point and for every span still in the registry:
its stored reference count is exactly  handles held + threads entered on + children still open  (and at least 1) -/
theorem refcount_sum (ths : List Tid) (hnd : ths.Nodup) (ops : List Op) (ok : okRun ths RState.init [] ops)
    (id : Sid) (sl : Slot) (hs : (ops.foldl step RState.init).slots[id]? = some sl) (hp : sl.present = true) :
    sl.refs = handles (grun RState.init [] ops).2 id + entered ths (ops.foldl step RState.init) id
                + children (ops.foldl step RState.init) id ∧ 1 ≤ sl.refs := by
  have a := run_acc ths hnd ops RState.init [] (RAcc.init ths) ok
  rw [grun_fst] at a
  have := a.pres id sl hs hp
  simpa [expect] using this

/-- **C05.closed_means_nothing_left** — never earlier: a span that has been reported closed has no handle left, is entered
on no thread and has no open child (and this stays so: the statement is about every later point of the history too) -/
theorem closed_means_nothing_left (ths : List Tid) (hnd : ths.Nodup) (ops : List Op) (ok : okRun ths RState.init [] ops)
    (id : Sid) (hc : id ∈ (ops.foldl step RState.init).closed) :
    handles (grun RState.init [] ops).2 id = 0 ∧ entered ths (ops.foldl step RState.init) id = 0 ∧
    children (ops.foldl step RState.init) id = 0 := by
  have a := run_acc ths hnd ops RState.init [] (RAcc.init ths) ok
  rw [grun_fst] at a
  obtain ⟨sl, hs, hpp, _⟩ := (close_once ops).2 id hc
  have := (a.gone id sl hs hpp).1
  simp only [expect] at this
  omega

/-- **C05.nothing_left_means_gone** — and not later: a span with no handle, entered nowhere and without open children is not
in the registry any more (it was cleared in the very step that took the last of the three away) -/
theorem nothing_left_means_gone (ths : List Tid) (hnd : ths.Nodup) (ops : List Op) (ok : okRun ths RState.init [] ops)
    (id : Sid) (sl : Slot) (hs : (ops.foldl step RState.init).slots[id]? = some sl)
    (h0 : handles (grun RState.init [] ops).2 id = 0) (e0 : entered ths (ops.foldl step RState.init) id = 0)
    (c0 : children (ops.foldl step RState.init) id = 0) : sl.present = false := by
  cases hp : sl.present with
  | false => rfl
  | true =>
    have := refcount_sum ths hnd ops ok id sl hs hp
    omega

/-- a decidable version of `okOp`, for concrete programs -/
def okOpB (ths : List Tid) (s : RState) (h : List Nat) : Op → Bool
  | .newSpan t k => ths.contains t && (match k with
      | .explicit p => (match s.slots[p]? with | some sl => sl.present | none => false)
      | _ => true)
  | .cloneHandle id => decide (1 ≤ handles h id)
  | .dropHandle t id => ths.contains t && decide (1 ≤ handles h id)
  | .enter t id => ths.contains t && decide (1 ≤ handles h id)
  | .exit t _ => ths.contains t
  | .setDflt _ d => d == .own

def okRunB (ths : List Tid) : RState → List Nat → List Op → Bool
  | _, _, [] => true
  | s, h, op :: ops => okOpB ths s h op && okRunB ths (gstep s h op).1 (gstep s h op).2 ops

theorem okOp_of_B (ths : List Tid) (s : RState) (h : List Nat) (op : Op) (hb : okOpB ths s h op = true) : okOp ths s h op := by
  cases op with
  | newSpan t k =>
    simp only [okOpB, Bool.and_eq_true, List.contains_iff_mem] at hb
    refine ⟨by simpa using hb.1, ?_⟩
    cases k with
    | explicit p =>
      simp only [] at hb ⊢
      cases hs : s.slots[p]? with
      | none => simp [hs] at hb
      | some sl => simp only [hs] at hb; exact ⟨sl, rfl, hb.2⟩
    | root => trivial
    | contextual => trivial
  | cloneHandle id => simpa [okOpB, okOp] using hb
  | dropHandle t id => simpa [okOpB, okOp] using hb
  | enter t id => simpa [okOpB, okOp] using hb
  | exit t id => simpa [okOpB, okOp] using hb
  | setDflt t d => simpa [okOpB, okOp] using hb

theorem okRun_of_B (ths : List Tid) (ops : List Op) (s : RState) (h : List Nat) (hb : okRunB ths s h ops = true) : okRun ths s h ops := by
  induction ops generalizing s h with
  | nil => trivial
  | cons op ops ih =>
    simp only [okRunB, Bool.and_eq_true] at hb
    exact ⟨okOp_of_B ths s h op hb.1, ih _ _ hb.2⟩

/-- non-vacuity: two threads, a contextual and an explicit child, a clone, out-of-order exits, a parent dropped before its
children — the hypotheses hold, and the numbers are what the theorem says -/
example :
    let ops := [Op.newSpan 0 .root, .enter 0 0, .newSpan 0 .contextual, .cloneHandle 0, .newSpan 1 (.explicit 0), .enter 1 0,
                .dropHandle 0 0, .exit 0 0, .dropHandle 1 0, .dropHandle 0 1, .exit 1 0]
    okRunB [0, 1] RState.init [] ops = true ∧
    ((ops.foldl step RState.init).slots[0]?).map (·.refs) = some 1 ∧
    children (ops.foldl step RState.init) 0 = 1 ∧ (ops.foldl step RState.init).closed = [1] := by decide

end C05
