/-
C06, references taken concurrently — the current span of a thread stays the current span (and a parent stays readable from its
children) only as long as the references that entering it, creating children of it and cloning it take are all counted, also
when several threads take them on the same span at the same time.

Model: Core/AtomicCount.lean (one step = one atomic operation on the span's reference count); whether `clone_span` is ONE
fetch_add is extracted from sharded.rs on every run.
-/
import TracingModel.Props.C06E
import TracingModel.Lemmas.AtomicCount
import TracingModel.Lemmas.HandleRace

namespace C06
open TM.AtomicCount TM.Gen.AtomicCounts

/-- **C06.clone_code_fact** — Registry::clone_span bumps the count with one fetch_add, no separate load / store
(re-extracted from sharded.rs on every run) -/
theorem clone_code_fact : cloneIsRmw = true := by decide

/-- **C06.no_reference_lost** — a span holding `c0` references, any threads each taking one more (enter, child creation,
clone) or giving one of the `c0` back, every interleaving of the count operations as the code performs them:
count = references outstanding.  In particular the span is not closed under a thread that is inside it. -/
theorem no_reference_lost (c0 : Nat) (ths : List Nat) (hnd : ths.Nodup) (kind : Nat → Kind)
    (hroom : (decs kind ths).length ≤ c0) (sched : List Nat) (hs : ∀ t ∈ sched, t ∈ ths) :
    let s := run cloneIsRmw true kind (start c0) sched
    s.c + finished s (decs kind ths) = c0 + finished s (incs kind ths) := by
  rw [clone_code_fact]
  exact mixed_exact c0 ths hnd kind hroom sched hs

/-- **C06.lost_reference_witness** — it depends on the bump being one atomic operation: with a load followed by a store, two
threads entering the same span together are counted once -/
theorem lost_reference_witness :
    (run false true (fun _ => .inc) (start 1) [0, 1, 0, 1]).c = 2 := by decide

example : (run cloneIsRmw true (fun _ => .inc) (start 1) [0, 1, 1, 0]).c = 3 := by decide

/-- **C06.not_closed_under_a_holder** — threads as programs (clone / drop / give, through handles they hold — an entered guard,
a child's parent reference and a `Span` clone are such handles), every interleaving of the count operations as the code performs
them: as long as ANY thread holds a reference the span has not been reported closed — it stays the current span of the threads
inside it and readable from its children -/
theorem not_closed_under_a_holder (ths : List Nat) (hnd : ths.Nodup) (t0 : Nat) (h0 : t0 ∈ ths)
    (sched : List (Nat × TM.HandleRace.Act)) (hs : TM.HandleRace.Within ths sched) (t : Nat) (ht : t ∈ ths)
    (hheld : (TM.HandleRace.run cloneIsRmw closeDecidedByFetchSub (TM.HandleRace.start t0) sched).held t ≠ 0) :
    (TM.HandleRace.run cloneIsRmw closeDecidedByFetchSub (TM.HandleRace.start t0) sched).closes = 0 := by
  rw [show closeDecidedByFetchSub = true by decide, clone_code_fact] at hheld ⊢
  have h := TM.HandleRace.closed_iff_no_handles ths _ (TM.HandleRace.run_inv ths hnd sched hs _ (TM.HandleRace.inv_start ths hnd t0 h0))
  have : ¬ (TM.HandleRace.run true true (TM.HandleRace.start t0) sched).closes = 1 := fun e => hheld (h.2.mp e t ht)
  omega

end C06
