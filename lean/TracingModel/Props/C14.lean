/-
C14 — "JSON output is always one valid JSON object per line and faithful to the data"

  With the JSON formatter every record is a single line that parses as one JSON object with unique
  keys, whatever characters appear in messages, field names, string values, targets or span names;
  each event field and each span field (including fields recorded after the span was created, in
  any number of steps) appears with a value equal to what was recorded under the documented type
  mapping, and the span list names the spans in scope from root to leaf.

Model: Core/Json.lean (hand-written from json.rs / tracing-serde; compared BYTE FOR BYTE with the
real formatter's output on every run).
-/
import TracingModel.Core.Json

namespace C14
open TM.Json

/-! ### escaping is invertible and leaves no raw control character -/

def hexVal (c : Nat) : Option Nat :=
  if 48 ≤ c ∧ c ≤ 57 then some (c - 48) else if 97 ≤ c ∧ c ≤ 102 then some (c - 87)
  else if 65 ≤ c ∧ c ≤ 70 then some (c - 55) else none

def hex4 (a b c d : Nat) : Option Nat :=
  match hexVal a, hexVal b, hexVal c, hexVal d with
  | some a, some b, some c, some d => some (((a * 16 + b) * 16 + c) * 16 + d)
  | _, _, _, _ => none

def simple (x : Nat) : Option Nat :=
  if x = 34 then some 34 else if x = 92 then some 92 else if x = 47 then some 47 else if x = 98 then some 8
  else if x = 102 then some 12 else if x = 110 then some 10 else if x = 114 then some 13 else if x = 116 then some 9 else none

/-- an independent reader of ONE (possibly escaped) character of a JSON string body (RFC 8259 §7) -/
def unesc1 : Str → Option (Nat × Str)
  | [] => none
  | c :: rest =>
    if c = 92 then
      (match rest with
       | x :: r =>
         if x = 117 then
           (match r with
            | a :: b :: y :: d :: r' => (hex4 a b y d).map (fun v => (v, r'))
            | _ => none)
         else (simple x).map (fun v => (v, r))
       | [] => none)
    else if c = 34 ∨ c < 32 then none      -- a raw quote or control character is not allowed inside a string
    else some (c, rest)

def unescapeN : Nat → Str → Option Str
  | _, [] => some []
  | 0, _ :: _ => none
  | n + 1, s =>
    match unesc1 s with
    | some (c, r) => (unescapeN n r).map (c :: ·)
    | none => none

theorem hex_low : ∀ c, c < 32 → hex4 48 48 (hexDigit (c / 16)) (hexDigit (c % 16)) = some c := by decide

theorem esc1_unesc1 (c : Nat) (rest : Str) : unesc1 (esc1 c ++ rest) = some (c, rest) := by
  unfold esc1
  split
  · rename_i h; subst h; rfl
  split
  · rename_i h; subst h; rfl
  split
  · rename_i h; subst h; rfl
  split
  · rename_i h; subst h; rfl
  split
  · rename_i h; subst h; rfl
  split
  · rename_i h; subst h; rfl
  split
  · rename_i h; subst h; rfl
  split
  · rename_i h
    simp only [List.cons_append, List.nil_append, unesc1, if_true, hex_low c h, Option.map_some]
  · rename_i h1 h2 h3 h4 h5 h6 h7 h8
    simp only [List.cons_append, List.nil_append, unesc1, h2, if_false]
    have : ¬ (c = 34 ∨ c < 32) := by omega
    simp [this]

theorem esc1_ne_nil (c : Nat) : esc1 c ≠ [] := by
  unfold esc1; repeat' split
  all_goals simp

theorem unescapeN_escape (s : Str) : ∀ n, (escape s).length ≤ n → unescapeN n (escape s) = some s := by
  induction s with
  | nil => intro n _; cases n <;> rfl
  | cons c rest ih =>
    intro n hn
    have he : escape (c :: rest) = esc1 c ++ escape rest := by simp [escape]
    rw [he] at hn ⊢
    have hpos : 0 < (esc1 c).length := List.length_pos_iff.mpr (esc1_ne_nil c)
    cases n with
    | zero => simp only [List.length_append] at hn; omega
    | succ n =>
      have hne : esc1 c ++ escape rest ≠ [] := by
        intro h; exact esc1_ne_nil c (List.append_eq_nil_iff.mp h).1
      cases hs : esc1 c ++ escape rest with
      | nil => exact absurd hs hne
      | cons x xs =>
        rw [← hs]
        have : unescapeN (n + 1) (esc1 c ++ escape rest) =
            match unesc1 (esc1 c ++ escape rest) with
            | some (c, r) => (unescapeN n r).map (c :: ·)
            | none => none := by
          rw [hs]; rfl
        rw [this, esc1_unesc1]
        simp only [List.length_append] at hn
        show (unescapeN n (escape rest)).map (c :: ·) = some (c :: rest)
        rw [ih n (by omega)]
        rfl

/-- **C14.escape_roundtrip** — for EVERY string (any code points: quotes, backslashes, every C0
control, DEL, U+2028/9, astral) an independent reader of JSON string bodies recovers exactly the
string from its escaped form -/
theorem escape_roundtrip (s : Str) : unescapeN (escape s).length (escape s) = some s :=
  unescapeN_escape s _ (Nat.le_refl _)

theorem hexDigit_ge (n : Nat) : 48 ≤ hexDigit n := by unfold hexDigit; split <;> omega

/-- **C14.single_line** — an escaped string contains no raw control character (in particular no
LF / CR): string values, keys, targets and span names can never break the one-record-one-line rule -/
theorem single_line (s : Str) : ∀ c ∈ escape s, 32 ≤ c := by
  intro c hc
  simp only [escape, List.mem_flatMap] at hc
  obtain ⟨x, _, hx⟩ := hc
  unfold esc1 at hx
  have h1 := hexDigit_ge (x / 16)
  have h2 := hexDigit_ge (x % 16)
  repeat' split at hx
  all_goals (simp at hx; omega)

/-! ### the stored span fields: sorted by key, unique keys, last record wins -/

theorem strLt_irrefl (a : Str) : strLt a a = false := by
  induction a with
  | nil => rfl
  | cons x xs ih => simp [strLt, ih]

theorem strLt_trans : ∀ (a b c : Str), strLt a b = true → strLt b c = true → strLt a c = true := by
  intro a
  induction a with
  | nil => intro b c h1 h2; cases b <;> cases c <;> simp_all [strLt]
  | cons x xs ih =>
    intro b c h1 h2
    cases b with
    | nil => simp [strLt] at h1
    | cons y ys =>
      cases c with
      | nil => simp [strLt] at h2
      | cons z zs =>
        simp only [strLt] at h1 h2 ⊢
        by_cases hxy : x < y
        · by_cases hyz : y < z
          · have : x < z := Nat.lt_trans hxy hyz
            simp [this]
          · by_cases hzy : z < y
            · simp [hyz, hzy] at h2
            · have : y = z := by omega
              subst this; simp [hxy]
        · by_cases hyx : y < x
          · simp [hxy, hyx] at h1
          · have hxy' : x = y := by omega
            subst hxy'
            simp only [Nat.lt_irrefl, if_false] at h1
            by_cases hyz : x < z
            · simp [hyz]
            · by_cases hzy : z < x
              · simp [hyz, hzy] at h2
              · simp only [hyz, hzy, if_false] at h2 ⊢
                exact ih ys zs h1 h2

theorem strLt_total : ∀ (a b : Str), strLt a b = false → a ≠ b → strLt b a = true := by
  intro a
  induction a with
  | nil => intro b h hne; cases b with | nil => exact absurd rfl hne | cons y ys => simp [strLt] at h
  | cons x xs ih =>
    intro b h hne
    cases b with
    | nil => rfl
    | cons y ys =>
      simp only [strLt] at h ⊢
      by_cases hxy : x < y
      · simp [hxy] at h
      · by_cases hyx : y < x
        · simp [hyx]
        · have e : x = y := by omega
          subst e
          simp only [Nat.lt_irrefl, if_false] at h ⊢
          exact ih ys h (by intro e; exact hne (by rw [e]))

def Sorted (m : List (Str × J)) : Prop := m.Pairwise (fun a b => strLt a.1 b.1 = true)

theorem insert_keys (k : Str) (v : J) (m : List (Str × J)) :
    ∀ p ∈ insertSorted k v m, p.1 = k ∨ ∃ q ∈ m, q.1 = p.1 := by
  induction m with
  | nil => intro p hp; simp [insertSorted] at hp; exact Or.inl (by rw [hp])
  | cons x rest ih =>
    intro p hp
    simp only [insertSorted] at hp
    split at hp
    · rcases List.mem_cons.mp hp with e | h
      · exact Or.inl (by rw [e])
      · exact Or.inr ⟨p, List.mem_cons_of_mem _ h, rfl⟩
    · split at hp
      · rcases List.mem_cons.mp hp with e | h
        · exact Or.inl (by rw [e])
        · exact Or.inr ⟨p, h, rfl⟩
      · rcases List.mem_cons.mp hp with e | h
        · exact Or.inr ⟨x, by simp, by rw [e]⟩
        · rcases ih p h with e | ⟨q, hq, he⟩
          · exact Or.inl e
          · exact Or.inr ⟨q, List.mem_cons_of_mem _ hq, he⟩

theorem insert_sorted (k : Str) (v : J) (m : List (Str × J)) (h : Sorted m) : Sorted (insertSorted k v m) := by
  induction m with
  | nil => simp [insertSorted, Sorted]
  | cons x rest ih =>
    have hx := (List.pairwise_cons.mp h)
    simp only [insertSorted]
    split
    · rename_i e
      exact List.pairwise_cons.mpr ⟨by intro b hb; rw [e]; exact hx.1 b hb, hx.2⟩
    · split
      · rename_i hne hlt
        refine List.pairwise_cons.mpr ⟨?_, h⟩
        intro b hb
        rcases List.mem_cons.mp hb with e | hb'
        · rw [e]; exact hlt
        · exact strLt_trans _ _ _ hlt (hx.1 b hb')
      · rename_i hne hnlt
        have hgt : strLt x.1 k = true := strLt_total k x.1 (by simpa using hnlt) hne
        refine List.pairwise_cons.mpr ⟨?_, ih hx.2⟩
        intro b hb
        rcases insert_keys k v rest b hb with e | ⟨q, hq, he⟩
        · rw [e]; exact hgt
        · rw [← he]; exact hx.1 q hq

def lookupKey (k : Str) : List (Str × J) → Option J
  | [] => none
  | (k', v) :: rest => if k = k' then some v else lookupKey k rest

theorem lookup_insert_same (k : Str) (v : J) (m : List (Str × J)) : lookupKey k (insertSorted k v m) = some v := by
  induction m with
  | nil => simp [insertSorted, lookupKey]
  | cons x rest ih =>
    simp only [insertSorted]
    split
    · simp [lookupKey]
    · split
      · simp [lookupKey]
      · rename_i hne _; simp only [lookupKey, hne, if_false]; exact ih

theorem lookup_insert_other (k k' : Str) (v : J) (m : List (Str × J)) (h : k' ≠ k) :
    lookupKey k' (insertSorted k v m) = lookupKey k' m := by
  induction m with
  | nil => simp [insertSorted, lookupKey, h]
  | cons x rest ih =>
    simp only [insertSorted]
    split
    · rename_i e; simp only [lookupKey, h, if_false]; rw [← e]; simp [h]
    · split
      · simp [lookupKey, h]
      · simp only [lookupKey]; split; rfl; exact ih

/-- the (key, value) pairs one `format_fields` / `add_fields` call visits -/
def pairs (fs : List (Str × Val)) : List (Str × J) :=
  fs.filterMap fun (k, v) => v.toJ.map fun j => (stripRaw k v, j)

theorem recordInto_eq (m : List (Str × J)) (fs : List (Str × Val)) :
    recordInto m fs = (pairs fs).foldl (fun m p => insertSorted p.1 p.2 m) m := by
  induction fs generalizing m with
  | nil => rfl
  | cons x rest ih =>
    obtain ⟨k, v⟩ := x
    simp only [recordInto, List.foldl_cons, pairs, List.filterMap_cons]
    cases hv : v.toJ with
    | none => simpa [recordInto, pairs] using ih m
    | some j => simpa [recordInto, pairs] using ih (insertSorted (stripRaw k v) j m)

theorem foldl_sorted (ps : List (Str × J)) (m : List (Str × J)) (h : Sorted m) :
    Sorted (ps.foldl (fun m p => insertSorted p.1 p.2 m) m) := by
  induction ps generalizing m with
  | nil => exact h
  | cons p rest ih => exact ih _ (insert_sorted p.1 p.2 m h)

/-- the last value visited for `k`, if any -/
def lastFor (k : Str) (ps : List (Str × J)) : Option J := lookupKey k ps.reverse

theorem foldl_lookup (k : Str) (ps : List (Str × J)) (m : List (Str × J)) :
    lookupKey k (ps.foldl (fun m p => insertSorted p.1 p.2 m) m) = ((lastFor k ps).orElse fun _ => lookupKey k m) := by
  induction ps generalizing m with
  | nil => simp [lastFor, lookupKey]
  | cons p rest ih =>
    simp only [List.foldl_cons]
    rw [ih]
    simp only [lastFor, List.reverse_cons]
    have happ : ∀ (l : List (Str × J)), lookupKey k (l ++ [p]) = ((lookupKey k l).orElse fun _ => if k = p.1 then some p.2 else none) := by
      intro l
      induction l with
      | nil => simp [lookupKey]
      | cons y ys ihy => simp only [List.cons_append, lookupKey]; split <;> simp [ihy]
    rw [happ]
    cases hl : lookupKey k rest.reverse with
    | some j => simp
    | none =>
      simp only [Option.orElse_none]
      by_cases e : k = p.1
      · subst e; simp [lookup_insert_same]
      · simp [e, lookup_insert_other _ _ _ _ e]

/-- **C14.merge_last_wins** — after a span's creation and ANY number of later `record` calls, each of
any number of fields: the stored object is sorted by key, has unique keys, and every key maps to the
value recorded for it LAST (earlier fields are kept unless overwritten — in particular fields whose
names need JSON escaping, F18) -/
theorem merge_last_wins (calls : List (List (Str × Val))) :
    let stored := calls.foldl recordInto []
    Sorted stored ∧ (stored.map (·.1)).Nodup ∧
    ∀ k, lookupKey k stored = lastFor k (calls.flatMap pairs) := by
  have key : ∀ (cs : List (List (Str × Val))) (m : List (Str × J)), Sorted m →
      Sorted (cs.foldl recordInto m) ∧
      ∀ k, lookupKey k (cs.foldl recordInto m) = ((lastFor k (cs.flatMap pairs)).orElse fun _ => lookupKey k m) := by
    intro cs
    induction cs with
    | nil => intro m h; exact ⟨h, by intro k; simp [lastFor, lookupKey]⟩
    | cons c rest ih =>
      intro m h
      simp only [List.foldl_cons, List.flatMap_cons]
      have hs : Sorted (recordInto m c) := by rw [recordInto_eq]; exact foldl_sorted _ m h
      obtain ⟨a, b⟩ := ih (recordInto m c) hs
      refine ⟨a, ?_⟩
      intro k
      rw [b k, recordInto_eq, foldl_lookup]
      simp only [lastFor, List.reverse_append]
      have happ : ∀ (l1 l2 : List (Str × J)), lookupKey k (l1 ++ l2) = ((lookupKey k l1).orElse fun _ => lookupKey k l2) := by
        intro l1 l2
        induction l1 with
        | nil => simp [lookupKey]
        | cons y ys ihy => simp only [List.cons_append, lookupKey]; split <;> simp [ihy]
      rw [happ]
      cases lookupKey k (List.flatMap pairs rest).reverse <;> simp
  obtain ⟨a, b⟩ := key calls [] (by simp [Sorted])
  refine ⟨a, ?_, by intro k; rw [b k]; simp [lookupKey]⟩
  -- strictly sorted keys are distinct
  have : ∀ (m : List (Str × J)), Sorted m → (m.map (·.1)).Nodup := by
    intro m hm
    induction m with
    | nil => simp
    | cons x xs ih =>
      have hx := List.pairwise_cons.mp hm
      simp only [List.map_cons, List.nodup_cons]
      refine ⟨?_, ih hx.2⟩
      intro hmem
      obtain ⟨y, hy, he⟩ := List.mem_map.mp hmem
      have := hx.1 y hy
      rw [he, strLt_irrefl] at this
      cases this
  exact this _ a

/-- **C14.spans_root_to_leaf** — the `spans` array lists the spans in scope in the order given
(root first: C06.scope_is_ancestor_chain), each as its stored fields followed by its name -/
theorem spans_root_to_leaf (c : Cfg) (lvl : Nat) (tgt : Str) (fs : List (Str × Val)) (scope : List SpanData)
    (hs : scope ≠ []) (hl : c.spanList = true) :
    (ofAscii "spans", J.arr (scope.map spanObj)) ∈
      (match eventObj c lvl tgt fs scope with | .obj l => l | _ => []) := by
  unfold eventObj
  cases hg : scope.getLast? with
  | none => simp [List.getLast?_eq_none_iff] at hg; exact absurd hg hs
  | some leaf => simp [hl]

/-! ### non-vacuity / a concrete hostile record -/
example :
    let fields : List (Str × Val) := [([119, 101, 34, 105, 114, 100], .i 1), ([97], .s [10, 8232, 128512, 92])]
    let stored := recordInto (recordInto [] fields) [([97], .d [110, 111, 119])]
    (lookupKey [97] stored).map render = some (render (.str [110, 111, 119])) ∧
    (lookupKey [119, 101, 34, 105, 114, 100] stored).map render = some [49] ∧
    render (.obj stored) = ofAscii "{\"a\":\"now\",\"we\\\"ird\":1}" := by
  decide

end C14
