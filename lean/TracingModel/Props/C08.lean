/-
C08 — "Static summaries of filters (interest, max-level hint) are sound upper bounds"

  For every provided filter, filter combinator and composed stack, the summary it publishes for
  caching agrees with its real decision: it never answers 'never' for a callsite, nor advertises a
  maximum level below a level, that it would accept if asked dynamically, and it never answers
  'always' for a callsite it could reject. The same holds for the summary of a whole stack
  relative to what any of its layers would receive.

Model: Core/FilterExpr.lean (transcribed from combinator.rs, filter_fn.rs, targets.rs,
subscriber_filters/mod.rs, reload.rs).
-/
import TracingModel.Core.FilterExpr
import TracingModel.Props.C11

namespace C08
open TM.FilterExpr TM.FilterExpr.FExpr TM.Directive
open TM.Callsite (Interest)

/-- the user-supplied parts are honest (what the code's own `debug_assert!`s demand): a closure's
hint bounds what it enables, and a user-supplied `callsite_enabled` closure is itself a sound
summary of the dynamic closure -/
def Honest : FExpr → Prop
  | level _ => True
  | targets _ => True
  | fn p hint => ∀ m, p m = true → belowHint hint m = true
  | dyn p hint cs =>
    (∀ m c, p m c = true → belowHint hint m = true) ∧
    (match cs with
     | some g => ∀ m, (g m = .never → ∀ c, p m c = false) ∧ (g m = .always → ∀ c, p m c = true)
     | none => True)
  | optNone => True
  | optSome f => Honest f
  | conj a b => Honest a ∧ Honest b
  | disj a b => Honest a ∧ Honest b
  | neg a => Honest a
  | reload f => Honest f
  | boxed f => Honest f

/-- a summary is sound for a metadata: `never` ⇒ never enabled, `always` ⇒ always enabled -/
def InterestSound (f : FExpr) (m : Meta) : Prop :=
  (callsiteF f m = .never → ∀ c, enabledF f m c = false) ∧
  (callsiteF f m = .always → ∀ c, enabledF f m c = true)

/-- **C08.interest_sound** — for EVERY filter expression of any depth over level thresholds,
target tables, closures (with honest hints), Option, and/or/not, reload and Box wrappers, and
every metadata: the cached summary never says `never` for something the filter would accept in
some context, and never says `always` for something it could reject. -/
theorem interest_sound (f : FExpr) (h : Honest f) (m : Meta) : InterestSound f m := by
  induction f with
  | level l =>
    simp only [InterestSound, callsiteF, enabledF]
    by_cases hl : m.level ≤ l <;> simp [hl]
  | targets s =>
    simp only [InterestSound, callsiteF, enabledF]
    cases he : TM.Directive.enabled s m <;> simp
  | fn p hint =>
    simp only [InterestSound, callsiteF, enabledF]
    cases hp : p m <;> simp
  | dyn p hint cs =>
    simp only [InterestSound, callsiteF, enabledF]
    obtain ⟨h1, h2⟩ := h
    cases cs with
    | some g => simp only [] at h2 ⊢; exact ⟨fun e c => (h2 m).1 e c, fun e c => (h2 m).2 e c⟩
    | none =>
      simp only []
      cases hb : belowHint hint m with
      | true => simp
      | false =>
        simp only [Bool.false_eq_true, if_false, true_implies]
        refine ⟨?_, by intro e; cases e⟩
        intro c
        cases hp : p m c with
        | false => rfl
        | true => have := h1 m c hp; rw [hb] at this; cases this
  | optNone => simp [InterestSound, callsiteF, enabledF]
  | optSome f ih => exact ih h
  | conj a b iha ihb =>
    obtain ⟨ha, hb⟩ := h
    obtain ⟨a1, a2⟩ := iha ha
    obtain ⟨b1, b2⟩ := ihb hb
    simp only [InterestSound, callsiteF, enabledF]
    cases hca : callsiteF a m <;> cases hcb : callsiteF b m <;> simp_all
  | disj a b iha ihb =>
    obtain ⟨ha, hb⟩ := h
    obtain ⟨a1, a2⟩ := iha ha
    obtain ⟨b1, b2⟩ := ihb hb
    simp only [InterestSound, callsiteF, enabledF]
    cases hca : callsiteF a m <;> cases hcb : callsiteF b m <;> simp_all
  | neg a ih =>
    obtain ⟨a1, a2⟩ := ih h
    simp only [InterestSound, callsiteF, enabledF]
    cases hca : callsiteF a m <;> simp_all
  | reload f ih => exact ih h
  | boxed f ih => exact ih h

/-- a set's `max_level` bounds every level its directives can enable -/
private theorem targets_hint (ds : List SDir) (m : Meta) (h : TM.Directive.enabled (build ds) m = true) :
    m.level ≤ (build ds).maxLevel := by
  rcases C11.most_specific_wins ds m with ⟨d, hd, _, _, he⟩ | ⟨_, he⟩
  · rw [he] at h
    have hl : m.level ≤ d.level := by simpa using h
    exact Nat.le_trans hl (C11.max_level_bound ds d (C11.mem_build ds d hd))
  · rw [he] at h; cases h

/-- target tables are built by insertions (`Targets::with_target`, `FromStr`, `Extend`) -/
def Built : FExpr → Prop
  | targets s => ∃ ds, s = build ds
  | optSome f => Built f
  | conj a b => Built a ∧ Built b
  | disj a b => Built a ∧ Built b
  | neg a => Built a
  | reload f => Built f
  | boxed f => Built f
  | _ => True

/-- **C08.hint_sound** — for every filter expression and every metadata and context: whatever the
filter enables has a level within the advertised maximum level (no hint = no limit). -/
theorem hint_sound (f : FExpr) (h : Honest f) (hb : Built f) (m : Meta) (c : Ctx)
    (he : enabledF f m c = true) : belowHint (hintF f) m = true := by
  induction f with
  | level l => simpa [enabledF, hintF, belowHint] using he
  | targets s =>
    obtain ⟨ds, rfl⟩ := hb
    have := targets_hint ds m (by simpa [enabledF] using he)
    simp [hintF, belowHint, this]
  | fn p hint => exact h m (by simpa [enabledF] using he)
  | dyn p hint cs => exact h.1 m c (by simpa [enabledF] using he)
  | optNone => rfl
  | optSome f ih => exact ih h hb (by simpa [enabledF] using he)
  | conj a b iha ihb =>
    simp only [enabledF, Bool.and_eq_true] at he
    have h1 := iha h.1 hb.1 he.1
    have h2 := ihb h.2 hb.2 he.2
    simp only [hintF]
    cases hha : hintF a <;> cases hhb : hintF b <;> simp_all [optMin, belowHint]
    omega
  | disj a b iha ihb =>
    simp only [enabledF, Bool.or_eq_true] at he
    simp only [hintF]
    cases hha : hintF a <;> cases hhb : hintF b <;> simp only [belowHint] <;> try rfl
    rcases he with he | he
    · have := iha h.1 hb.1 he; rw [hha] at this; simp only [belowHint, decide_eq_true_eq] at this ⊢; omega
    · have := ihb h.2 hb.2 he; rw [hhb] at this; simp only [belowHint, decide_eq_true_eq] at this ⊢; omega
  | neg a _ => rfl
  | reload f ih => exact ih h hb (by simpa [enabledF] using he)
  | boxed f ih => exact ih h hb (by simpa [enabledF] using he)

/-- non-vacuity: a depth-3 expression mixing static, dynamic and negated parts -/
example :
    let f := conj (level 3) (disj (dyn (fun m c => m.level ≤ 2 && c == 1) (some 2) none) (neg (level 1)))
    callsiteF f { target := [], level := 1, isEvent := true, fields := [] } = .sometimes ∧
    callsiteF f { target := [], level := 4, isEvent := true, fields := [] } = .never ∧
    hintF f = none := by decide

end C08
