/-
C10 — "Macros record each field once, typed, in order; disabled ones evaluate nothing"

  For every span and event macro form, each field is presented to the collector's visitor exactly
  once, under its declared name, in declaration order (a format-string message first), through the
  visitor method for its type and with exactly the supplied value (the display and debug sigils
  present the value's Display/Debug text); empty and unset fields are not visited and recording an
  undeclared field is ignored. Field and message expressions are evaluated exactly once when the
  callsite is enabled and not at all when it is disabled by any of the filtering stages.

Model: Core/Macros.lean over the table `Gen.ValueTable` extracted from tracing-core/src/field.rs
on every run; compared with a corpus of macro invocations generated and COMPILED on every run.
-/
import TracingModel.Core.Macros

namespace C10
open TM.Macros TM.Gen.ValueTable

/-- what field.rs must say NOW -/
theorem table_facts :
    normalArmPassesValue = true ∧ nonzeroArmPassesGet = true ∧ castArmIsAs = true ∧
    noNonZeroFor = ["f32", "f64", "bool"] ∧ displayValueDebugIsDisplay = true ∧
    hand = [("str", "record_str"), ("bytes", "record_bytes"), ("String", "record_str"), ("Arguments", "record_debug"),
            ("Error", "record_error"), ("DisplayValue", "record_debug"), ("DebugValue", "record_debug"), ("Empty", "none"),
            ("Wrapping", "delegate"), ("Ref", "delegate"), ("Box", "delegate")] ∧
    prim.map (fun r => (r.1, r.2.1)) =
      [("u64", "record_u64"), ("usize", "record_u64"), ("u32", "record_u64"), ("u16", "record_u64"), ("u8", "record_u64"),
       ("i64", "record_i64"), ("isize", "record_i64"), ("i32", "record_i64"), ("i16", "record_i64"), ("i8", "record_i64"),
       ("u128", "record_u128"), ("i128", "record_i128"), ("bool", "record_bool"), ("f64", "record_f64"), ("f32", "record_f64")] :=
  ⟨by decide, by decide, by decide, by decide, by decide, by decide, by decide⟩

/-- the cast of a row never changes a value of the source type -/
def Widens (src tgt : String) : Bool :=
  match bits src, bits tgt with
  | some (s1, w1), some (s2, w2) => s1 == s2 && decide (w1 ≤ w2)
  | _, _ => false

theorem rows_widen : (prim.all fun r => (bits r.1).isNone || Widens r.1 r.2.2) = true := by decide

theorem bits_pos (t : String) (sg : Bool) (w : Nat) (h : bits t = some (sg, w)) : 8 ≤ w := by
  unfold bits at h
  split at h <;> simp at h <;> omega

theorem two_pow_mono (a b : Nat) (h : a ≤ b) : (2 : Int) ^ a ≤ (2 : Int) ^ b := by
  have : (2 : Nat) ^ a ≤ (2 : Nat) ^ b := Nat.pow_le_pow_right (by decide) h
  exact_mod_cast this

theorem cast_preserves (src tgt : String) (hw : Widens src tgt = true) (v : Int) (hr : inRange src v = true) :
    castTo tgt v = v ∧ inRange tgt v = true := by
  unfold Widens at hw
  cases hs : bits src with
  | none => simp [hs] at hw
  | some p =>
    cases ht : bits tgt with
    | none => simp [hs, ht] at hw
    | some q =>
      obtain ⟨s1, w1⟩ := p
      obtain ⟨s2, w2⟩ := q
      simp only [hs, ht, Bool.and_eq_true, beq_iff_eq, decide_eq_true_eq] at hw
      obtain ⟨hsig, hle⟩ := hw
      subst hsig
      cases s1 with
      | false =>
        simp only [inRange, hs, Bool.and_eq_true, decide_eq_true_eq] at hr
        have hm := two_pow_mono w1 w2 hle
        have hlt : v < 2 ^ w2 := Int.lt_of_lt_of_le hr.2 hm
        simp only [castTo, ht, inRange, Bool.and_eq_true, decide_eq_true_eq]
        exact ⟨Int.emod_eq_of_lt hr.1 hlt, hr.1, hlt⟩
      | true =>
        simp only [inRange, hs, Bool.and_eq_true, decide_eq_true_eq] at hr
        have hm := two_pow_mono (w1 - 1) (w2 - 1) (by omega)
        have hpos : 0 < w2 ∨ w2 = 0 := by omega
        have hlo : -(2 : Int) ^ (w2 - 1) ≤ v := by omega
        have hhi : v < (2 : Int) ^ (w2 - 1) := by omega
        simp only [castTo, ht, inRange, Bool.and_eq_true, decide_eq_true_eq]
        refine ⟨?_, hlo, hhi⟩
        have hz : w2 ≠ 0 := by
          have := bits_pos tgt true w2 ht; omega
        · have hdbl : (2 : Int) ^ w2 = 2 * 2 ^ (w2 - 1) := by
            have : w2 = (w2 - 1) + 1 := by omega
            conv => lhs; rw [this, Int.pow_succ]
            omega
          rw [hdbl]
          have h0 : 0 ≤ v + 2 ^ (w2 - 1) := by omega
          have h1 : v + 2 ^ (w2 - 1) < 2 * 2 ^ (w2 - 1) := by omega
          rw [Int.emod_eq_of_lt h0 h1]; omega

/-- **C10.typed_dispatch** — for every integer row of the table extracted from field.rs and EVERY value
of the source type (and of its NonZero form): the value is presented through the row's visitor method
and the presented number EQUALS the source value; Wrapping / & / Box present what their inner value presents -/
theorem typed_dispatch (r : String × String × String) (hr : r ∈ prim) (hb : (bits r.1).isSome = true)
    (nz : Bool) (v : Int) (hv : inRange r.1 v = true) (hu : (prim.filter (fun x => x.1 == r.1)).length = 1) :
    present (.int r.1 nz v) = some (methodShort r.2.1, toString v) ∧
    present (.wrapped (.int r.1 nz v)) = present (.int r.1 nz v) := by
  refine ⟨?_, rfl⟩
  have hw : Widens r.1 r.2.2 = true := by
    have := List.all_eq_true.mp rows_widen r hr
    cases hbb : bits r.1 with
    | none => simp [hbb] at hb
    | some x => simpa [hbb] using this
  have hcast := (cast_preserves r.1 r.2.2 hw v hv).1
  have hnz : (nz && noNonZeroFor.contains r.1) = false := by
    cases nz with
    | false => rfl
    | true =>
      simp only [Bool.true_and, table_facts.2.2.2.1]
      cases hbb : bits r.1 with
      | none => simp [hbb] at hb
      | some x =>
        by_cases h1 : r.1 = "f32"
        · rw [h1] at hbb; simp [bits] at hbb
        · by_cases h2 : r.1 = "f64"
          · rw [h2] at hbb; simp [bits] at hbb
          · by_cases h3 : r.1 = "bool"
            · rw [h3] at hbb; simp [bits] at hbb
            · simp [h1, h2, h3]
  have hfind : lookupPrim r.1 = some (r.2.1, r.2.2) := by
    unfold lookupPrim
    have : prim.find? (fun x => x.1 == r.1) = some r := by
      -- the table has exactly one row for this type
      have hmem : r ∈ prim.filter (fun x => x.1 == r.1) := List.mem_filter.mpr ⟨hr, by simp⟩
      cases hf : prim.filter (fun x => x.1 == r.1) with
      | nil => rw [hf] at hmem; cases hmem
      | cons a rest =>
        rw [hf] at hu hmem
        have : rest = [] := by simpa using hu
        subst this
        have ha : a = r := by simpa using (List.mem_singleton.mp hmem).symm
        rw [← List.head?_filter, hf, ha]; rfl
    rw [this]; rfl
  simp only [present, hnz, Bool.false_eq_true, if_false, hfind, table_facts.1, table_facts.2.1, table_facts.2.2.1, Bool.true_and]
  by_cases he : r.2.2 = r.1
  · cases nz <;> simp [he]
  · cases nz <;> simp [he, hcast]

/-- **C10.names_in_order** — for ANY list of field forms: the visitor sees the format-string message first,
then the declared fields in declaration order, each at most once — exactly those that have a value -/
theorem names_in_order (fs : List FieldD) :
    (visited fs).map (·.1) =
      ((fs.filter (fun f => isMessage f.val) ++ fs.filter (fun f => !isMessage f.val)).filter (fun f => (present f.val).isSome)).map (·.name) := by
  simp only [visited, ordered]
  generalize fs.filter (fun f => isMessage f.val) ++ fs.filter (fun f => !isMessage f.val) = l
  induction l with
  | nil => rfl
  | cons x xs ih =>
    simp only [List.filterMap_cons, List.filter_cons]
    cases hp : present x.val with
    | none => simpa [hp] using ih
    | some mv => simp [hp, ih]

/-- **C10.value_alignment** — every (name, method, value) the visitor sees is a declared field presenting ITS OWN value -/
theorem value_alignment (fs : List FieldD) (e : Str × String × String) (he : e ∈ visited fs) :
    ∃ f ∈ fs, e.1 = f.name ∧ present f.val = some (e.2.1, e.2.2) := by
  simp only [visited, List.mem_filterMap] at he
  obtain ⟨f, hf, hm⟩ := he
  have hfs : f ∈ fs := by
    simp only [ordered, List.mem_append, List.mem_filter] at hf
    rcases hf with h | h <;> exact h.1
  cases hp : present f.val with
  | none => simp [hp] at hm
  | some mv =>
    simp only [hp, Option.map_some, Option.some.injEq] at hm
    exact ⟨f, hfs, by rw [← hm], by rw [← hm, hp]⟩

/-- **C10.empty_not_visited** — `field::Empty` (a declared but unset field) is never presented -/
theorem empty_not_visited : present .empty = none := by
  simp [present, lookupHand, table_facts.2.2.2.2.2.1]

/-- **C10.eval_once_or_never** — enabled: every counted field / message expression is evaluated exactly
once; disabled by the static interest, by the dynamic `enabled`, or by the level cap: nothing is visited and
nothing is evaluated -/
theorem eval_once_or_never (r : Regime) (level : Nat) (fs : List FieldD) :
    (enabledUnder r level = true → (invoke r level fs).2.all (· == 1) = true ∧ (invoke r level fs).1 = visited fs) ∧
    (enabledUnder r level = false → (invoke r level fs).2.all (· == 0) = true ∧ (invoke r level fs).1 = []) := by
  constructor <;> intro h <;> simp [invoke, h, List.all_replicate]

/-! ### completeness: nothing set is left out, nothing is shown twice -/

/-- **C10.every_set_field_visited** — for ANY list of field forms, every declared field that has a value (whatever its form
and position, the message included) is presented to the visitor under its own name with its own method and value -/
theorem every_set_field_visited (fs : List FieldD) (f : FieldD) (hf : f ∈ fs) (m v : String)
    (hp : present f.val = some (m, v)) : (f.name, m, v) ∈ visited fs := by
  simp only [visited, List.mem_filterMap]
  refine ⟨f, ?_, by simp [hp]⟩
  simp only [ordered, List.mem_append, List.mem_filter]
  cases h : isMessage f.val
  · exact Or.inr ⟨hf, by simp⟩
  · exact Or.inl ⟨hf, rfl⟩

private theorem partition_filter_length (p q : FieldD → Bool) (fs : List FieldD) :
    ((fs.filter p ++ fs.filter (fun f => !p f)).filter q).length = (fs.filter q).length := by
  simp only [List.filter_append, List.length_append]
  induction fs with
  | nil => rfl
  | cons x xs ih =>
    simp only [List.filter_cons]
    cases hpx : p x <;> cases hqx : q x <;>
      simp only [hqx, List.filter_cons, Bool.not_false, Bool.not_true, if_true, if_false, Bool.false_eq_true, List.length_cons] <;> omega

private theorem filterMap_length_eq {α β : Type} (g : α → Option β) (l : List α) :
    (l.filterMap g).length = (l.filter (fun a => (g a).isSome)).length := by
  induction l with
  | nil => rfl
  | cons x xs ih =>
    simp only [List.filterMap_cons, List.filter_cons]
    cases h : g x <;> simp [ih]

/-- **C10.visited_exactly_once** — the number of presentations equals the number of declared fields that have a value: with
`every_set_field_visited` and `value_alignment`, each set field is presented exactly once and nothing else is -/
theorem visited_exactly_once (fs : List FieldD) :
    (visited fs).length = (fs.filter (fun f => (present f.val).isSome)).length := by
  have h1 := filterMap_length_eq (fun f : FieldD => (present f.val).map fun (m, v) => (f.name, m, v)) (ordered fs)
  simp only [Option.isSome_map] at h1
  simp only [visited]
  rw [h1]
  exact partition_filter_length (fun f => isMessage f.val) (fun f => (present f.val).isSome) fs

/-! ### non-vacuity -/
example : typed_dispatch ("u8", "record_u64", "u64") (by decide) (by decide) false 255 (by decide) (by decide) =
    typed_dispatch ("u8", "record_u64", "u64") (by decide) (by decide) false 255 (by decide) (by decide) := rfl
example : present (.int "i8" false (-128)) = some ("i64", "-128") ∧ present (.int "u128" true (2 ^ 128 - 1)) = some ("u128", toString ((2 : Int) ^ 128 - 1)) := by decide

end C10
