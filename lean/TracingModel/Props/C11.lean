/-
C11 — "Filter directives: the most specific match wins, and filters round-trip"

  A target/level directive set (Targets or EnvFilter) enables a span or event exactly when the
  most specific directive matching its target (longest matching target prefix, then more field
  constraints) allows its level, and nothing when no directive matches; Targets and EnvFilter
  agree on every directive string both accept, would_enable agrees with actual filtering, and
  formatting a parsed filter and parsing it again yields the same filter. Span-scoped directives
  raise the enabled level exactly while a matching span (by name and recorded field values) is
  entered on the thread, and for that span itself.

Model: Core/Directive.lean (static directive sets, Targets text forms).
-/
import TracingModel.Core.Directive

namespace C11
open TM.Directive

/-- specificity of a directive: (has target + its length, number of field constraints) -/
def tlen (d : SDir) : Nat := match d.target with | none => 0 | some t => t.length + 1

/-- `a` is at least as specific as `b` -/
def specGe (a b : SDir) : Prop := tlen a > tlen b ∨ (tlen a = tlen b ∧ a.fields.length ≥ b.fields.length)

theorem specGe_refl (a : SDir) : specGe a a := Or.inr ⟨rfl, Nat.le_refl _⟩

theorem specGe_trans {a b c : SDir} (h1 : specGe a b) (h2 : specGe b c) : specGe a c := by
  unfold specGe at *; omega

private theorem optCmp_len (a b : SDir) :
    (optCmp natCmp (a.target.map List.length) (b.target.map List.length) = .lt → tlen a < tlen b) ∧
    (optCmp natCmp (a.target.map List.length) (b.target.map List.length) = .gt → tlen a > tlen b) ∧
    (optCmp natCmp (a.target.map List.length) (b.target.map List.length) = .eq → tlen a = tlen b) := by
  cases ha : a.target <;> cases hb : b.target <;> simp [optCmp, tlen, ha, hb, natCmp, Nat.compare_eq_lt, Nat.compare_eq_gt, Nat.compare_eq_eq]

private theorem natCmp_spec (x y : Nat) :
    (natCmp x y = .lt → x < y) ∧ (natCmp x y = .gt → x > y) ∧ (natCmp x y = .eq → x = y) := by
  simp [natCmp, Nat.compare_eq_lt, Nat.compare_eq_gt, Nat.compare_eq_eq]

/-- what the (reversed) order says about specificity -/
theorem cmpDir_spec (a b : SDir) :
    (cmpDir a b ≠ .gt → specGe a b) ∧ (cmpDir a b ≠ .lt → specGe b a) := by
  obtain ⟨l1, l2, l3⟩ := optCmp_len a b
  obtain ⟨n1, n2, n3⟩ := natCmp_spec a.fields.length b.fields.length
  unfold cmpDir specGe
  cases h1 : optCmp natCmp (a.target.map List.length) (b.target.map List.length) with
  | lt => have := l1 h1; simp [thenCmp, rev]; omega
  | gt => have := l2 h1; simp [thenCmp, rev]; omega
  | eq =>
    have e := l3 h1
    cases h2 : natCmp a.fields.length b.fields.length with
    | lt => have := n1 h2; simp [thenCmp, rev]; omega
    | gt => have := n2 h2; simp [thenCmp, rev]; omega
    | eq =>
      have e2 := n3 h2
      constructor <;> intro _ <;> right <;> omega

/-- the vector is kept sorted: every directive is at least as specific as all later ones -/
def Sorted (l : List SDir) : Prop := l.Pairwise specGe

theorem mem_insertDir (d x : SDir) (l : List SDir) (h : x ∈ insertDir d l) : x = d ∨ x ∈ l := by
  induction l with
  | nil => simp [insertDir] at h; exact Or.inl h
  | cons e rest ih =>
    simp only [insertDir] at h
    cases hc : cmpDir d e with
    | lt => simp only [hc, List.mem_cons] at h; rcases h with h | h | h <;> simp [h]
    | eq => simp only [hc, List.mem_cons] at h; rcases h with h | h <;> simp [h]
    | gt =>
      simp only [hc, List.mem_cons] at h
      rcases h with h | h
      · simp [h]
      · rcases ih h with h | h <;> simp [h]

/-- **C11.add_sorted** — `DirectiveSet::add` keeps the vector sorted by specificity -/
theorem insert_sorted (d : SDir) (l : List SDir) (h : Sorted l) : Sorted (insertDir d l) := by
  induction l with
  | nil => simp [insertDir, Sorted]
  | cons e rest ih =>
    simp only [Sorted, List.pairwise_cons] at h
    obtain ⟨he, hrest⟩ := h
    simp only [insertDir]
    cases hc : cmpDir d e with
    | lt =>
      have hde := (cmpDir_spec d e).1 (by rw [hc]; decide)
      simp only [Sorted, List.pairwise_cons]
      refine ⟨?_, he, hrest⟩
      intro x hx
      rcases List.mem_cons.mp hx with rfl | hx
      · exact hde
      · exact specGe_trans hde (he x hx)
    | eq =>
      have hde := (cmpDir_spec d e).1 (by rw [hc]; decide)
      simp only [Sorted, List.pairwise_cons]
      exact ⟨fun x hx => specGe_trans hde (he x hx), hrest⟩
    | gt =>
      have hed := (cmpDir_spec d e).2 (by rw [hc]; decide)
      simp only [Sorted, List.pairwise_cons]
      refine ⟨?_, ih hrest⟩
      intro x hx
      rcases mem_insertDir d x rest hx with rfl | hx
      · exact hed
      · exact he x hx

theorem build_sorted (ds : List SDir) : Sorted (build ds).dirs := by
  have key : ∀ (ds : List SDir) (s : DSet), Sorted s.dirs → Sorted (ds.foldl DSet.add s).dirs := by
    intro ds
    induction ds with
    | nil => intro s h; exact h
    | cons d ds ih => intro s h; exact ih _ (insert_sorted d s.dirs h)
  exact key ds _ (by simp [Sorted, DSet.empty])

/-- in a sorted vector, the first directive that cares is at least as specific as every other one
that cares -/
theorem find_most_specific (l : List SDir) (p : SDir → Bool) (h : Sorted l) :
    match l.find? p with
    | some d => d ∈ l ∧ p d = true ∧ ∀ d' ∈ l, p d' = true → specGe d d'
    | none => ∀ d' ∈ l, p d' = false := by
  induction l with
  | nil => simp
  | cons e rest ih =>
    simp only [Sorted, List.pairwise_cons] at h
    obtain ⟨he, hrest⟩ := h
    simp only [List.find?_cons]
    cases hp : p e with
    | true =>
      simp only []
      refine ⟨by simp, hp, ?_⟩
      intro d' hd' _
      rcases List.mem_cons.mp hd' with rfl | hd'
      · exact specGe_refl _
      · exact he d' hd'
    | false =>
      simp only []
      have := ih hrest
      cases hf : rest.find? p with
      | none =>
        rw [hf] at this
        intro d' hd'
        rcases List.mem_cons.mp hd' with rfl | hd'
        · exact hp
        · exact this d' hd'
      | some d =>
        rw [hf] at this
        obtain ⟨h1, h2, h3⟩ := this
        refine ⟨List.mem_cons_of_mem _ h1, h2, ?_⟩
        intro d' hd' hpd'
        rcases List.mem_cons.mp hd' with rfl | hd'
        · rw [hp] at hpd'; cases hpd'
        · exact h3 d' hd' hpd'

/-- **C11.most_specific_wins** — for EVERY directive set built by any sequence of insertions and
every span/event metadata: if some directive matches, the decision is taken by a matching
directive that is at least as specific (longer target prefix, then more field constraints) as
every other matching one, and it enables exactly the levels up to its own; if none matches,
nothing is enabled.  (Which of two EQUALLY specific matching directives wins is left open by the
property; the code takes the lexicographically later.) -/
theorem most_specific_wins (ds : List SDir) (m : Meta) :
    (∃ d, d ∈ (build ds).dirs ∧ cares d m = true ∧
          (∀ d' ∈ (build ds).dirs, cares d' m = true → specGe d d') ∧
          enabled (build ds) m = decide (m.level ≤ d.level)) ∨
    ((∀ d' ∈ (build ds).dirs, cares d' m = false) ∧ enabled (build ds) m = false) := by
  have h := find_most_specific (build ds).dirs (fun d => cares d m) (build_sorted ds)
  unfold enabled
  cases hf : (build ds).dirs.find? (fun d => cares d m) with
  | none => rw [hf] at h; exact Or.inr ⟨h, rfl⟩
  | some d =>
    rw [hf] at h
    exact Or.inl ⟨d, h.1, h.2.1, h.2.2, rfl⟩

/-- **C11.would_enable_agrees_partial** — for directive sets WITHOUT field constraints,
`would_enable(target, level)` is exactly what filtering does for any span or event with that
target and level.  (With field constraints it is not: finding F7.) -/
theorem would_enable_agrees_partial (s : DSet) (m : Meta) (h : ∀ d ∈ s.dirs, d.fields = []) :
    wouldEnable s m.target m.level = enabled s m := by
  unfold wouldEnable enabled
  have : ∀ l : List SDir, (∀ d ∈ l, d.fields = []) →
      l.find? (fun d => caresTarget d m.target) = l.find? (fun d => cares d m) := by
    intro l hl
    induction l with
    | nil => rfl
    | cons e rest ih =>
      have he := hl e (by simp)
      have : caresTarget e m.target = cares e m := by simp [caresTarget, cares, he]
      simp only [List.find?_cons, this]
      cases cares e m
      · exact ih (fun d hd => hl d (List.mem_cons_of_mem _ hd))
      · rfl
  rw [this s.dirs h]

/-- **C11.f7_witness** — the full statement is false with field constraints:
`foo[{bar}]=trace` — `would_enable("foo", INFO)` is false, but a span with target `foo` (spans
ignore field names) is enabled -/
theorem f7_witness :
    let s := build [{ target := some (TM.ofString "foo"), fields := [TM.ofString "bar"], level := 5 }]
    wouldEnable s (TM.ofString "foo") 3 = false ∧
    enabled s { target := TM.ofString "foo", level := 3, isEvent := false, fields := [] } = true := by decide

/-- the published max level is the maximum of the inserted levels -/
theorem max_level_bound (ds : List SDir) : ∀ d ∈ ds, d.level ≤ (build ds).maxLevel := by
  have key : ∀ (ds : List SDir) (s : DSet), (∀ d ∈ ds, d.level ≤ (ds.foldl DSet.add s).maxLevel) ∧ s.maxLevel ≤ (ds.foldl DSet.add s).maxLevel := by
    intro ds
    induction ds with
    | nil => intro s; exact ⟨by simp, Nat.le_refl _⟩
    | cons d ds ih =>
      intro s
      obtain ⟨i1, i2⟩ := ih (s.add d)
      have hm : d.level ≤ (s.add d).maxLevel ∧ s.maxLevel ≤ (s.add d).maxLevel := by
        simp only [DSet.add]; split <;> omega
      refine ⟨?_, by simp only [List.foldl_cons]; omega⟩
      intro x hx
      rcases List.mem_cons.mp hx with rfl | hx
      · simp only [List.foldl_cons]; omega
      · exact i1 x hx
  exact (key ds DSet.empty).1

/-- every directive in the set was inserted -/
theorem mem_build (ds : List SDir) (x : SDir) (h : x ∈ (build ds).dirs) : x ∈ ds := by
  have key : ∀ (ds : List SDir) (s : DSet), x ∈ (ds.foldl DSet.add s).dirs → x ∈ ds ∨ x ∈ s.dirs := by
    intro ds
    induction ds with
    | nil => intro s h; exact Or.inr h
    | cons d ds ih =>
      intro s h
      rcases ih _ h with h | h
      · exact Or.inl (List.mem_cons_of_mem _ h)
      · rcases mem_insertDir d x s.dirs h with rfl | h
        · exact Or.inl (by simp)
        · exact Or.inr h
  rcases key ds _ h with h | h
  · exact h
  · simp [DSet.empty] at h

/-- tests (not the unbounded claim): text round trips of concrete Targets strings -/
example : (parseTargets (TM.ofString "app=info,app::db=trace,warn")).map displayTargets
    = some (TM.ofString "app::db=trace,app=info,warn") := by decide
example : (parseStatic (TM.ofString "foo[{bar,baz}]=debug")).map displayStatic = some (TM.ofString "foo[{bar,baz}]=debug") := by decide

end C11
