/-
C05, the deferred removal of a closed span's slot ("while any layer is handling that close the span's stored data is still
readable; afterwards the span is gone"), for every number of layers and every state of the thread's CLOSE_COUNT.

* `closed_span_is_removed_at_any_depth` — the code as it stands (CLOSE_COUNT belongs to ONE span; the guards of a close that
  starts inside another span's `on_close` count from zero and put the interrupted count back): a span whose last reference goes,
  at top level or at any depth of nested `on_close` calls, is handed to each of the n layers once, innermost first, readable each
  time; then its slot is removed and the parent's reference released.  For every n ≥ 1.
* `nested_close_never_cleared` — the code BEFORE the repair (one count for the thread): the same release made inside some span's
  `on_close` (a layer drops a handle it owns while it handles a close) told every layer — and never removed the slot: the count
  could not be 1 for any of its frames.  The span stayed readable for ever and the reference it held on its parent was never
  released.  Finding F15, for every n, every depth and every span; `f15_witness` is a concrete history (the parent never closes),
  `f15_repaired` the same history under the per-span count; `old_rule_top_level`: at top level the old rule was right.
-/
import TracingModel.Core.CloseGuard
import TracingModel.Gen.CloseGuardFacts

namespace C05
open TM.CloseGuard

/-- the three facts the model rests on, as the translator finds them in sharded.rs / layered.rs on this run: every frame takes
its guard (CLOSE_COUNT + 1, or a fresh count of 1 when another span's close is interrupted) before it asks the frame below, hands
`on_close` to its layer only when the span closed, and its guard — dropped on return — stores count - 1 and, iff it found the
count at 1, puts the interrupted count back and removes the slot -/
theorem close_guard_facts : TM.Gen.CloseGuardFacts.clearsAtCountOne = true ∧ TM.Gen.CloseGuardFacts.countPerSpan = true ∧
    TM.Gen.CloseGuardFacts.startCloseAddsOne = true ∧ TM.Gen.CloseGuardFacts.frameOrder = true := by decide

def NoWill (wills : List Will) (k : Nat) : Prop := ∀ w ∈ wills, w.of ≠ k

theorem filter_noWill (wills : List Will) (k layer : Nat) (h : NoWill wills k) :
    wills.filter (fun w => w.layer == layer && w.of == k) = [] := by
  apply List.filter_eq_nil_iff.mpr
  intro w hw
  have := h w hw
  simp [this]

/-- the readable flags the layers see: the slot is there for all of them -/
def entries (k : Nat) (rd : Bool) (j : Nat) : List (Nat × Nat × Bool) := (List.range j).map (fun i => (i + 1, k, rd))

theorem entries_succ (k : Nat) (rd : Bool) (j : Nat) : entries k rd (j + 1) = entries k rd j ++ [(j + 1, k, rd)] := by
  simp [entries, List.range_succ]

/-- a frame that has no will and does not find the count at 1: one log line, count - 1 -/
theorem layerStep_quiet (ps : Bool) (parent : Nat → Option Nat) (wills : List Will) (rec : S → Nat → S) (k : Nat) (saved : Nat × Nat) (s : S) (i : Nat)
    (hw : NoWill wills k) (ht : s.count ≠ 1) :
    layerStep ps parent wills rec k saved s i = { s with count := s.count - 1, log := s.log ++ [(i + 1, k, !s.cleared.contains k)] } := by
  unfold layerStep runWills guardStep
  simp only [filter_noWill wills k (i + 1) hw, List.foldl_nil]
  have : (s.count == 1) = false := by simpa using ht
  simp [this]

/-- `j` such frames in a row -/
theorem loop_quiet (ps : Bool) (parent : Nat → Option Nat) (wills : List Will) (rec : S → Nat → S) (k : Nat) (saved : Nat × Nat)
    (hw : NoWill wills k) (j : Nat) (s : S) (ht : ∀ i, i < j → s.count - i ≠ 1) :
    (List.range j).foldl (layerStep ps parent wills rec k saved) s
      = { s with count := s.count - j, log := s.log ++ entries k (!s.cleared.contains k) j } := by
  induction j with
  | zero => simp [entries]
  | succ j ih =>
    rw [List.range_succ, List.foldl_append, ih (fun i hi => ht i (Nat.lt_succ_of_lt hi))]
    simp only [List.foldl_cons, List.foldl_nil]
    rw [layerStep_quiet ps parent wills rec k saved _ j hw (by simpa using ht j (Nat.lt_succ_self j))]
    simp [entries_succ, Nat.sub_add_eq]

/-- **C05.closed_span_is_removed_at_any_depth** — the code as it stands (the count belongs to one span): a span whose last
reference goes — at top level or INSIDE any number of other spans' `on_close` calls, whatever CLOSE_COUNT holds at that moment —
is handed to each of the n layers exactly once, innermost first, its stored data readable every time; then the interrupted count
is put back, the slot is removed and the reference held on the parent is released.  For every n ≥ 1. -/
theorem closed_span_is_removed_at_any_depth (n : Nat) (hn : 1 ≤ n) (parent : Nat → Option Nat) (wills : List Will) (fuel : Nat) (s : S) (k : Nat)
    (href : s.refs k = 1) (hnew : s.closed.contains k = false) (hw : NoWill wills k) :
    release true n parent wills (fuel + 1) s k
      = (let s' : S := { s with refs := upd s.refs k 0, closed := k :: s.closed, cleared := k :: s.cleared,
                                log := s.log ++ entries k (!s.cleared.contains k) n }
         match parent k with
         | some p => release true n parent wills fuel s' p
         | none => s') := by
  obtain ⟨j, rfl⟩ : ∃ j, n = j + 1 := ⟨n - 1, by omega⟩
  conv => lhs; unfold release
  simp only [href, Nat.sub_self, ne_eq, not_true_eq_false, decide_false, hnew, Bool.or_self, Bool.false_eq_true, if_false, if_true]
  rw [List.range_succ, List.foldl_append, loop_quiet true parent wills _ k _ hw j]
  · simp only [List.foldl_cons, List.foldl_nil]
    unfold layerStep runWills guardStep
    simp only [filter_noWill wills k (j + 1) hw, List.foldl_nil]
    cases hp : parent k <;> simp [entries_succ]
  · intro i hi
    show j + 1 - i ≠ 1
    omega

/-- **C05.nested_close_never_cleared** (finding F15 — the code BEFORE its repair, one count for the thread — for every n, depth
and span): a last reference released while a close is being handled on the thread: every layer is told, the slot is never
removed, the parent's reference never released. -/
theorem nested_close_never_cleared (n : Nat) (parent : Nat → Option Nat) (wills : List Will) (fuel : Nat) (s : S) (k : Nat)
    (hdepth : 1 ≤ s.count) (href : s.refs k = 1) (hnew : s.closed.contains k = false) (hw : NoWill wills k) :
    release false n parent wills (fuel + 1) s k
      = { s with refs := upd s.refs k 0, closed := k :: s.closed, log := s.log ++ entries k (!s.cleared.contains k) n } := by
  unfold release
  simp only [href, Nat.sub_self, ne_eq, not_true_eq_false, decide_false, hnew, Bool.or_self, Bool.false_eq_true, if_false]
  rw [loop_quiet false parent wills _ k _ hw n]
  · simp
  · intro i hi
    show s.count + n - i ≠ 1
    omega

/-- … while at top level (no close being handled) the old rule did what the property says -/
theorem old_rule_top_level (n : Nat) (hn : 1 ≤ n) (parent : Nat → Option Nat) (wills : List Will) (fuel : Nat) (s : S) (k : Nat)
    (htop : s.count = 0) (href : s.refs k = 1) (hnew : s.closed.contains k = false) (hw : NoWill wills k) :
    release false n parent wills (fuel + 1) s k
      = (let s' : S := { s with refs := upd s.refs k 0, closed := k :: s.closed, cleared := k :: s.cleared,
                                log := s.log ++ entries k (!s.cleared.contains k) n }
         match parent k with
         | some p => release false n parent wills fuel s' p
         | none => s') := by
  obtain ⟨j, rfl⟩ : ∃ j, n = j + 1 := ⟨n - 1, by omega⟩
  conv => lhs; unfold release
  simp only [href, Nat.sub_self, ne_eq, not_true_eq_false, decide_false, hnew, Bool.or_self, Bool.false_eq_true, if_false]
  rw [List.range_succ, List.foldl_append, loop_quiet false parent wills _ k _ hw j]
  · simp only [List.foldl_cons, List.foldl_nil]
    unfold layerStep runWills guardStep
    simp only [filter_noWill wills k (j + 1) hw, List.foldl_nil, htop]
    cases hp : parent k <;> simp [entries_succ]
  · intro i hi
    show s.count + (j + 1) - i ≠ 1
    omega

/-! ### F15, a concrete history: two layers; span 0 is the parent of span 1; span 2 is unrelated.  The user drops the handle of
0 (it stays open: its child is) and then the handle of 2; the inner layer owns the handle of 1 and drops it while it handles the
close of 2. -/

def wParent : Nat → Option Nat := fun k => if k = 1 then some 0 else none
def wWills : List Will := [{ layer := 1, of := 2, drops := 1 }]
def wRun (rule : Bool) : S :=
  let s := start 3 wParent
  let s := dropHandle rule 2 wParent wWills 10 s 0
  dropHandle rule 2 wParent wWills 10 s 2

/-- before the repair: 1 and 2 are closed and told to both layers, only 2's slot is removed; 1 stays readable and its parent 0 —
no handle left, its only child closed — is never closed -/
theorem f15_witness :
    (wRun false).closed = [1, 2] ∧ (wRun false).cleared = [2] ∧ (wRun false).held = [] ∧ (wRun false).count = 0 ∧
    (wRun false).log = [(1, 2, true), (1, 1, true), (2, 1, true), (2, 2, true)] := by decide

/-- with the count kept per span the same history ends with everything closed and gone, children before parents -/
theorem f15_repaired :
    (wRun true).closed = [0, 1, 2] ∧ (wRun true).cleared = [2, 0, 1] ∧ (wRun true).count = 0 ∧ (wRun true).closing = 0 ∧
    (wRun true).log = [(1, 2, true), (1, 1, true), (2, 1, true), (1, 0, true), (2, 0, true), (2, 2, true)] := by decide

/-- the premises of the three theorems are satisfiable (two layers, the start of the witness history, span 2) -/
example : (start 3 wParent).count = 0 ∧ (start 3 wParent).refs 2 = 1 ∧ (start 3 wParent).closed.contains 2 = false ∧ NoWill [] 2 :=
  ⟨rfl, by decide, rfl, fun _ h => by cases h⟩

end C05
