/-
C03, the last clause — "nothing arrives after the last handle's close notification".

For every finite program over the Span API: every call a collector receives about a span — clone,
enter, exit, record, follows-from, close — arrives while that collector's own count for the span
(creations + clones − closes it has been told about so far) is at least one; the close that takes the
count to zero is the last thing it ever hears about the span.
-/
import TracingModel.Props.C03E

namespace C03
open TM.SpanHandle

/-! ### what each collector believes is entered = enters − exits it has been told -/

theorem count_removeLast (id x : Nat) (l : List Nat) :
    (removeLast id l).count x + (if x = id ∧ id ∈ l then 1 else 0) = l.count x := by
  induction l with
  | nil => simp [removeLast]
  | cons a rest ih =>
    simp only [removeLast]
    by_cases hc : rest.contains id = true
    · have hm : id ∈ rest := by simpa using hc
      simp only [hc, if_true, List.count_cons]
      have hm' : id ∈ a :: rest := List.mem_cons_of_mem _ hm
      simp only [hm, and_true] at ih
      simp only [hm', and_true]
      omega
    · have hm : id ∉ rest := by simpa using hc
      simp only [hc, Bool.false_eq_true, if_false]
      by_cases ha : a = id
      · subst ha
        simp only [if_true, List.count_cons, List.mem_cons, true_or, and_true]
        by_cases hx : x = a
        · subst hx; simp
        · have : ¬ a = x := fun e => hx e.symm
          simp [hx, this]
      · have hmem : id ∉ a :: rest := by
          intro h; rcases List.mem_cons.mp h with h | h
          · exact ha h.symm
          · exact hm h
        simp [ha, hmem]

/-- the collector-side view agrees with the call log -/
def EC (s : PState) : Prop := ∀ (c : Cid) (t : Tid) (id : Nat), ((s.entered c t).count id : Int) = ebal (c, id) t s.log

theorem EC.init (acc : Cid → Nat → Bool) : EC (PState.init acc) := by intro c t id; rfl

theorem update2_same {α} (f : Nat → Nat → α) (a b : Nat) (v : α) : update2 f a b v a b = v := by simp [update2]
theorem update2_other {α} (f : Nat → Nat → α) (a b x y : Nat) (v : α) (h : ¬ (x = a ∧ y = b)) : update2 f a b v x y = f x y := by
  simp [update2, h]

theorem ne_enter_other (c c' : Cid) (id id' : Nat) (t t' : Tid) (h : ¬ (c' = c ∧ t' = t ∧ id' = id)) :
    ne (c', id') t' (Call.enter c id t) = 0 := by
  simp only [ne]
  have : ¬ ((c, id) = (c', id') ∧ t = t') := by
    intro ⟨e1, e2⟩; cases e1; exact h ⟨rfl, e2.symm, rfl⟩
  rw [if_neg this]

theorem ne_exit_other (c c' : Cid) (id id' : Nat) (t t' : Tid) (h : ¬ (c' = c ∧ t' = t ∧ id' = id)) :
    ne (c', id') t' (Call.exit c id t) = 0 := by
  simp only [ne]
  have : ¬ ((c, id) = (c', id') ∧ t = t') := by
    intro ⟨e1, e2⟩; cases e1; exact h ⟨rfl, e2.symm, rfl⟩
  rw [if_neg this]

theorem ec_doEnter (s : PState) (h : EC s) (r : Option Ref) (t : Tid) : EC (doEnter s r t) := by
  cases r with
  | none => exact h
  | some p =>
    obtain ⟨c, id⟩ := p
    intro c' t' id'
    have hh := h c' t' id'
    simp only [doEnter, emit, ebal_append]
    by_cases e : c' = c ∧ t' = t
    · obtain ⟨rfl, rfl⟩ := e
      simp only [update2_same, List.count_append, List.count_cons, List.count_nil]
      by_cases ei : id' = id
      · subst ei
        have : ne (c', id') t' (Call.enter c' id' t') = 1 := by simp [ne]
        rw [this]; simp; omega
      · rw [ne_enter_other c' c' id id' t' t' (fun ⟨_, _, e3⟩ => ei e3)]
        have : ¬ id = id' := fun e => ei e.symm
        simp [this]; omega
    · rw [update2_other _ _ _ _ _ _ e, ne_enter_other c c' id id' t t' (fun ⟨e1, e2, _⟩ => e ⟨e1, e2⟩)]
      simpa using hh

theorem ec_doExit (s : PState) (h : EC s) (r : Option Ref) (t : Tid)
    (hpos : ∀ c id, r = some (c, id) → 1 ≤ ebal (c, id) t s.log) : EC (doExit s r t) := by
  cases r with
  | none => exact h
  | some p =>
    obtain ⟨c, id⟩ := p
    have hp := hpos c id rfl
    have hin : id ∈ s.entered c t := by
      have := h c t id
      have hc : 1 ≤ (s.entered c t).count id := by omega
      exact List.count_pos_iff.mp hc
    intro c' t' id'
    have hh := h c' t' id'
    simp only [doExit, emit, ebal_append]
    by_cases e : c' = c ∧ t' = t
    · obtain ⟨rfl, rfl⟩ := e
      simp only [update2_same]
      have hr := count_removeLast id id' (s.entered c' t')
      by_cases ei : id' = id
      · subst ei
        simp only [hin, and_self, if_true] at hr
        have : ne (c', id') t' (Call.exit c' id' t') = -1 := by simp [ne]
        rw [this]; omega
      · simp only [ei, false_and, if_false] at hr
        rw [ne_exit_other c' c' id id' t' t' (fun ⟨_, _, e3⟩ => ei e3)]
        omega
    · rw [update2_other _ _ _ _ _ _ e, ne_exit_other c c' id id' t t' (fun ⟨e1, e2, _⟩ => e ⟨e1, e2⟩)]
      simpa using hh

theorem ec_doClose (s : PState) (h : EC s) (r : Option Ref) : EC (doClose s r) := by
  cases r with
  | none => exact h
  | some p =>
    obtain ⟨c, id⟩ := p
    intro c' t' id'
    have := h c' t' id'
    simp only [doClose, emit, ebal_append, ne]
    simpa using this

/-- a call that is neither enter nor exit changes nothing here -/
theorem ec_emit (s : PState) (h : EC s) (c : Call) (hc : ∀ r t, ne r t c = 0) : EC (emit s c) := by
  intro c' t' id'
  have := h c' t' id'
  simp only [emit, ebal_append, hc]
  simpa using this

theorem ec_owners (s : PState) (h : EC s) (o : List Owner) : EC { s with owners := o } := h

theorem ec_currentRef (s : PState) (h : EC s) (t : Tid) : EC (currentRef s t).1 := by
  cases hc : currentOf s t with
  | none => rw [currentRef_none s t hc]; exact h
  | some p =>
    obtain ⟨c, id⟩ := p
    rw [currentRef_some s t c id hc]
    exact ec_emit s h _ (by intro r t; rfl)

theorem ec_dropHandle (s : PState) (h : EC s) (k : Key) : EC (dropHandle s k) := by
  simp only [dropHandle]
  cases ht : take k s.owners with
  | none => exact h
  | some p =>
    obtain ⟨o, rest⟩ := p
    simp only []
    split
    · exact ec_doClose _ (ec_owners s h rest) _
    · exact h

theorem ebal_nonneg_of_eb (s : PState) (hb : EB s) (r : Ref) (t : Tid) : 0 ≤ ebal r t s.log := by
  rw [hb r t]; exact gown_nonneg r t _

theorem ebal_doEnter_self (s : PState) (c : Cid) (id : Nat) (t : Tid) :
    ebal (c, id) t (doEnter s (some (c, id)) t).log = ebal (c, id) t s.log + 1 := by
  rw [doEnter_ebal]; simp

/-- the guard `o` of span `(c, id)` on thread `t` is among the owners: at least one unexited enter -/
theorem ebal_pos_of_guard (s : PState) (hb : EB s) (k : Key) (o : Owner) (rest : List Owner) (t : Tid) (c : Cid) (id : Nat)
    (ht : take k s.owners = some (o, rest)) (hk : o.kind = .guard t) (hr : o.ref = some (c, id)) :
    1 ≤ ebal (c, id) t s.log := by
  rw [hb (c, id) t, take_gown (c, id) t k _ o rest ht]
  have : gholds (c, id) t o = 1 := by simp [gholds, hk, hr]
  have := gown_nonneg (c, id) t rest
  omega

theorem step_ec (s : PState) (op : Op) (hb : EB s) (h : EC s) : EC (step s op) := by
  cases op with
  | newSpan t k lvl =>
    simp only [step]
    cases hd : s.dflt t with
    | none => exact h
    | some c =>
      simp only []
      split
      · exact ec_emit _ h _ (by intro r t; rfl)
      · exact h
  | clone k k2 =>
    simp only [step]
    cases hf : find k s.owners with
    | none => exact h
    | some o =>
      simp only []
      cases hk : o.kind <;> cases hr : o.ref <;> simp only [] <;> try exact h
      rename_i p; obtain ⟨c, id⟩ := p
      exact ec_emit _ h _ (by intro r t; rfl)
  | drop k => exact ec_dropHandle s h k
  | enter t k g =>
    simp only [step]
    cases ht : take k s.owners with
    | none => exact h
    | some p =>
      obtain ⟨o, rest⟩ := p
      simp only []
      split
      · exact ec_doEnter _ (ec_owners s h _) _ _
      · exact h
  | exitTo g k2 =>
    simp only [step]
    cases ht : take g s.owners with
    | none => exact h
    | some p =>
      obtain ⟨o, rest⟩ := p
      simp only []
      cases hk : o.kind with
      | handle => exact h
      | future => exact h
      | guard t =>
        simp only []
        apply ec_doExit _ (ec_owners s h _)
        intro c id hr
        exact ebal_pos_of_guard s hb g o rest t c id ht hk hr
  | dropGuard g =>
    simp only [step]
    cases ht : take g s.owners with
    | none => exact h
    | some p =>
      obtain ⟨o, rest⟩ := p
      simp only []
      cases hk : o.kind with
      | handle => exact h
      | future => exact h
      | guard t =>
        simp only []
        apply ec_doClose
        apply ec_doExit _ (ec_owners s h _)
        intro c id hr
        exact ebal_pos_of_guard s hb g o rest t c id ht hk hr
  | inScope t k =>
    simp only [step]
    cases hf : find k s.owners with
    | none => exact h
    | some o =>
      simp only []
      split
      · apply ec_doExit _ (ec_doEnter _ h _ _)
        intro c id hr
        rw [hr, ebal_doEnter_self]
        have := ebal_nonneg_of_eb s hb (c, id) t
        omega
      · exact h
  | record k =>
    simp only [step]
    cases hf : find k s.owners with
    | none => exact h
    | some o =>
      simp only []
      cases hk : o.kind <;> cases hr : o.ref <;> simp only [] <;> try exact h
      rename_i p; obtain ⟨c, id⟩ := p
      exact ec_emit _ h _ (by intro r t; rfl)
  | follows k k2 =>
    simp only [step]
    cases hf : find k s.owners <;> cases hf2 : find k2 s.owners <;> simp only [] <;> try exact h
    rename_i o o2
    cases hk : o.kind <;> cases hr : o.ref <;> cases hk2 : o2.kind <;> cases hr2 : o2.ref <;> simp only [] <;> try exact h
    rename_i p p2; obtain ⟨c, id⟩ := p; obtain ⟨c2, id2⟩ := p2
    exact ec_emit _ h _ (by intro r t; rfl)
  | followsGuard k k2 =>
    simp only [step]
    cases hf : find k s.owners <;> cases hf2 : find k2 s.owners <;> simp only [] <;> try exact h
    rename_i o o2
    cases hk : o.kind <;> cases hr : o.ref <;> cases hk2 : o2.kind <;> cases hr2 : o2.ref <;> simp only [] <;> try exact h
    rename_i p t2 p2; obtain ⟨c, id⟩ := p; obtain ⟨c2, id2⟩ := p2
    exact ec_emit _ h _ (by intro r t; rfl)
  | current t k =>
    simp only [step]
    exact ec_currentRef s h t
  | orCurrent t k k2 =>
    simp only [step]
    cases ht : take k s.owners with
    | none => exact h
    | some p =>
      obtain ⟨o, rest⟩ := p
      simp only []
      split
      · cases hr : o.ref with
        | some r => exact h
        | none => exact ec_currentRef { s with owners := rest } h t
      · exact h
  | instrument k f =>
    simp only [step]
    cases ht : take k s.owners with
    | none => exact h
    | some p =>
      obtain ⟨o, rest⟩ := p
      simp only []
      split <;> exact h
  | poll t f =>
    simp only [step]
    cases hf : find f s.owners with
    | none => exact h
    | some o =>
      simp only []
      split
      · apply ec_doExit _ (ec_doEnter _ h _ _)
        intro c id hr
        rw [hr, ebal_doEnter_self]
        have := ebal_nonneg_of_eb s hb (c, id) t
        omega
      · exact h
  | dropFuture t f =>
    simp only [step]
    cases ht : take f s.owners with
    | none => exact h
    | some p =>
      obtain ⟨o, rest⟩ := p
      simp only []
      split
      · apply ec_doClose
        apply ec_doExit _ (ec_doEnter _ (ec_owners s h rest) _ _)
        intro c id hr
        rw [hr, ebal_doEnter_self]
        have := ebal_nonneg_of_eb s hb (c, id) t
        show 1 ≤ ebal (c, id) t s.log + 1
        omega
      · exact h
  | dropFutureHolding t f k =>
    simp only [step]
    cases ht : take f s.owners with
    | none => exact h
    | some p =>
      obtain ⟨o, rest⟩ := p
      simp only []
      split
      · apply ec_doClose
        apply ec_doExit _ (ec_dropHandle _ (ec_doEnter _ (ec_owners s h rest) _ _) k)
        intro c id hr
        have hd := dropHandle_ebal (c, id) t (doEnter { s with owners := rest } o.ref t) k
        have hg1 := gown_nonneg (c, id) t (dropHandle (doEnter { s with owners := rest } o.ref t) k).owners
        -- the drop of a HANDLE never removes a guard: gown can only stay
        have hge : ebal (c, id) t (dropHandle (doEnter { s with owners := rest } o.ref t) k).log =
            ebal (c, id) t (doEnter { s with owners := rest } o.ref t).log := by
          simp only [dropHandle]
          cases ht2 : take k (doEnter { s with owners := rest } o.ref t).owners with
          | none => rfl
          | some p2 =>
            obtain ⟨oi, resti⟩ := p2
            simp only []
            split
            · rw [doClose_ebal]
            · rfl
        rw [hge, hr, ebal_doEnter_self]
        have := ebal_nonneg_of_eb s hb (c, id) t
        show 1 ≤ ebal (c, id) t s.log + 1
        omega
      · exact h
  | intoInner f =>
    simp only [step]
    cases ht : take f s.owners with
    | none => exact h
    | some p =>
      obtain ⟨o, rest⟩ := p
      simp only []
      split
      · exact ec_doClose _ (ec_owners s h rest) _
      · exact h
  | setDefault t c => exact h

/-! ### silence after the last close -/

def about : Call → Ref
  | .new c id => (c, id)
  | .clone c id => (c, id)
  | .close c id => (c, id)
  | .enter c id _ => (c, id)
  | .exit c id _ => (c, id)
  | .record c id => (c, id)
  | .follows c id _ => (c, id)

def isNew : Call → Bool
  | .new _ _ => true
  | _ => false

/-- every call of `l`, read after the prefix `pre`, is a creation or arrives while the collector's count for its span is ≥ 1 -/
def sokFrom (pre : List Call) : List Call → Prop
  | [] => True
  | c :: rest => (isNew c = true ∨ 1 ≤ bal (about c) pre) ∧ sokFrom (pre ++ [c]) rest

def SOK (log : List Call) : Prop := sokFrom [] log

theorem sokFrom_append (pre a b : List Call) : sokFrom pre (a ++ b) ↔ sokFrom pre a ∧ sokFrom (pre ++ a) b := by
  induction a generalizing pre with
  | nil => simp [sokFrom]
  | cons c cs ih =>
    simp only [List.cons_append, sokFrom, ih, List.append_assoc, List.singleton_append]
    constructor
    · rintro ⟨h1, h2, h3⟩; exact ⟨⟨h1, h2⟩, h3⟩
    · rintro ⟨⟨h1, h2⟩, h3⟩; exact ⟨h1, h2, h3⟩

theorem SOK_snoc (log : List Call) (c : Call) : SOK (log ++ [c]) ↔ SOK log ∧ (isNew c = true ∨ 1 ≤ bal (about c) log) := by
  simp only [SOK, sokFrom_append, List.nil_append, sokFrom, and_true]

theorem sok_emit (s : PState) (h : SOK s.log) (c : Call) (hc : isNew c = true ∨ 1 ≤ bal (about c) s.log) : SOK (emit s c).log := by
  simp only [emit]; exact (SOK_snoc s.log c).mpr ⟨h, hc⟩

theorem sok_doEnter (s : PState) (h : SOK s.log) (r : Option Ref) (t : Tid) (hr : ∀ q, r = some q → 1 ≤ bal q s.log) :
    SOK (doEnter s r t).log := by
  cases r with
  | none => exact h
  | some p =>
    obtain ⟨c, id⟩ := p
    simp only [doEnter]
    exact sok_emit _ h _ (Or.inr (hr (c, id) rfl))

theorem sok_doExit (s : PState) (h : SOK s.log) (r : Option Ref) (t : Tid) (hr : ∀ q, r = some q → 1 ≤ bal q s.log) :
    SOK (doExit s r t).log := by
  cases r with
  | none => exact h
  | some p =>
    obtain ⟨c, id⟩ := p
    simp only [doExit]
    exact sok_emit _ h _ (Or.inr (hr (c, id) rfl))

theorem sok_doClose (s : PState) (h : SOK s.log) (r : Option Ref) (hr : ∀ q, r = some q → 1 ≤ bal q s.log) :
    SOK (doClose s r).log := by
  cases r with
  | none => exact h
  | some p =>
    obtain ⟨c, id⟩ := p
    simp only [doClose]
    exact sok_emit _ h _ (Or.inr (hr (c, id) rfl))

theorem holds_nonneg (q : Ref) (o : Owner) : 0 ≤ holds q o := by simp only [holds]; split <;> omega

theorem own_nonneg (q : Ref) (l : List Owner) : 0 ≤ own q l := by
  induction l with
  | nil => simp [own]
  | cons o l ih => rw [own_cons]; have := holds_nonneg q o; omega

theorem own_pos_of_mem (q : Ref) (l : List Owner) (o : Owner) (hm : o ∈ l) (hr : o.ref = some q) : 1 ≤ own q l := by
  induction l with
  | nil => cases hm
  | cons a l ih =>
    rw [own_cons]
    rcases List.mem_cons.mp hm with rfl | hm
    · have : holds q o = 1 := by simp [holds, hr]
      have := own_nonneg q l; omega
    · have := ih hm; have := holds_nonneg q a; omega

theorem mem_of_find (k : Key) (l : List Owner) (o : Owner) (h : find k l = some o) : o ∈ l := by
  simp only [find] at h; exact List.mem_of_find?_eq_some h

theorem own_pos_of_take (q : Ref) (k : Key) (l : List Owner) (o : Owner) (rest : List Owner)
    (ht : take k l = some (o, rest)) (hr : o.ref = some q) : 1 ≤ own q l := by
  rw [take_own q k l o rest ht]
  have : holds q o = 1 := by simp [holds, hr]
  have := own_nonneg q rest; omega

theorem gholds_le_holds (q : Ref) (t : Tid) (o : Owner) : gholds q t o ≤ holds q o := by
  simp only [gholds, holds]
  by_cases h : o.kind = OwnerKind.guard t ∧ o.ref = some q
  · simp [h.1, h.2]
  · rw [if_neg h]; split <;> omega

theorem gown_le_own (q : Ref) (t : Tid) (l : List Owner) : gown q t l ≤ own q l := by
  induction l with
  | nil => simp [gown, own]
  | cons o l ih => rw [gown_cons, own_cons]; have := gholds_le_holds q t o; omega

/-- the span the default collector reports as current is held by a guard -/
theorem current_owned (s : PState) (hrc : RC s) (hb : EB s) (hc : EC s) (t : Tid) (c : Cid) (id : Nat)
    (h : currentOf s t = some (c, id)) : 1 ≤ bal (c, id) s.log := by
  simp only [currentOf] at h
  cases hd : s.dflt t with
  | none => simp [hd] at h
  | some c' =>
    simp only [hd, Option.map_eq_some_iff] at h
    obtain ⟨x, hx, he⟩ := h
    cases he
    have hm : id ∈ s.entered c t := List.mem_of_getLast? hx
    have h1 : 1 ≤ (s.entered c t).count id := List.count_pos_iff.mpr hm
    have h2 := hc c t id
    have h3 := hb (c, id) t
    have h4 := gown_le_own (c, id) t s.owners
    have h5 := hrc (c, id)
    omega

theorem sok_dropHandle (s : PState) (h : SOK s.log) (k : Key) (hge : ∀ q, own q s.owners ≤ bal q s.log) :
    SOK (dropHandle s k).log := by
  simp only [dropHandle]
  cases ht : take k s.owners with
  | none => exact h
  | some p =>
    obtain ⟨o, rest⟩ := p
    simp only []
    split
    · apply sok_doClose { s with owners := rest } h
      intro q hq
      have := own_pos_of_take q k _ o rest ht hq
      have := hge q
      show 1 ≤ bal q s.log
      omega
    · exact h

theorem sok_currentRef (s : PState) (hrc : RC s) (hb : EB s) (hc : EC s) (h : SOK s.log) (t : Tid) : SOK (currentRef s t).1.log := by
  cases hcur : currentOf s t with
  | none => rw [currentRef_none s t hcur]; exact h
  | some p =>
    obtain ⟨c, id⟩ := p
    rw [currentRef_some s t c id hcur]
    exact sok_emit s h _ (Or.inr (current_owned s hrc hb hc t c id hcur))

theorem step_sok (s : PState) (op : Op) (hrc : RC s) (hb : EB s) (hc : EC s) (h : SOK s.log) : SOK (step s op).log := by
  cases op with
  | newSpan t k lvl =>
    simp only [step]
    cases hd : s.dflt t with
    | none => exact h
    | some c =>
      simp only []
      split
      · exact sok_emit _ h _ (Or.inl rfl)
      · exact h
  | clone k k2 =>
    simp only [step]
    cases hf : find k s.owners with
    | none => exact h
    | some o =>
      simp only []
      cases hk : o.kind <;> cases hr : o.ref <;> simp only [] <;> try exact h
      rename_i p; obtain ⟨c, id⟩ := p
      apply sok_emit { s with owners := _ } h
      right
      have := own_pos_of_mem (c, id) s.owners o (mem_of_find k _ o hf) hr
      have := hrc (c, id)
      show 1 ≤ bal (c, id) s.log
      omega
  | drop k =>
    simp only [step]
    exact sok_dropHandle s h k (fun q => by rw [hrc q]; exact Int.le_refl _)
  | enter t k g =>
    simp only [step]
    cases ht : take k s.owners with
    | none => exact h
    | some p =>
      obtain ⟨o, rest⟩ := p
      simp only []
      split
      · apply sok_doEnter
        · exact h
        · intro q hq
          have := own_pos_of_take q k _ o rest ht hq
          have := hrc q
          show 1 ≤ bal q s.log
          omega
      · exact h
  | exitTo g k2 =>
    simp only [step]
    cases ht : take g s.owners with
    | none => exact h
    | some p =>
      obtain ⟨o, rest⟩ := p
      simp only []
      cases hk : o.kind with
      | handle => exact h
      | future => exact h
      | guard t =>
        simp only []
        apply sok_doExit
        · exact h
        · intro q hq
          have := own_pos_of_take q g _ o rest ht hq
          have := hrc q
          show 1 ≤ bal q s.log
          omega
  | dropGuard g =>
    simp only [step]
    cases ht : take g s.owners with
    | none => exact h
    | some p =>
      obtain ⟨o, rest⟩ := p
      simp only []
      cases hk : o.kind with
      | handle => exact h
      | future => exact h
      | guard t =>
        simp only []
        have hpos : ∀ q, o.ref = some q → 1 ≤ bal q s.log := by
          intro q hq
          have := own_pos_of_take q g _ o rest ht hq
          have := hrc q
          omega
        apply sok_doClose
        · exact sok_doExit { s with owners := rest } h _ _ hpos
        · intro q hq
          rw [doExit_bal]
          exact hpos q hq
  | inScope t k =>
    simp only [step]
    cases hf : find k s.owners with
    | none => exact h
    | some o =>
      simp only []
      split
      · have hpos : ∀ q, o.ref = some q → 1 ≤ bal q s.log := by
          intro q hq
          have := own_pos_of_mem q s.owners o (mem_of_find k _ o hf) hq
          have := hrc q
          omega
        apply sok_doExit
        · exact sok_doEnter s h _ _ hpos
        · intro q hq; rw [doEnter_bal]; exact hpos q hq
      · exact h
  | record k =>
    simp only [step]
    cases hf : find k s.owners with
    | none => exact h
    | some o =>
      simp only []
      cases hk : o.kind <;> cases hr : o.ref <;> simp only [] <;> try exact h
      rename_i p; obtain ⟨c, id⟩ := p
      apply sok_emit s h
      right
      have := own_pos_of_mem (c, id) s.owners o (mem_of_find k _ o hf) hr
      have := hrc (c, id)
      show 1 ≤ bal (c, id) s.log
      omega
  | follows k k2 =>
    simp only [step]
    cases hf : find k s.owners <;> cases hf2 : find k2 s.owners <;> simp only [] <;> try exact h
    rename_i o o2
    cases hk : o.kind <;> cases hr : o.ref <;> cases hk2 : o2.kind <;> cases hr2 : o2.ref <;> simp only [] <;> try exact h
    rename_i p p2; obtain ⟨c, id⟩ := p; obtain ⟨c2, id2⟩ := p2
    apply sok_emit s h
    right
    have := own_pos_of_mem (c, id) s.owners o (mem_of_find k _ o hf) hr
    have := hrc (c, id)
    show 1 ≤ bal (c, id) s.log
    omega
  | followsGuard k k2 =>
    simp only [step]
    cases hf : find k s.owners <;> cases hf2 : find k2 s.owners <;> simp only [] <;> try exact h
    rename_i o o2
    cases hk : o.kind <;> cases hr : o.ref <;> cases hk2 : o2.kind <;> cases hr2 : o2.ref <;> simp only [] <;> try exact h
    rename_i p t2 p2; obtain ⟨c, id⟩ := p; obtain ⟨c2, id2⟩ := p2
    apply sok_emit s h
    right
    have := own_pos_of_mem (c, id) s.owners o (mem_of_find k _ o hf) hr
    have := hrc (c, id)
    show 1 ≤ bal (c, id) s.log
    omega
  | current t k =>
    simp only [step]
    exact sok_currentRef s hrc hb hc h t
  | orCurrent t k k2 =>
    simp only [step]
    cases ht : take k s.owners with
    | none => exact h
    | some p =>
      obtain ⟨o, rest⟩ := p
      simp only []
      split
      · cases hr : o.ref with
        | some r => exact h
        | none =>
          simp only []
          -- the disabled handle that is taken out holds nothing: the invariants carry over to `rest`
          have hrc' : RC { s with owners := rest } := by
            intro q
            have := take_own q k _ o rest ht
            have hq := hrc q
            simp only [holds, hr] at this
            show bal q s.log = own q rest
            simp at this; omega
          have hb' : EB { s with owners := rest } := by
            intro q u
            have := take_gown q u k _ o rest ht
            have hq := hb q u
            simp only [gholds, hr] at this
            show ebal q u s.log = gown q u rest
            simp at this; omega
          exact sok_currentRef { s with owners := rest } hrc' hb' hc h t
      · exact h
  | instrument k f =>
    simp only [step]
    cases ht : take k s.owners with
    | none => exact h
    | some p =>
      obtain ⟨o, rest⟩ := p
      simp only []
      split <;> exact h
  | poll t f =>
    simp only [step]
    cases hf : find f s.owners with
    | none => exact h
    | some o =>
      simp only []
      split
      · have hpos : ∀ q, o.ref = some q → 1 ≤ bal q s.log := by
          intro q hq
          have := own_pos_of_mem q s.owners o (mem_of_find f _ o hf) hq
          have := hrc q
          omega
        apply sok_doExit
        · exact sok_doEnter s h _ _ hpos
        · intro q hq; rw [doEnter_bal]; exact hpos q hq
      · exact h
  | dropFuture t f =>
    simp only [step]
    cases ht : take f s.owners with
    | none => exact h
    | some p =>
      obtain ⟨o, rest⟩ := p
      simp only []
      split
      · have hpos : ∀ q, o.ref = some q → 1 ≤ bal q s.log := by
          intro q hq
          have := own_pos_of_take q f _ o rest ht hq
          have := hrc q
          omega
        apply sok_doClose
        · apply sok_doExit
          · exact sok_doEnter { s with owners := rest } h _ _ hpos
          · intro q hq; rw [doEnter_bal]; exact hpos q hq
        · intro q hq; rw [doExit_bal, doEnter_bal]; exact hpos q hq
      · exact h
  | dropFutureHolding t f k =>
    simp only [step]
    cases ht : take f s.owners with
    | none => exact h
    | some p =>
      obtain ⟨o, rest⟩ := p
      simp only []
      split
      · have hpos : ∀ q, o.ref = some q → 1 ≤ bal q s.log := by
          intro q hq
          have := own_pos_of_take q f _ o rest ht hq
          have := hrc q
          omega
        -- after the inner handle has been dropped the future's own span still has its own reference
        have hafter : ∀ q, o.ref = some q →
            1 ≤ bal q (dropHandle (doEnter { s with owners := rest } o.ref t) k).log := by
          intro q hq
          have hd := dropHandle_delta q (doEnter { s with owners := rest } o.ref t) k
          simp only [doEnter_bal, doEnter_owners] at hd
          have h1 := take_own q f _ o rest ht
          have h2 : holds q o = 1 := by simp [holds, hq]
          have h3 := hrc q
          have h4 := own_nonneg q (dropHandle (doEnter { s with owners := rest } o.ref t) k).owners
          show 1 ≤ bal q (dropHandle (doEnter { s with owners := rest } o.ref t) k).log
          have h5 : bal q ({ s with owners := rest } : PState).log = bal q s.log := rfl
          have h6 : own q ({ s with owners := rest } : PState).owners = own q rest := rfl
          omega
        apply sok_doClose
        · apply sok_doExit
          · apply sok_dropHandle
            · exact sok_doEnter { s with owners := rest } h _ _ hpos
            · intro q
              rw [doEnter_bal, doEnter_owners]
              have h1 := take_own q f _ o rest ht
              have h3 := hrc q
              have := holds_nonneg q o
              show own q rest ≤ bal q s.log
              omega
          · exact hafter
        · intro q hq; rw [doExit_bal]; exact hafter q hq
      · exact h
  | intoInner f =>
    simp only [step]
    cases ht : take f s.owners with
    | none => exact h
    | some p =>
      obtain ⟨o, rest⟩ := p
      simp only []
      split
      · have hpos : ∀ q, o.ref = some q → 1 ≤ bal q s.log := by
          intro q hq
          have := own_pos_of_take q f _ o rest ht hq
          have := hrc q
          omega
        exact sok_doClose { s with owners := rest } h _ (fun q hq => hpos q hq)
      · exact h
  | setDefault t c => exact h

/-- **C03.silent_after_last_close** — for EVERY finite program: every call a collector receives about a span other than its
creation arrives while the collector's own count for that span (creations + clones − closes so far) is at least one — nothing
arrives after the close that takes it to zero -/
theorem silent_after_last_close (acc : Cid → Nat → Bool) (ops : List Op) : SOK (run (PState.init acc) ops).log := by
  have key : ∀ (ops : List Op) (s : PState), RC s → EB s → EC s → SOK s.log → SOK (run s ops).log := by
    intro ops
    induction ops with
    | nil => intro s _ _ _ h; exact h
    | cons op ops ih =>
      intro s h1 h2 h3 h4
      exact ih _ (step_rc s op h1) (step_eb s op h2) (step_ec s op h2 h3) (step_sok s op h1 h2 h3 h4)
  exact key ops _ (RC.init acc) (EB.init acc) (EC.init acc) (by simp [SOK, sokFrom, PState.init])

/-- the same, read off a position of the final log -/
theorem nothing_after_zero (acc : Cid → Nat → Bool) (ops : List Op) (p q : List Call) (c : Call)
    (h : (run (PState.init acc) ops).log = p ++ c :: q) : isNew c = true ∨ 1 ≤ bal (about c) p := by
  have := silent_after_last_close acc ops
  rw [h] at this
  have := ((sokFrom_append [] p (c :: q)).mp this).2
  simp only [List.nil_append, sokFrom] at this
  exact this.1

end C03
